"""C04 correspondence: pgmpy DiscreteFactor algebra vs the extracted Coq model (coq/C04/Model.v) and vs an
independent brute-force textbook computation over named assignments (exact Fractions)."""
import itertools
import random
from fractions import Fraction as Fr

from harness import common
from harness.common import ok, bad

PROP = "C04"
LEVEL = "proof"
HASHSEEDS = {"quick": [0, 1, 2, 3], "thorough": [0, 1, 2, 3, 4, 5, 6, 7]}
BUDGET_S = {"quick": 120, "thorough": 1200}
EXHAUSTIVE = {"quick": False, "thorough": False}
RULE = ("random factor pairs over a 6-variable universe (scopes disjoint/nested/overlapping/equal/empty, 0-4 "
        "variables each, cardinalities 1-4 drawn per variable so axes have unequal sizes, state names "
        "default/int-permuted/str/tuple, exact dyadic values with planted zeros so that 0/0 and x/0 occur); every "
        "case runs product/sum/divide/marginalize/maximize/reduce (names, number fall back, negative numbers)/"
        "normalize/scalars/get_value/set_value/assignment/identity/factor_product/factor_sum_product/==/hash "
        "in-place and out-of-place, with operand snapshots before/after and after mutating the result; 'perm' cases "
        "run every axis permutation of both operands (<=4 variables); 'eq' cases probe == just inside/outside "
        "atol+rtol|b| and under axis/state permutations; 'err' cases the rejection paths; 'fdict' cases: two FactorDicts over the same cliques whose same-scope factors list the variables in DIFFERENT axis orders (equal and unequal cardinalities): dot (both directions, self) against the model (total of the modelled product table) and the brute-force sum over named assignments of f*g, dict +/- against the modelled DiscreteFactor.sum, const*/+number, <d1,d1-d2> bilinearity, from_dataframe against row counts; 'fset' cases FactorSet product/divide/marginalize (in place and out of place), factorset_product/factorset_divide, copy, the copying constructor, and FactorDict const*, +number, +, -, dot, product on sets of pairwise distinct factors, compared with a Python brute force over named assignments (a FactorSet is the multiset of its factors; not modelled in Coq beyond the store-model purity theorem), with operand snapshots, `is`-sharing checks and mutation of the result (in-place marginalize, values += 1, field rebinding on every member factor); numpy and torch backends. "
        "Each op is compared literally with the model (variable order, cardinalities, shape, flat table, state-name "
        "dict) and with the brute-force named-assignment definition.  Non-trivial: at least one operand with >= 2 "
        "variables of unequal cardinality or a permuted state list; distinct = distinct canonical case content")
TRUSTED_BASE = ["numpy/torch primitives einsum, swapaxes, max, basic/None/list indexing, broadcasting, allclose "
                "(modelled by their documented meaning in coq/C04/Tensor.v)",
                "python set iteration order is an explicit order parameter of the model, read off pgmpy's result",
                "IEEE-754: inputs are dyadic rationals so floats are exact; results compared at 1e-9 relative"]
ASSUMPTIONS = ["variable and state names are interned by the harness (ints are themselves, str -> 10^6+k, "
               "tuple -> 2*10^6+k)", "operands sharing a variable agree on its cardinality and state list",
               "maximize is modelled by the max-product semiring: non-negative tables only"]

ATOL = Fr(1, 10**8)
RTOL = Fr(1, 10**5)
STR0, TUP0 = 1000000, 2000000
ERR = {"ValueError": 1, "KeyError": 2, "IndexError": 3, "TypeError": 4}


# ------------------------------------------------------------------ names
def pyname(z):
    if z >= TUP0:
        return ("t", z - TUP0)
    if z >= STR0:
        return "s%d" % (z - STR0)
    return z


def zname(x):
    if isinstance(x, tuple):
        return TUP0 + x[1]
    if isinstance(x, str):
        return STR0 + int(x[1:])
    return int(x)


def vname(style, v):
    return {"str": "V%d" % v, "int": 3 * v + 1, "tuple": ("v", v)}[style]


def vid(style, nm):
    if style == "str":
        return int(nm[1:])
    if style == "int":
        return (nm - 1) // 3
    return nm[1]


# ------------------------------------------------------------------ case generation
def gen_universe(rng, nv=6, cards=None):
    style = rng.choice(["default", "default", "intperm", "str", "tuple", "mixed"])
    card, states = {}, {}
    for v in range(nv):
        c = cards[v] if cards else rng.choice([1, 2, 2, 3, 3, 4])
        card[v] = c
        if style == "default":
            st = list(range(c))
        elif style == "intperm":
            st = list(range(c))
            rng.shuffle(st)
            if rng.random() < 0.3:
                st = [x + rng.choice([-2, 5, 10]) for x in st]
        elif style == "str":
            st = [STR0 + k for k in rng.sample(range(8), c)]
        elif style == "tuple":
            st = [TUP0 + k for k in rng.sample(range(8), c)]
        else:
            pool = [0, 1, 2, 3, STR0, STR0 + 1, STR0 + 2, TUP0, TUP0 + 1]
            st = rng.sample(pool, c)
        states[v] = st
    return {"sstyle": style, "vstyle": rng.choice(["str", "str", "int", "tuple"]),
            "card": [card[v] for v in range(nv)], "states": [states[v] for v in range(nv)]}


def gen_values(rng, n, neg=False, zeros=0.25):
    den = rng.choice([1, 2, 4, 8, 16])
    out = []
    for _ in range(n):
        if rng.random() < zeros:
            out.append(0)
        else:
            x = rng.randint(1, 40)
            out.append(-x if neg and rng.random() < 0.3 else x)
    return out, den


def gen_factor(rng, U, vs, neg=False, zeros=0.25):
    n = 1
    for v in vs:
        n *= U["card"][v]
    vals, den = gen_values(rng, n, neg, zeros)
    return {"vars": list(vs), "vals": vals, "den": den}


def gen_scopes(rng, nv=6):
    rel = rng.choice(["disjoint", "nested", "nested", "overlap", "overlap", "equal", "empty", "any"])
    pool = list(range(nv))
    rng.shuffle(pool)
    if rel == "disjoint":
        a = rng.randint(0, 3)
        return rel, pool[:a], pool[a:a + rng.randint(0, 3)]
    if rel == "nested":
        a = rng.randint(1, 4)
        f = pool[:a]
        g = rng.sample(f, rng.randint(0, a))
        return rel, f, g
    if rel == "overlap":
        k = rng.randint(1, 2)
        a, b = rng.randint(0, 2), rng.randint(0, 2)
        f = pool[:k + a]
        g = pool[:k] + pool[k + a:k + a + b]
        rng.shuffle(f)
        rng.shuffle(g)
        return rel, f, g
    if rel == "equal":
        f = pool[:rng.randint(1, 4)]
        g = list(f)
        rng.shuffle(g)
        return rel, f, g
    if rel == "empty":
        return rel, pool[:rng.randint(0, 3)], []
    return rel, pool[:rng.randint(0, 4)], rng.sample(pool, rng.randint(0, 4))


def cases(tier, seed):
    rng = random.Random(seed)
    out = []
    npair, nperm, neq, nerr = (420, 40, 160, 60) if tier == "quick" else (4200, 400, 1600, 300)
    nalign = 80 if tier == "quick" else 800
    nfset = 120 if tier == "quick" else 1200
    nfdict = 160 if tier == "quick" else 1600
    for i in range(npair):
        U = gen_universe(rng)
        rel, fv, gv = gen_scopes(rng)
        neg = rng.random() < 0.15
        c = {"kind": "pair", "backend": "torch" if i % 5 == 4 else "numpy", "U": U, "rel": rel,
             "f": gen_factor(rng, U, fv, neg), "g": gen_factor(rng, U, gv, neg, zeros=0.4), "neg": neg,
             "qseed": rng.randint(0, 10**9)}
        out.append(c)
    # swap-loop stream: >=3 shared variables of pairwise unequal-looking cardinalities, second operand's variable
    # order a non-trivial permutation of the first's (sum / divide / == alignment loop does real work)
    for i in range(nalign):
        cards = [2, 3, 4, 2, 3, 1]
        rng.shuffle(cards)
        U = gen_universe(rng, cards=cards)
        k = rng.choice([3, 3, 4])
        fv = rng.sample(range(6), k)
        while len({U["card"][v] for v in fv}) < 2:
            fv = rng.sample(range(6), k)
        gv = list(fv)
        while gv == fv:
            rng.shuffle(gv)
        if rng.random() < 0.4:
            fv = fv + [v for v in range(6) if v not in fv][:1]      # nested: g's scope a permuted strict subset
        out.append({"kind": "pair", "backend": "torch" if i % 5 == 4 else "numpy", "U": U, "rel": "align",
                    "f": gen_factor(rng, U, fv), "g": gen_factor(rng, U, gv, zeros=0.4), "neg": False,
                    "qseed": rng.randint(0, 10**9)})
    for i in range(nperm):
        U = gen_universe(rng)
        rel, fv, gv = gen_scopes(rng)
        out.append({"kind": "perm", "backend": "torch" if i % 5 == 4 else "numpy", "U": U, "rel": rel,
                    "f": gen_factor(rng, U, fv), "g": gen_factor(rng, U, gv, zeros=0.4), "neg": False,
                    "qseed": rng.randint(0, 10**9)})
    for i in range(neq):
        U = gen_universe(rng)
        fv = rng.sample(range(6), rng.randint(0, 4))
        out.append({"kind": "eq", "backend": "torch" if i % 5 == 4 else "numpy", "U": U,
                    "f": gen_factor(rng, U, fv, zeros=0.15), "qseed": rng.randint(0, 10**9)})
    # FactorSet / FactorDict stream: two or three factor sets of pairwise distinct factors
    for i in range(nfset):
        U = gen_universe(rng)
        sets, seen = [], set()
        for _ in range(3):
            fs = []
            for _ in range(rng.randint(1, 3)):
                for _try in range(20):
                    F = gen_factor(rng, U, rng.sample(range(6), rng.randint(1, 3)), zeros=0.3)
                    key = (tuple(sorted(F["vars"])),)
                    if key not in seen:       # distinct scopes => distinct factors (python sets collapse equal ones)
                        seen.add(key)
                        fs.append(F)
                        break
            sets.append(fs)
        out.append({"kind": "fset", "backend": "torch" if i % 5 == 4 else "numpy", "U": U, "sets": sets,
                    "qseed": rng.randint(0, 10**9)})
    # FactorDict stream: two dictionaries over the same cliques whose factors list the clique's variables in
    # DIFFERENT axis orders; equal cardinalities (a transposed table has the same shape) and unequal ones
    for i in range(nfdict):
        equal = i % 2 == 0
        if equal:
            cards = [rng.choice([2, 3])] * 6
        else:
            cards = [2, 3, 4, 2, 3, 1]
            rng.shuffle(cards)
        U = gen_universe(rng, cards=cards)
        cliques, seen = [], set()
        sizes = [rng.choice([2, 3])] + [rng.randint(1, 3) for _ in range(rng.randint(1, 2))]
        for k in sizes:
            for _try in range(20):
                vs = rng.sample(range(6), k)
                if frozenset(vs) not in seen:
                    seen.add(frozenset(vs))
                    cliques.append(vs)
                    break
        d1, d2 = [], []
        for j, vs in enumerate(cliques):
            ws = list(vs)
            if len(ws) >= 2 and (j == 0 or rng.random() < 0.7):
                while ws == vs:
                    rng.shuffle(ws)
            d1.append(gen_factor(rng, U, vs, zeros=0.2))
            d2.append(gen_factor(rng, U, ws, neg=rng.random() < 0.3, zeros=0.2))
        out.append({"kind": "fdict", "backend": "torch" if i % 4 == 3 else "numpy", "U": U, "d1": d1, "d2": d2,
                    "equal_cards": equal, "qseed": rng.randint(0, 10**9)})
    for i in range(nerr):
        U = gen_universe(rng)
        fv = rng.sample(range(6), rng.randint(1, 3))
        out.append({"kind": "err", "backend": "numpy", "U": U, "f": gen_factor(rng, U, fv),
                    "qseed": rng.randint(0, 10**9)})
    return out


def shrink(case):
    for who in ("f", "g"):
        if who in case and case[who]["vars"]:
            F = case[who]
            for i in range(len(F["vars"])):
                # drop variable i keeping the slice at state 0
                U = case["U"]
                cards = [U["card"][v] for v in F["vars"]]
                idxs = [list(range(c)) for c in cards]
                idxs[i] = [0]
                vals = []
                for t in itertools.product(*idxs):
                    vals.append(F["vals"][ravel(cards, t)])
                c = dict(case)
                c[who] = {"vars": F["vars"][:i] + F["vars"][i + 1:], "vals": vals, "den": F["den"]}
                yield c


# ------------------------------------------------------------------ helpers: indices, spec tables
def ravel(cards, idx):
    n = 0
    for c, i in zip(cards, idx):
        n = n * c + i
    return n


def spec_table(U, F):
    """{frozenset((var, state Z)) : Fraction} for a factor spec"""
    cards = [U["card"][v] for v in F["vars"]]
    t = {}
    for n, idx in enumerate(itertools.product(*[range(c) for c in cards])):
        key = frozenset((v, U["states"][v][i]) for v, i in zip(F["vars"], idx))
        t[key] = Fr(F["vals"][n], F["den"])
    return t


def all_named(U, vs):
    vs = list(vs)
    for idx in itertools.product(*[range(U["card"][v]) for v in vs]):
        yield frozenset((v, U["states"][v][i]) for v, i in zip(vs, idx))


def restrict(key, vs):
    vs = set(vs)
    return frozenset(p for p in key if p[0] in vs)


def xdiv(a, b):
    if b == 0:
        return Fr(0) if a == 0 else ("inf" if a > 0 else "-inf")
    return a / b


def wire(U, F):
    sn = [] if U["sstyle"] == "default" else [[v, U["states"][v]] for v in F["vars"]]
    return [F["vars"], [U["card"][v] for v in F["vars"]], [Fr(x, F["den"]) for x in F["vals"]], sn]


def build(U, F):
    from pgmpy.factors.discrete import DiscreteFactor
    vs = [vname(U["vstyle"], v) for v in F["vars"]]
    cards = [U["card"][v] for v in F["vars"]]
    vals = [x / F["den"] for x in F["vals"]]
    if U["sstyle"] == "default":
        return DiscreteFactor(vs, cards, vals)
    sn = {vname(U["vstyle"], v): [pyname(z) for z in U["states"][v]] for v in F["vars"]}
    return DiscreteFactor(vs, cards, vals, state_names=sn)


def npvals(phi):
    v = phi.values
    if hasattr(v, "detach"):
        v = v.detach().cpu().numpy()
    return v


def snapshot(phi):
    import copy as _c
    return (list(phi.variables), [int(c) for c in phi.cardinality], npvals(phi).copy().tolist(),
            list(npvals(phi).shape), _c.deepcopy(phi.state_names), _c.deepcopy(phi.name_to_no),
            _c.deepcopy(phi.no_to_name))


def impl_form(U, phi):
    """literal interned form [vars, card, states, shape, flat]"""
    st = U["vstyle"]
    vs = [vid(st, v) for v in phi.variables]
    states = [[vid(st, k), [zname(s) for s in l]] for k, l in phi.state_names.items()]
    a = npvals(phi)
    return [vs, [int(c) for c in phi.cardinality], states, list(a.shape), [float(x) for x in a.ravel().tolist()]]


def impl_canon(U, phi):
    st = U["vstyle"]
    a = npvals(phi)
    vs = [vid(st, v) for v in phi.variables]
    t = {}
    for idx in itertools.product(*[range(d) for d in a.shape]):
        key = frozenset((v, zname(phi.state_names[nm][i])) for v, nm, i in zip(vs, phi.variables, idx))
        t[key] = float(a[idx]) if a.shape else float(a)
    return t


def mval(x):
    """model data entry -> Fraction | 'inf' | '-inf' | 'nan'"""
    if len(x) == 2 and isinstance(x[1], list):
        return Fr(x[1][0], x[1][1])
    if len(x) == 1:
        return {1: "inf", 2: "-inf", 3: "nan"}[x[0]]
    return Fr(x[0], x[1])


def same_val(a, b):
    """a: implementation float; b: Fraction or tag"""
    if isinstance(b, str):
        if b == "nan":
            return a != a
        return a == float(b)
    return common.approx(a, b)


def cmp_literal(U, phi, m):
    got = impl_form(U, phi)
    if got[0] != m[0] or got[1] != m[1] or got[3] != m[3]:
        return {"what": "layout", "impl": got[:2] + [got[3]], "model": m[:2] + [m[3]]}
    if got[2] != m[2]:
        return {"what": "state_names", "impl": got[2], "model": m[2]}
    md = [mval(x) for x in m[4]]
    if len(md) != len(got[4]) or not all(same_val(a, b) for a, b in zip(got[4], md)):
        return {"what": "values", "impl": got[4], "model": [str(x) for x in md]}
    return None


def cmp_spec(U, phi, spec):
    got = impl_canon(U, phi)
    if set(got) != set(spec):
        return {"what": "named assignments differ", "impl": sorted(map(sorted, got))[:4],
                "spec": sorted(map(sorted, spec))[:4]}
    for k, x in spec.items():
        if not same_val(got[k], x):
            return {"what": "value", "at": sorted(k), "impl": got[k], "spec": str(x)}
    return None


class Ctx:
    def __init__(self, case, drv):
        self.case, self.drv, self.U = case, drv, case["U"]
        self.tags = []
        self.nops = 0

    def op(self, name, operands, call, model_entry, model_args, spec, inplace_call=None, order_from=None,
           mutate=True):
        """operands: list of (factor spec); call(objs) -> result (out-of-place); model_args(result) -> wire args;
        spec: dict | None.  Returns a bad(...) or None."""
        U = self.U
        objs = [build(U, F) for F in operands]
        snaps = [snapshot(o) for o in objs]
        err = None
        try:
            r = call(objs)
        except (ValueError, KeyError, IndexError, TypeError) as e:
            err = type(e).__name__
        self.nops += 1
        self.tags.append("op=" + name)
        if err:
            st, code = self.drv.call_e(model_entry, model_args(None))
            self.tags.append("error=" + err)
            if st != "err" or code != ERR[err]:
                return bad("impl!=model:%s:error" % name, {"impl": err, "model": [st, code], "ops": operands})
            if [snapshot(o) for o in objs] != snaps:
                return bad("operand-mutated:%s:on-error" % name, {"ops": operands})
            return None
        st, m = self.drv.call_e(model_entry, model_args(r))
        if st != "ok":
            return bad("impl!=model:%s:model-error" % name, {"model_err": m, "impl": impl_form(U, r), "ops": operands})
        d = cmp_literal(U, r, m)
        if d:
            return bad("impl!=model:%s:%s" % (name, d["what"]), {"diff": d, "ops": operands})
        if spec is not None:
            d = cmp_spec(U, r, spec)
            if d:
                return bad("impl!=spec:%s" % name, {"diff": d, "ops": operands})
        if [snapshot(o) for o in objs] != snaps:
            return bad("operand-mutated:%s" % name, {"ops": operands})
        # sharing + mutation of the result must not reach the operands
        if mutate and r is not None:
            for o in objs:
                if r.variables is o.variables or r.values is o.values or r.cardinality is o.cardinality \
                        or r.state_names is o.state_names or r.name_to_no is o.name_to_no:
                    return bad("result-aliases-operand:%s" % name, {"ops": operands})
            try:
                r.values += 1
                if len(r.variables) > 0:
                    r.values[tuple([0] * len(r.variables))] = 123.0
                    r.cardinality[0] = 77
                    r.state_names[r.variables[0]] = ["zz"]
                    r.name_to_no[r.variables[0]] = {"zz": 0}
                    r.no_to_name[r.variables[0]] = {0: "zz"}
                r.variables.append("__extra__")
            except Exception as e:  # mutation itself must be possible
                return bad("harness-mutation-failed:%s" % name, {"exc": repr(e)})
            if [snapshot(o) for o in objs] != snaps:
                return bad("operand-mutated-via-result:%s" % name, {"ops": operands})
        # in-place variant computes the same thing on the first operand
        if inplace_call is not None:
            objs2 = [build(U, F) for F in operands]
            snap_rest = [snapshot(o) for o in objs2[1:]]
            inplace_call(objs2)
            self.tags.append("inplace")
            # set order may differ between two runs only through the same hash seed: same process => same order
            st2, m2 = self.drv.call_e(model_entry, model_args(objs2[0]))
            d = cmp_literal(U, objs2[0], m2) if st2 == "ok" else {"what": "model-error"}
            if d:
                return bad("impl!=model:%s:inplace:%s" % (name, d["what"]), {"diff": d, "ops": operands})
            if [snapshot(o) for o in objs2[1:]] != snap_rest:
                return bad("operand-mutated:%s:inplace-second-operand" % name, {"ops": operands})
        return None


# ------------------------------------------------------------------ the op battery for a pair
def vids(U, phi):
    return [vid(U["vstyle"], v) for v in phi.variables]


def run_pair_ops(ctx, F, G, rng, light=False):
    U = ctx.U
    fw, gw = wire(U, F), wire(U, G)
    tf, tg = spec_table(U, F), spec_table(U, G)
    fv, gv = F["vars"], G["vars"]
    union = fv + [v for v in gv if v not in fv]
    N = lambda v: vname(U["vstyle"], v)
    S = lambda z: pyname(z)

    # product
    spec = {k: tf[restrict(k, fv)] * tg[restrict(k, gv)] for k in all_named(U, union)}
    b = ctx.op("product", [F, G], lambda o: o[0].product(o[1], inplace=False), "c04_product",
               lambda r: [fw, gw, vids(U, r) if r is not None else union], spec,
               inplace_call=lambda o: o[0].product(o[1], inplace=True))
    if b:
        return b
    b = ctx.op("mul-operator", [G, F], lambda o: o[0] * o[1], "c04_product",
               lambda r: [gw, fw, vids(U, r) if r is not None else union], spec)
    if b:
        return b
    # sum
    spec = {k: tf[restrict(k, fv)] + tg[restrict(k, gv)] for k in all_named(U, union)}
    ex2 = sorted(v for v in union if v not in gv)
    for e2 in ([ex2] if light or len(ex2) < 2 else [ex2, ex2[::-1]]):
        b = ctx.op("sum", [F, G], lambda o: o[0].sum(o[1], inplace=False), "c04_sum",
                   lambda r: [fw, gw, vids(U, r)[len(fv):] if r is not None else [v for v in gv if v not in fv], e2],
                   spec, inplace_call=lambda o: o[0].sum(o[1], inplace=True))
        if b:
            return b
    b = ctx.op("add-operator", [G, F], lambda o: o[0] + o[1], "c04_sum",
               lambda r: [gw, fw, vids(U, r)[len(gv):] if r is not None else [v for v in fv if v not in gv],
                          sorted(v for v in union if v not in fv)], spec)
    if b:
        return b
    # divide (error when scope of divisor is not a subset)
    if set(gv) <= set(fv):
        spec = {k: xdiv(tf[k], tg[restrict(k, gv)]) for k in all_named(U, fv)}
        kinds = set(str(x) for x in spec.values() if isinstance(x, str))
        if any(tf[k] == 0 and tg[restrict(k, gv)] == 0 for k in spec):
            ctx.tags.append("0/0")
        for kk in kinds:
            ctx.tags.append("x/0=" + kk)
    else:
        spec = None
    ex = sorted(v for v in fv if v not in gv)
    for e in ([ex] if light or len(ex) < 2 else [ex, ex[::-1]]):
        b = ctx.op("divide", [F, G], lambda o: o[0].divide(o[1], inplace=False), "c04_divide",
                   lambda r: [fw, gw, e], spec, inplace_call=lambda o: o[0].divide(o[1], inplace=True))
        if b:
            return b
    if set(gv) <= set(fv):
        from pgmpy.factors import factor_divide
        b = ctx.op("factor_divide", [F, G], lambda o: factor_divide(o[0], o[1]), "c04_divide", lambda r: [fw, gw, ex], spec)
        if b:
            return b
        b = ctx.op("div-operator", [F, G], lambda o: o[0] / o[1], "c04_divide", lambda r: [fw, gw, ex], spec)
        if b:
            return b
    if light:
        return None
    # marginalize / maximize
    subsets = [[], list(fv)]
    for _ in range(2):
        subsets.append(rng.sample(fv, rng.randint(0, len(fv))))
    for X in subsets:
        keep = [v for v in fv if v not in X]
        spec = {}
        for k in all_named(U, fv):
            kk = restrict(k, keep)
            spec[kk] = spec.get(kk, 0) + tf[k]
        Xn = [N(v) for v in X]
        b = ctx.op("marginalize", [F], lambda o: o[0].marginalize(list(Xn), inplace=False), "c04_marginalize",
                   lambda r: [fw, X], spec, inplace_call=lambda o: o[0].marginalize(list(Xn), inplace=True))
        if b:
            return b
        if not ctx.case.get("neg"):
            spec = {}
            for k in all_named(U, fv):
                kk = restrict(k, keep)
                spec[kk] = max(spec.get(kk, tf[k]), tf[k])
            b = ctx.op("maximize", [F], lambda o: o[0].maximize(list(Xn), inplace=False), "c04_maximize",
                       lambda r: [fw, X], spec, inplace_call=lambda o: o[0].maximize(list(Xn), inplace=True))
            if b:
                return b
        if len(X) == len(fv):
            ctx.tags.append("empty-result-scope")
    # reduce by names
    for _ in range(2):
        X = rng.sample(fv, rng.randint(0, len(fv)))
        ev = [(v, rng.choice(U["states"][v])) for v in X]
        evs = set(ev)
        keep = [v for v in fv if v not in X]
        spec = {restrict(k, keep): tf[k] for k in all_named(U, fv) if evs <= k}
        evn = [(N(v), S(z)) for v, z in ev]
        b = ctx.op("reduce", [F], lambda o: o[0].reduce(list(evn), inplace=False), "c04_reduce",
                   lambda r: [fw, [list(p) for p in ev]], spec,
                   inplace_call=lambda o: o[0].reduce(list(evn), inplace=True))
        if b:
            return b
    # reduce by numbers (fall back when a given "name" is unknown; negative numbers wrap; may be IndexError)
    if fv:
        X = rng.sample(fv, rng.randint(1, len(fv)))
        ev = [(v, rng.randint(-U["card"][v] - 1, U["card"][v])) for v in X]
        evn = [(N(v), z) for v, z in ev]
        ctx.tags.append("reduce-numbers")
        b = ctx.op("reduce-num", [F], lambda o: o[0].reduce(list(evn), inplace=False, show_warnings=False),
                   "c04_reduce", lambda r: [fw, [list(p) for p in ev]], None)
        if b:
            return b
    # normalize
    tot = sum(tf.values())
    if tot != 0:
        spec = {k: x / tot for k, x in tf.items()}
        b = ctx.op("normalize", [F], lambda o: o[0].normalize(inplace=False), "c04_normalize", lambda r: fw, spec,
                   inplace_call=lambda o: o[0].normalize(inplace=True))
        if b:
            return b
    # scalars
    c = rng.choice([0, 1, 2, -3, 0.5, 2.25])
    spec = {k: x * Fr(c) for k, x in tf.items()}
    b = ctx.op("product-scalar", [F], lambda o: o[0] * c, "c04_product_scalar", lambda r: [fw, Fr(c)], spec,
               inplace_call=lambda o: o[0].product(c, inplace=True))
    if b:
        return b
    b = ctx.op("rmul-scalar", [F], lambda o: c * o[0], "c04_product_scalar", lambda r: [fw, Fr(c)], spec)
    if b:
        return b
    spec = {k: x + Fr(c) for k, x in tf.items()}
    b = ctx.op("sum-scalar", [F], lambda o: o[0] + c, "c04_sum_scalar", lambda r: [fw, Fr(c)], spec,
               inplace_call=lambda o: o[0].sum(c, inplace=True))
    if b:
        return b
    ctx.tags.append("scalar")
    # identity / copy
    b = ctx.op("identity_factor", [F], lambda o: o[0].identity_factor(), "c04_identity", lambda r: fw,
               {k: Fr(1) for k in tf})
    if b:
        return b
    b = ctx.op("copy", [F], lambda o: o[0].copy(), "c04_mk", lambda r: fw, tf)
    if b:
        return b
    return run_point_ops(ctx, F, rng)


def run_point_ops(ctx, F, rng):
    """get_value / set_value / assignment / get_cardinality / scope / copy sharing graph"""
    U = ctx.U
    fw = wire(U, F)
    fv = F["vars"]
    N = lambda v: vname(U["vstyle"], v)
    phi = build(U, F)
    cards = [U["card"][v] for v in fv]
    size = 1
    for c in cards:
        size *= c
    if U["vstyle"] == "str":
        for _ in range(3):
            idx = [rng.randrange(c) for c in cards]
            byname = rng.random() < 0.6
            if byname:
                zs = [U["states"][v][i] for v, i in zip(fv, idx)]
            else:
                zs = [rng.randint(-c, c - 1) if rng.random() < 0.8 else c for c in cards]
            kw = {N(v): pyname(z) for v, z in zip(fv, zs)}
            ctx.nops += 1
            ctx.tags.append("op=get_value")
            try:
                got = ("ok", float(phi.get_value(**kw)))
            except (ValueError, KeyError, IndexError) as e:
                got = ("err", ERR[type(e).__name__])
            st, m = ctx.drv.call_e("c04_get_value", [fw, [[v, z] for v, z in zip(fv, zs)]])
            good = (st == got[0]) and (m == got[1] if st == "err" else common.approx(got[1], Fr(m[0], m[1])))
            if not good:
                return bad("impl!=model:get_value", {"f": F, "kw": zs, "impl": got, "model": [st, m]})
            # set_value: str names by name, ints as numbers
            if all(z < TUP0 for z in zs):
                phi2 = build(U, F)
                ctx.nops += 1
                ctx.tags.append("op=set_value")
                try:
                    phi2.set_value(3.5, **kw)
                    e_ = None
                except (ValueError, KeyError, IndexError) as e:
                    e_ = ERR[type(e).__name__]
                st, m = ctx.drv.call_e("c04_set_value", [fw, Fr(7, 2), [[v, z] for v, z in zip(fv, zs)]])
                if e_ is not None:
                    if st != "err" or m != e_:
                        return bad("impl!=model:set_value:error", {"f": F, "kw": zs, "impl": e_, "model": [st, m]})
                else:
                    d = cmp_literal(U, phi2, m) if st == "ok" else {"what": "model-error %s" % m}
                    if d:
                        return bad("impl!=model:set_value", {"f": F, "kw": zs, "diff": d})
    # assignment
    idxs = [rng.randrange(size) for _ in range(3)] + ([size] if rng.random() < 0.2 else [])
    ctx.nops += 1
    ctx.tags.append("op=assignment")
    try:
        a = phi.assignment(list(idxs))
        got = ("ok", [[[vid(U["vstyle"], v), zname(s)] for v, s in row] for row in a])
    except IndexError:
        got = ("err", 3)
    st, m = ctx.drv.call_e("c04_assignment", [fw, idxs])
    if (st, m) != got:
        return bad("impl!=model:assignment", {"f": F, "idx": idxs, "impl": got, "model": [st, m]})
    # get_cardinality / scope
    q = rng.sample(fv, rng.randint(0, len(fv))) + ([9] if rng.random() < 0.2 else [])
    try:
        got = ("ok", sorted([vid(U["vstyle"], k), int(c)] for k, c in phi.get_cardinality([N(v) for v in q]).items()))
    except ValueError:
        got = ("err", 1)
    st, m = ctx.drv.call_e("c04_get_cardinality", [fw, q])
    if (st, sorted(m) if st == "ok" else m) != got:
        return bad("impl!=model:get_cardinality", {"f": F, "q": q, "impl": got, "model": [st, m]})
    if [vid(U["vstyle"], v) for v in phi.scope()] != fv:
        return bad("impl!=model:scope", {"f": F})
    # sharing graph of copy()
    c = phi.copy()
    g = ctx.drv.call("c04_copy_graph", len(fv))
    obs = [int(c.variables is not phi.variables), int(c.cardinality is not phi.cardinality),
           int(c.values is not phi.values and not _shares_memory(c.values, phi.values)),
           int(c.state_names is not phi.state_names),
           int(all(c.state_names[k] is phi.state_names[k] for k in phi.state_names))]
    if obs != g:
        return bad("impl!=model:copy-sharing-graph", {"impl": obs, "model": g})
    return None


def _shares_memory(a, b):
    import numpy as np
    if hasattr(a, "data_ptr"):
        return a.data_ptr() == b.data_ptr() and a.numel() > 0
    return bool(np.shares_memory(a, b))


def permute_factor(U, F, perm):
    """same factor with variables listed in another order and the table transposed accordingly"""
    vs = [F["vars"][p] for p in perm]
    cards = [U["card"][v] for v in F["vars"]]
    ncards = [U["card"][v] for v in vs]
    vals = []
    for idx in itertools.product(*[range(c) for c in ncards]):
        old = [0] * len(perm)
        for k, p in enumerate(perm):
            old[p] = idx[k]
        vals.append(F["vals"][ravel(cards, old)])
    return {"vars": vs, "vals": vals, "den": F["den"]}


# ------------------------------------------------------------------ case runners
def nontrivial(case):
    U = case["U"]
    for who in ("f", "g"):
        if who in case:
            cs = [U["card"][v] for v in case[who]["vars"]]
            if len(cs) >= 2 and len(set(cs)) >= 2:
                return True
            if U["sstyle"] != "default" and cs:
                return True
    return False


def run_pair(case, drv):
    ctx = Ctx(case, drv)
    rng = random.Random(case["qseed"])
    U, F, G = case["U"], case["f"], case["g"]
    b = run_pair_ops(ctx, F, G, rng)
    if b:
        return b
    # n-ary folds
    H = gen_factor(rng, U, rng.sample(range(6), rng.randint(0, 3)))
    b = run_folds(ctx, [F, G, H], rng)
    if b:
        return b
    shared_f = [v for v in F["vars"] if v in G["vars"]]
    shared_g = [v for v in G["vars"] if v in F["vars"]]
    if (len(shared_f) >= 3 and shared_f != shared_g and len({U["card"][v] for v in shared_f}) >= 2):
        ctx.tags.append("swap-loop: >=3 shared vars, non-trivial permutation, unequal cardinalities")
    if any(U["card"][v] == 1 for v in F["vars"] + G["vars"]):
        ctx.tags.append("card1")
    if not F["vars"] or not G["vars"]:
        ctx.tags.append("zero-variable-operand")
    ctx.tags += ["rel=" + case["rel"], "backend=" + case["backend"], "states=" + U["sstyle"], "vars=" + U["vstyle"],
                 "nvars=%d+%d" % (len(F["vars"]), len(G["vars"]))]
    return ok(nontrivial=nontrivial(case), key=common.canon_key([case["kind"], U, F, G, case["backend"]]),
              tags=ctx.tags, note="%d ops" % ctx.nops)


def run_folds(ctx, Fs, rng):
    from pgmpy.factors import factor_product
    from pgmpy.factors.base import factor_sum_product
    U = ctx.U
    ws = [wire(U, F) for F in Fs]
    ts = [spec_table(U, F) for F in Fs]
    for n in (1, 2, 3):
        union = []
        for F in Fs[:n]:
            union += [v for v in F["vars"] if v not in union]
        spec = {}
        for k in all_named(U, union):
            x = Fr(1)
            for F, t in zip(Fs[:n], ts):
                x *= t[restrict(k, F["vars"])]
            spec[k] = x
        # intermediate orders: replay the fold to observe them (same process => same set order)
        objs = [build(U, F) for F in Fs[:n]]
        orders = []
        acc = objs[0]
        for o in objs[1:]:
            acc = acc * o
            orders.append(vids(U, acc))
        b = ctx.op("factor_product/%d" % n, Fs[:n], lambda o: factor_product(*o), "c04_factor_product",
                   lambda r: [ws[:n], orders], spec)
        if b:
            return b
    union = []
    for F in Fs:
        union += [v for v in F["vars"] if v not in union]
    if union and ctx.case["backend"] == "numpy":
        out = rng.sample(union, rng.randint(0, len(union)))
        spec = {}
        for k in all_named(U, union):
            x = Fr(1)
            for F, t in zip(Fs, ts):
                x *= t[restrict(k, F["vars"])]
            kk = restrict(k, out)
            spec[kk] = spec.get(kk, 0) + x
        N = lambda v: vname(U["vstyle"], v)
        b = ctx.op("factor_sum_product", Fs, lambda o: factor_sum_product([N(v) for v in out], o),
                   "c04_factor_sum_product", lambda r: [out, ws], spec, mutate=False)
        if b:
            return b
    return None


def run_perm(case, drv):
    """every axis order of both operands: canonical results must not change (each also checked against the model)"""
    ctx = Ctx(case, drv)
    rng = random.Random(case["qseed"])
    U, F, G = case["U"], case["f"], case["g"]
    pf = list(itertools.permutations(range(len(F["vars"]))))
    pg = list(itertools.permutations(range(len(G["vars"]))))
    combos = [(a, b) for a in pf for b in pg]
    if len(combos) > 48:
        combos = rng.sample(combos, 48)
    for a, b_ in combos:
        b = run_pair_ops(ctx, permute_factor(U, F, a), permute_factor(U, G, b_), rng, light=True)
        if b:
            return b
        # marginalize / maximize / reduce one variable under this axis order
        Fp = permute_factor(U, F, a)
        if Fp["vars"]:
            v = rng.choice(Fp["vars"])
            tf = spec_table(U, F)
            keep = [w for w in Fp["vars"] if w != v]
            fw = wire(U, Fp)
            nm = vname(U["vstyle"], v)
            spec, specm = {}, {}
            for k in all_named(U, F["vars"]):
                kk = restrict(k, keep)
                spec[kk] = spec.get(kk, 0) + tf[k]
                specm[kk] = max(specm.get(kk, tf[k]), tf[k])
            b = ctx.op("marginalize", [Fp], lambda o: o[0].marginalize([nm], inplace=False), "c04_marginalize",
                       lambda r: [fw, [v]], spec)
            if b:
                return b
            b = ctx.op("maximize", [Fp], lambda o: o[0].maximize([nm], inplace=False), "c04_maximize",
                       lambda r: [fw, [v]], specm)
            if b:
                return b
            z = rng.choice(U["states"][v])
            spec = {restrict(k, keep): tf[k] for k in all_named(U, F["vars"]) if (v, z) in k}
            b = ctx.op("reduce", [Fp], lambda o: o[0].reduce([(nm, pyname(z))], inplace=False), "c04_reduce",
                       lambda r: [fw, [[v, z]]], spec)
            if b:
                return b
    ctx.tags += ["all-axis-permutations", "rel=" + case["rel"], "backend=" + case["backend"],
                 "perm-combos=%d" % len(combos)]
    return ok(nontrivial=nontrivial(case), key=common.canon_key([case["kind"], U, F, G, case["backend"]]),
              tags=ctx.tags, note="%d ops" % ctx.nops)


def run_eq(case, drv):
    ctx = Ctx(case, drv)
    rng = random.Random(case["qseed"])
    U, F = case["U"], case["f"]
    n = len(F["vars"])
    variants = []
    # axis permuted
    perm = list(range(n))
    rng.shuffle(perm)
    variants.append(("axis-perm", U, permute_factor(U, F, perm), True))
    # state order permuted (same named table)
    U2 = dict(U)
    U2["states"] = [list(s) for s in U["states"]]
    U2["sstyle"] = U["sstyle"] if U["sstyle"] != "default" else "intperm"
    U1 = dict(U)
    U1["sstyle"] = U2["sstyle"]
    t = spec_table(U, F)
    for v in F["vars"]:
        rng.shuffle(U2["states"][v])
    cards = [U["card"][v] for v in F["vars"]]
    vals2 = []
    for idx in itertools.product(*[range(c) for c in cards]):
        key = frozenset((v, U2["states"][v][i]) for v, i in zip(F["vars"], idx))
        vals2.append(t[key] * F["den"])
    F2 = {"vars": F["vars"], "vals": [int(x) for x in vals2], "den": F["den"]}
    variants.append(("state-perm", U2, F2, True))
    variants.append(("state+axis-perm", U2, permute_factor(U2, F2, perm), True))
    # near tolerance: perturb one entry by 0.5*tol / 2*tol (tol = atol + rtol*|b|)
    if F["vals"]:
        i = rng.randrange(len(F["vals"]))
        for fac, expect in ((Fr(1, 2), True), (Fr(2), False), (Fr(-1, 2), True), (Fr(-2), False)):
            x = Fr(F["vals"][i], F["den"])
            tol = ATOL + RTOL * abs(x)
            # exact dyadic perturbation so that float is exact: round delta to 2^-40
            delta = Fr(int(fac * tol * 2**40), 2**40)
            Fp = {"vars": F["vars"], "vals": list(F["vals"]), "den": F["den"], "pert": [i, [delta.numerator, delta.denominator]]}
            variants.append(("tol%s" % fac, U, Fp, None))
    # different state set / different variable set / different value
    if F["vars"] and U["sstyle"] != "default":
        U3 = dict(U)
        U3["states"] = [list(s) for s in U["states"]]
        v = F["vars"][0]
        U3["states"][v][0] = 777
        variants.append(("other-state-set", U3, F, False))
    other_vars = [v for v in range(6) if v not in F["vars"]]
    if F["vars"] and other_vars:
        Fv = {"vars": [other_vars[0]] + F["vars"][1:], "vals": F["vals"], "den": F["den"]}
        if U["card"][other_vars[0]] == U["card"][F["vars"][0]]:
            variants.append(("other-var-set", U, Fv, False))
    if F["vals"]:
        Fd = {"vars": F["vars"], "vals": [F["vals"][0] + 1] + F["vals"][1:], "den": F["den"]}
        variants.append(("other-value", U, Fd, False))
    base_U = U1 if U["sstyle"] == "default" else U
    a = build_p(base_U, F)
    aw = wire_p(base_U, F)
    hv = [[v, hash(vname(U["vstyle"], v))] for v in range(6)]
    for tag, Ux, Fx, expect in variants:
        Ux = dict(Ux)
        if Ux["sstyle"] == "default" and base_U["sstyle"] != "default":
            Ux["sstyle"] = base_U["sstyle"]
        b = build_p(Ux, Fx)
        bw = wire_p(Ux, Fx)
        for (x, xw, y, yw, d) in ((a, aw, b, bw, "ab"), (b, bw, a, aw, "ba")):
            ctx.nops += 1
            sx, sy = snapshot(x), snapshot(y)
            got = bool(x == y)
            m = bool(drv.call("c04_eq", [ATOL, RTOL, xw, yw]))
            if got != m:
                return bad("impl!=model:eq", {"variant": tag, "dir": d, "impl": got, "model": m, "a": xw, "b": yw})
            if expect is not None and got != expect:
                return bad("impl!=spec:eq", {"variant": tag, "dir": d, "impl": got, "expected": expect, "a": xw, "b": yw})
            if tag.startswith("tol"):
                # exact spec: every entry within atol + rtol*|self|
                exp = all(abs(Fr(q) - Fr(p)) <= ATOL + RTOL * abs(Fr(p)) for p, q in zip(xw[2], yw[2]))
                if got != exp:
                    return bad("impl!=spec:eq-tolerance", {"variant": tag, "dir": d, "impl": got, "expected": exp})
            if got != (not (x != y)):
                return bad("impl!=spec:ne", {"variant": tag})
            if (snapshot(x), snapshot(y)) != (sx, sy):
                return bad("operand-mutated:eq", {"variant": tag})
        ctx.tags.append("eq-variant=" + tag)
        # hash: equal hashes <=> equal model keys (same variable-hash table)
        ha, hb = hash(a), hash(b)
        ka, kb = drv.call("c04_hash", [hv, aw]), drv.call("c04_hash", [hv, bw])
        if (ha == hb) != (ka == kb):
            return bad("impl!=model:hash", {"variant": tag, "impl": ha == hb, "model": ka == kb, "a": aw, "b": bw})
        if (a == b) and (ha != hb):
            ctx.tags.append("eq-but-hash-differs(" + tag.split("-")[0] + ")")
    ctx.tags += ["backend=" + case["backend"], "states=" + U["sstyle"]]
    return ok(nontrivial=n >= 1, key=common.canon_key(["eq", U, F, case["backend"]]), tags=ctx.tags,
              note="%d ops" % ctx.nops)


def wire_p(U, F):
    w = wire(U, F)
    if "pert" in F:
        i, (nu, de) = F["pert"]
        w[2][i] = w[2][i] + Fr(nu, de)
    return w


def build_p(U, F):
    phi = build(U, F)
    if "pert" in F:
        i, (nu, de) = F["pert"]
        flat = [x / F["den"] for x in F["vals"]]
        flat[i] = float(Fr(F["vals"][i], F["den"]) + Fr(nu, de))
        # exactness of the float is needed: check
        if Fr(flat[i]) != Fr(F["vals"][i], F["den"]) + Fr(nu, de):
            raise RuntimeError("perturbed value is not an exact float")
        from pgmpy.factors.discrete import DiscreteFactor
        vs = list(phi.variables)
        phi = DiscreteFactor(vs, [int(c) for c in phi.cardinality], flat,
                             state_names={k: list(v) for k, v in phi.state_names.items()})
    return phi


def run_err(case, drv):
    ctx = Ctx(case, drv)
    rng = random.Random(case["qseed"])
    U, F = case["U"], case["f"]
    fw = wire(U, F)
    fv = F["vars"]
    N = lambda v: vname(U["vstyle"], v)
    absent = [v for v in range(6) if v not in fv][0]
    v0 = fv[0]
    tests = [
        ("marginalize-absent", lambda o: o[0].marginalize([N(absent)], inplace=False), "c04_marginalize", [fw, [absent]]),
        ("maximize-absent", lambda o: o[0].maximize([N(v0), N(absent)], inplace=False), "c04_maximize", [fw, [v0, absent]]),
        ("marginalize-duplicate", lambda o: o[0].marginalize([N(v0), N(v0)], inplace=False), "c04_marginalize", [fw, [v0, v0]]),
        ("maximize-duplicate", lambda o: o[0].maximize([N(v0), N(v0)], inplace=False), "c04_maximize", [fw, [v0, v0]]),
        ("reduce-absent", lambda o: o[0].reduce([(N(absent), 0)], inplace=False), "c04_reduce", [fw, [[absent, 0]]]),
        ("reduce-duplicate", lambda o: o[0].reduce([(N(v0), pyname(U["states"][v0][0])), (N(v0), pyname(U["states"][v0][-1]))], inplace=False),
         "c04_reduce", [fw, [[v0, U["states"][v0][0]], [v0, U["states"][v0][-1]]]]),
        ("reduce-out-of-range", lambda o: o[0].reduce([(N(v0), 50)], inplace=False, show_warnings=False), "c04_reduce", [fw, [[v0, 50]]]),
        ("reduce-unknown-str", lambda o: o[0].reduce([(N(v0), "s7777")], inplace=False, show_warnings=False), "c04_reduce", [fw, [[v0, STR0 + 7777]]]),
    ]
    for name, call, entry, args in tests:
        b = ctx.op(name, [F], call, entry, lambda r, a=args: a, None)
        if b:
            return b
    # divide by a factor whose scope is not a subset
    G = gen_factor(rng, U, [absent])
    b = ctx.op("divide-not-subset", [F, G], lambda o: o[0].divide(o[1], inplace=False), "c04_divide",
               lambda r: [fw, wire(U, G), []], None)
    if b:
        return b
    # __init__ rejections
    from pgmpy.factors.discrete import DiscreteFactor
    cards = [U["card"][v] for v in fv]
    vals = [Fr(x, F["den"]) for x in F["vals"]]
    inits = [
        ("init-size", [fv, cards, vals + [Fr(1)], []]),
        ("init-cardlen", [fv, cards + [2], vals, []]),
        ("init-dupvar", [fv + [fv[0]], cards + [cards[0]], vals * cards[0], []]),
        ("init-dupstate", [fv, cards, vals, [[v, [5] * U["card"][v]] for v in fv]]),
    ]
    for name, w in inits:
        if name == "init-dupstate" and all(c == 1 for c in cards):
            continue
        ctx.nops += 1
        try:
            sn = {N(v): [pyname(z) for z in l] for v, l in w[3]}
            DiscreteFactor([N(v) for v in w[0]], w[1], [float(x) for x in w[2]], **({"state_names": sn} if sn else {}))
            got = ("ok", None)
        except ValueError:
            got = ("err", 1)
        st, m = drv.call_e("c04_mk", w)
        if st != got[0] or (st == "err" and m != got[1]):
            return bad("impl!=model:" + name, {"impl": got, "model": [st, m], "args": w})
        ctx.tags.append("error=" + name)
    return ok(nontrivial=True, key=common.canon_key(["err", U, F]), tags=ctx.tags + ["error-paths"], note="%d ops" % ctx.nops)


# ------------------------------------------------------------------ FactorSet / FactorDict
def fs_snapshot(fs):
    return sorted(repr(snapshot(phi)) for phi in fs.factors)


def fs_match(U, fs_factors, specs):
    """multiset comparison of the factors of a FactorSet with brute-force named tables"""
    got = [impl_canon(U, phi) for phi in fs_factors]
    if len(got) != len(specs):
        return {"what": "number of factors", "impl": len(got), "spec": len(specs)}
    used = set()
    for sp in specs:
        hit = None
        for j, g in enumerate(got):
            if j in used or set(g) != set(sp):
                continue
            if all(same_val(g[k], x) for k, x in sp.items()):
                hit = j
                break
        if hit is None:
            return {"what": "no factor with this table", "spec": sorted((sorted(k), str(x)) for k, x in sp.items())[:6]}
        used.add(hit)
    return None


def fs_shares(r, operands):
    """a DiscreteFactor object (or one of its mutable fields) of r that is also reachable from an operand"""
    for o in operands:
        for x in r.factors:
            for y in o.factors:
                if x is y or x.values is y.values or x.variables is y.variables or x.cardinality is y.cardinality \
                        or x.state_names is y.state_names:
                    return True
    return False


def fs_mutate(r, var_names):
    """mutate a FactorSet through everything the public API offers"""
    try:
        r.marginalize(var_names[:1], inplace=True)
    except Exception:
        pass
    for phi in list(r.get_factors()):
        phi.values += 1
        if len(phi.variables) > 0:
            phi.values[tuple([0] * len(phi.variables))] = 321.0
            phi.cardinality[0] = 55
            phi.state_names[phi.variables[0]] = ["zz"]
        phi.variables.append("__extra__")


def run_fset(case, drv):
    from pgmpy.factors import FactorSet, factorset_product, factorset_divide
    U = case["U"]
    rng = random.Random(case["qseed"])
    A, B, C = case["sets"]
    tags = ["fset", "backend=" + case["backend"]]
    nops = [0]
    N = lambda v: vname(U["vstyle"], v)
    allvars = sorted({v for fs in case["sets"] for F in fs for v in F["vars"]})

    def mkset(specs):
        return FactorSet(*[build(U, F) for F in specs])

    def spec_inv(F):
        return {k: xdiv(Fr(1), x) for k, x in spec_table(U, F).items()}

    def spec_marg(F, X):
        t = spec_table(U, F)
        keep = [v for v in F["vars"] if v not in X]
        out = {}
        for k, x in t.items():
            kk = restrict(k, keep)
            out[kk] = out.get(kk, 0) + x
        return out

    def check(name, operands_specs, call, spec_tables, inplace_target=None, dedupe=True):
        """operands_specs: list of spec lists; call(objs) -> result FactorSet (or None when in place on objs[0])"""
        objs = [mkset(sp) for sp in operands_specs]
        snaps = [fs_snapshot(o) for o in objs]
        r = call(objs)
        nops[0] += 1
        tags.append("op=FactorSet." + name)
        if inplace_target is not None:
            r = objs[0]
            rest, rest_snaps = objs[1:], snaps[1:]
        else:
            rest, rest_snaps = objs, snaps
            if r is None:
                return bad("impl!=spec:FactorSet.%s:returned-None" % name, {})
        # a FactorSet is a Python set: members that are equal (same scope, same table) collapse into one (D2 family,
        # recorded elsewhere); the brute force therefore de-duplicates exactly equal tables
        uniq = []
        for t in spec_tables:
            if not dedupe or t not in uniq:
                uniq.append(t)
        if len(uniq) != len(spec_tables):
            tags.append("equal-member-factors-collapse")
        d = fs_match(U, r.factors, uniq)
        if d:
            return bad("impl!=spec:FactorSet.%s" % name, {"diff": d, "sets": operands_specs})
        if [fs_snapshot(o) for o in rest] != rest_snaps:
            return bad("operand-mutated:FactorSet.%s" % name, {"sets": operands_specs})
        if fs_shares(r, rest):
            return bad("result-aliases-operand:FactorSet.%s" % name, {"sets": operands_specs})
        fs_mutate(r, [N(v) for v in allvars])
        if [fs_snapshot(o) for o in rest] != rest_snaps:
            return bad("operand-mutated-via-result:FactorSet.%s" % name, {"sets": operands_specs})
        return None

    tA = [spec_table(U, F) for F in A]
    tB = [spec_table(U, F) for F in B]
    tC = [spec_table(U, F) for F in C]
    iB = [spec_inv(F) for F in B]
    b = check("product", [A, B], lambda o: o[0].product(o[1], inplace=False), tA + tB)
    if b:
        return b
    b = check("product-inplace", [A, B], lambda o: o[0].product(o[1], inplace=True), tA + tB, inplace_target=0)
    if b:
        return b
    b = check("factorset_product", [A, B, C], lambda o: factorset_product(*o), tA + tB + tC)
    if b:
        return b
    b = check("divide", [A, B], lambda o: o[0].divide(o[1], inplace=False), tA + iB)
    if b:
        return b
    b = check("divide-inplace", [A, B], lambda o: o[0].divide(o[1], inplace=True), tA + iB, inplace_target=0)
    if b:
        return b
    b = check("factorset_divide", [A, B], lambda o: factorset_divide(o[0], o[1]), tA + iB)
    if b:
        return b
    for _ in range(2):
        X = rng.sample(allvars, rng.randint(1, min(3, len(allvars))))
        Xn = [N(v) for v in X]
        tm = [spec_marg(F, X) for F in A]
        b = check("marginalize", [A], lambda o: o[0].marginalize(list(Xn), inplace=False), tm)
        if b:
            return b
        b = check("marginalize-inplace", [A], lambda o: o[0].marginalize(list(Xn), inplace=True), tm, inplace_target=0, dedupe=False)  # members mutated in place: no re-insertion
        if b:
            return b
    b = check("copy", [A], lambda o: o[0].copy(), tA)
    if b:
        return b
    # constructor copies its arguments
    fobjs = [build(U, F) for F in A]
    fsn = [snapshot(x) for x in fobjs]
    s0 = FactorSet(*fobjs)
    if any(x is y for x in s0.factors for y in fobjs):
        return bad("result-aliases-operand:FactorSet.__init__", {})
    fs_mutate(s0, [N(v) for v in allvars])
    if [snapshot(x) for x in fobjs] != fsn:
        return bad("operand-mutated-via-result:FactorSet.__init__", {})
    # ---- FactorDict: const * fd, fd + number, fd + fd, fd - fd, dot, product (numpy only: its arithmetic is numpy's)
    if case["backend"] == "numpy":
        from pgmpy.factors import FactorDict
        keys = [tuple(N(v) for v in F["vars"]) for F in A]
        A2 = [gen_factor(rng, U, F["vars"]) for F in A]
        mk = lambda specs: FactorDict({k: build(U, F) for k, F in zip(keys, specs)})
        c = rng.choice([2, -3, 0.5])
        tA2 = [spec_table(U, F) for F in A2]
        fd_ops = [
            ("mul-const", lambda x, y: c * x, [{k: v * Fr(c) for k, v in t.items()} for t in tA]),
            ("add-number", lambda x, y: x + c, [{k: v + Fr(c) for k, v in t.items()} for t in tA]),
            ("add", lambda x, y: x + y, [{k: t[k] + t2[k] for k in t} for t, t2 in zip(tA, tA2)]),
            ("sub", lambda x, y: x - y, [{k: t[k] - t2[k] for k in t} for t, t2 in zip(tA, tA2)]),
        ]
        for name, call, spec in fd_ops:
            x, y = mk(A), mk(A2)
            sx = [snapshot(v) for v in x.values()] + [snapshot(v) for v in y.values()]
            r = call(x, y)
            nops[0] += 1
            tags.append("op=FactorDict." + name)
            d = fs_match(U, [r[k] for k in keys], spec) or (None if list(r.keys()) == keys else {"what": "keys"})
            if d:
                return bad("impl!=spec:FactorDict.%s" % name, {"diff": d})
            for phi in r.values():
                if any(phi is o or phi.values is o.values for o in list(x.values()) + list(y.values())):
                    return bad("result-aliases-operand:FactorDict.%s" % name, {})
                phi.values += 1
            if [snapshot(v) for v in x.values()] + [snapshot(v) for v in y.values()] != sx:
                return bad("operand-mutated-via-result:FactorDict.%s" % name, {})
        x, y = mk(A), mk(A2)
        dot = x.dot(y)
        exp = sum(sum(t[k] * t2[k] for k in t) for t, t2 in zip(tA, tA2))
        if not common.approx(float(dot), exp):
            return bad("impl!=spec:FactorDict.dot", {"impl": float(dot), "spec": str(exp)})
        pr = x.product()
        union = []
        for F in A:
            union += [v for v in F["vars"] if v not in union]
        spec = {}
        for k in all_named(U, union):
            v_ = Fr(1)
            for F, t in zip(A, tA):
                v_ *= t[restrict(k, F["vars"])]
            spec[k] = v_
        d = cmp_spec(U, pr, spec)
        if d:
            return bad("impl!=spec:FactorDict.product", {"diff": d})
        if set(map(id, x.get_factors())) != set(map(id, x.values())):
            return bad("impl!=spec:FactorDict.get_factors", {})
        nops[0] += 3
        tags += ["op=FactorDict.dot", "op=FactorDict.product"]
    return ok(nontrivial=len(A) + len(B) >= 3, key=common.canon_key(["fset", U, case["sets"], case["backend"]]), tags=tags,
              note="%d ops" % nops[0])


def run_fdict(case, drv):
    """FactorDict algebra on two dictionaries whose same-scope factors list their variables in different orders.
    dot is compared with the model (sum of the table of the modelled product) and with the brute-force
    sum over named assignments; + and - literally with the modelled sum, all with the brute force."""
    from pgmpy.factors import FactorDict
    U = case["U"]
    rng = random.Random(case["qseed"])
    D1, D2 = case["d1"], case["d2"]
    N = lambda v: vname(U["vstyle"], v)
    keys = [tuple(N(v) for v in F["vars"]) for F in D1]
    mk = lambda specs: FactorDict({k: build(U, F) for k, F in zip(keys, specs)})
    t1 = [spec_table(U, F) for F in D1]
    t2 = [spec_table(U, F) for F in D2]
    permuted = sum(1 for F, G in zip(D1, D2) if F["vars"] != G["vars"])
    tags = ["fdict", "backend=" + case["backend"], "cards=" + ("equal" if case["equal_cards"] else "unequal"),
            "permuted-cliques=%d" % permuted]
    nops = 0

    def snap(*dicts):
        return [snapshot(v) for dd in dicts for v in dd.values()]

    def guarded(name, fn):
        try:
            return None, fn()
        except (ValueError, KeyError, IndexError, TypeError, RuntimeError) as e:
            return bad("impl!=spec:FactorDict.%s:raised" % name, {"exc": repr(e)[:300], "d1": D1, "d2": D2}), None

    # ---- dot, both directions and with itself
    def model_dot(Fs, Gs):
        tot = Fr(0)
        for F, G in zip(Fs, Gs):
            m = drv.call("c04_product", [wire(U, F), wire(U, G), list(F["vars"])])
            tot += sum(mval(x) for x in m[4])
        return tot

    for name, (X, Y, tx, ty) in (("dot", (D1, D2, t1, t2)), ("dot-swapped", (D2, D1, t2, t1)), ("dot-self", (D2, D2, t2, t2))):
        x, y = mk(X), mk(Y)
        sn0 = snap(x, y)
        b, got = guarded(name, lambda: x.dot(y))
        if b:
            return b
        nops += 1
        tags.append("op=FactorDict." + name)
        spec = sum(sum(a[k] * c[k] for k in a) for a, c in zip(tx, ty))
        mod = model_dot(X, Y)
        if mod != spec:
            return bad("model!=spec:FactorDict.dot", {"model": str(mod), "spec": str(spec)})
        if not common.approx(float(got), spec):
            return bad("impl!=model:FactorDict.%s" % name, {"impl": float(got), "model": str(mod), "d1": X, "d2": Y})
        if snap(x, y) != sn0:
            return bad("operand-mutated:FactorDict.%s" % name, {})
    # ---- + and - of dictionaries (result literally = modelled DiscreteFactor.sum of the clique's two factors)
    c = rng.choice([2, -3, 0.5])
    for name, call, sgn in (("add", lambda x, y: x + y, 1), ("sub", lambda x, y: x - y, -1),
                            ("radd-swapped", lambda x, y: y + x, 1)):
        x, y = mk(D1), mk(D2)
        sn0 = snap(x, y)
        b, r = guarded(name, lambda: call(x, y))
        if b:
            return b
        nops += 1
        tags.append("op=FactorDict." + name)
        if list(r.keys()) != keys:
            return bad("impl!=spec:FactorDict.%s:keys" % name, {})
        for k, F, G, a, c2 in zip(keys, D1, D2, t1, t2):
            spec = {kk: a[kk] + sgn * c2[kk] for kk in a}
            d = cmp_spec(U, r[k], spec)
            if d:
                return bad("impl!=spec:FactorDict.%s" % name, {"diff": d, "f": F, "g": G})
            if sgn == 1:
                first, second = (F, G) if name == "add" else (G, F)
                m = drv.call("c04_sum", [wire(U, first), wire(U, second), [], []])
                d = cmp_literal(U, r[k], m)
                if d:
                    return bad("impl!=model:FactorDict.%s:%s" % (name, d["what"]), {"diff": d, "f": F, "g": G})
        ops_ = list(x.values()) + list(y.values())
        for phi in r.values():
            if any(phi is o or phi.values is o.values or phi.variables is o.variables for o in ops_):
                return bad("result-aliases-operand:FactorDict.%s" % name, {})
            phi.values += 1
            phi.variables.append("__extra__")
        if snap(x, y) != sn0:
            return bad("operand-mutated-via-result:FactorDict.%s" % name, {})
    # ---- scalars
    for name, call, f_ in (("mul-const", lambda x: x * c, lambda v: v * Fr(c)), ("rmul-const", lambda x: c * x, lambda v: v * Fr(c)),
                           ("add-number", lambda x: x + c, lambda v: v + Fr(c)), ("sub-number-via-add", lambda x: x + (-c), lambda v: v - Fr(c))):
        x = mk(D2)
        sn0 = snap(x)
        b, r = guarded(name, lambda: call(x))
        if b:
            return b
        nops += 1
        tags.append("op=FactorDict." + name)
        for k, G, a in zip(keys, D2, t2):
            d = cmp_spec(U, r[k], {kk: f_(v) for kk, v in a.items()})
            if d:
                return bad("impl!=spec:FactorDict.%s" % name, {"diff": d, "g": G})
        for phi in r.values():
            phi.values += 1
        if snap(x) != sn0:
            return bad("operand-mutated-via-result:FactorDict.%s" % name, {})
    # ---- bilinearity across operations: <d1, d1 - d2> = <d1, d1> - <d1, d2>
    x, y = mk(D1), mk(D2)
    b, lhs = guarded("dot-of-sub", lambda: x.dot(x - y))
    if b:
        return b
    rhs = sum(sum(a[k] * (a[k] - c2[k]) for k in a) for a, c2 in zip(t1, t2))
    if not common.approx(float(lhs), rhs):
        return bad("impl!=spec:FactorDict.dot-of-sub", {"impl": float(lhs), "spec": str(rhs)})
    nops += 1
    # ---- get_factors / product
    if set(map(id, y.get_factors())) != set(map(id, y.values())):
        return bad("impl!=spec:FactorDict.get_factors", {})
    # ---- from_dataframe: empirical counts of each marginal (numpy backend; needs pandas + sklearn)
    if case["backend"] == "numpy" and case["qseed"] % 4 == 0:
        import pandas as pd
        cols = sorted({v for F in D1 for v in F["vars"]})
        nrows = rng.randint(5, 25)
        rows = [[rng.randrange(U["card"][v]) for v in cols] for _ in range(nrows)]
        df = pd.DataFrame(rows, columns=["c%d" % v for v in cols])
        margs = [tuple("c%d" % v for v in F["vars"]) for F in D2]
        b, fd = guarded("from_dataframe", lambda: FactorDict.from_dataframe(df, margs))
        if b:
            return b
        nops += 1
        tags.append("op=FactorDict.from_dataframe")
        for mg, F in zip(margs, D2):
            phi = fd[mg]
            a = npvals(phi)
            for idx in itertools.product(*[range(d_) for d_ in a.shape]):
                names = {v: phi.state_names[v][i] for v, i in zip(phi.variables, idx)}
                cnt = sum(1 for rw in rows if all(rw[cols.index(int(v[1:]))] == names[v] for v in names))
                if float(a[idx]) != cnt:
                    return bad("impl!=spec:FactorDict.from_dataframe", {"marginal": mg, "at": str(names), "impl": float(a[idx]), "count": cnt})
            if list(phi.variables) != list(mg):
                return bad("impl!=spec:FactorDict.from_dataframe:scope", {"impl": list(phi.variables), "marginal": mg})
    return ok(nontrivial=permuted >= 1, key=common.canon_key(["fdict", U, D1, D2, case["backend"]]), tags=tags,
              note="%d ops" % nops)


def run_case(case, drv):
    from pgmpy import config
    backend = case.get("backend", "numpy")
    if backend == "torch":
        config.set_backend("torch")
    try:
        if case["kind"] == "pair":
            return run_pair(case, drv)
        if case["kind"] == "perm":
            return run_perm(case, drv)
        if case["kind"] == "eq":
            return run_eq(case, drv)
        if case["kind"] == "fset":
            return run_fset(case, drv)
        if case["kind"] == "fdict":
            return run_fdict(case, drv)
        return run_err(case, drv)
    finally:
        if backend == "torch":
            config.set_backend("numpy")
