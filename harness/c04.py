"""C04 correspondence: pgmpy DiscreteFactor algebra vs the extracted Coq model (coq/C04/Model.v) and vs an
independent brute-force textbook computation over named assignments (exact Fractions)."""
import itertools
import random
from fractions import Fraction as Fr

from harness import common
from harness.common import ok, bad

PROP = "C04"
LEVEL = "proof"
HASHSEEDS = {"quick": [0, 1, 2, 3], "thorough": [0, 1, 2, 3, 4, 5, 6, 7]}
BUDGET_S = {"quick": 120, "thorough": 1200}
EXHAUSTIVE = {"quick": False, "thorough": False}
RULE = ("random factor pairs over a 6-variable universe (scopes disjoint/nested/overlapping/equal/empty, 0-4 "
        "variables each, cardinalities 1-4 drawn per variable so axes have unequal sizes, state names "
        "default/int-permuted/str/tuple, exact dyadic values with planted zeros so that 0/0 and x/0 occur); every "
        "case runs product/sum/divide/marginalize/maximize/reduce (names, number fall back, negative numbers)/"
        "normalize/scalars/get_value/set_value/assignment/identity/factor_product/factor_sum_product/==/hash "
        "in-place and out-of-place, with operand snapshots before/after and after mutating the result; 'perm' cases "
        "run every axis permutation of both operands (<=4 variables); 'eq' cases probe == just inside/outside "
        "atol+rtol|b| and under axis/state permutations; 'err' cases the rejection paths; 'nearone' cases (class Q): normalize out of place / in place / default / twice / after a near-one scalar product / after marginalize on tables whose total is 1 +- 10^-k (k = 2..12; k <= 6 under torch's float32), 1 +- a few ulp, or typed with 2-9 decimals, compared RELATIVELY (1e-9) with the model's exact v/sum(v) and asserting the result's total (a quarter of the session cases start from such a table); class N: every name object handed to pgmpy is rebuilt (equal, never identical: strings, tuples, ints above 256); class O: variables given as tuple, set, frozenset, dict keys view, ndarray and pandas Index (one-shot iterators are not 'list, array-like'); class P: a variable with 257 / 300 states ('wide'), 9-10 variable factors ('big'); class R: the optional features of these files (inplace, show_warnings, atol, state_names, backend) are crossed in every stream; 'alias' cases: the SAME object as both operands of product/sum/divide (method, operator, in place, in place twice) for factors whose variable order differs from set iteration order (descending small ints, strings under several hash seeds), equal and unequal cardinalities, asymmetric tables; factor_sum_product and factor_product on lists with value-equal factors (same object twice, equal copy, equal content in another axis order, f-g-f, three equal): the model and the brute force count multiplicity (a FactorSet is a Python set and FactorDict.product goes through one: equal members collapse there by construction, the D2 family recorded elsewhere); 'fdict' cases: two FactorDicts over the same cliques whose same-scope factors list the variables in DIFFERENT axis orders (equal and unequal cardinalities): dot (both directions, self) against the model (total of the modelled product table) and the brute-force sum over named assignments of f*g, dict +/- against the modelled DiscreteFactor.sum, const*/+number, <d1,d1-d2> bilinearity, from_dataframe against row counts; 'fset' cases FactorSet product/divide/marginalize (in place and out of place), factorset_product/factorset_divide, copy, the copying constructor, and FactorDict const*, +number, +, -, dot, product on sets of pairwise distinct factors, compared with a Python brute force over named assignments (a FactorSet is the multiset of its factors; not modelled in Coq beyond the store-model purity theorem), with operand snapshots, `is`-sharing checks and mutation of the result (in-place marginalize, values += 1, field rebinding on every member factor); numpy and torch backends. "
        "GENERALISATION CLASSES: A sessions - 'session' cases run 5-8 IN-PLACE operations (product/sum/divide/marginalize/maximize/reduce/normalize/scalar */+/set_value, with observe steps str/repr/scope/get_cardinality/copy/hash/==/identity_factor/sample that must not change the object) on ONE factor object, the model following step by step, after every step: literal comparison, == a freshly built object in both directions, a changed object must change its hash; B argument purity - 'purity' cases snapshot every caller argument (variables list/tuple, cardinality list/ndarray, values list/tuple/ndarray flat/shaped/other.values/reused buffer/torch tensor, state_names dict and inner lists, marginalize/maximize/reduce/get_cardinality/assignment arguments, the from_dataframe frame) before/after the call and after wrecking the result, and reuse the same argument object for a second call on other data; C result independence - every out-of-place result is mutated and operands re-compared, the same call is repeated and must give a distinct, correct object; D pandas - FactorDict.from_dataframe with RangeIndex/shifted/permuted/gapped/duplicate/string index, shuffled column order, an unused column, int/str/bool/categorical(with unused categories)/constant columns, substring column names, compared with row counts (DiscreteFactor.sample only as a no-mutation/columns check: its law is C07's); E names - variable name styles str/int/tuple/substr (x1,x10,x,x11..)/mixed int+str+tuple in one factor (factor_sum_product rejects mutually unorderable names: opt_einsum documents comparable labels - tolerated exactly there), no format keywords exist in these files; F state names - default, permuted/shifted ints, str, tuple, mixed, bool (True/False), names equal across variables; operands disagreeing on a shared variable's state list are outside the property's stated precondition; G sizes - 'big' cases with 9-10 variables per factor out of 12 (small-int, int, str, mixed names), cardinality 1, zero-variable factors, empty argument lists, == with explicit atol 0 / 2^-10 / 1; H magnitudes - 'mag' cases with per-entry exponents 2^-480..2^480 compared purely RELATIVELY (1e-9) to the model's exact value, == inside/outside rtol at these magnitudes, totals down to 2^-480 (inputs chosen so results stay in the normal float range: under/overflow is not modelled; numpy only, because torch.Tensor(list) passes through float32 - torch cases use float32-exact dyadic values); I backends - every stream numpy and torch except mag and from_dataframe; J variants - inplace True/False for every method, operators and reflected operators, show_warnings, atol; K rejected calls - a LATER invalid argument after valid ones for marginalize/maximize/reduce out of place (operand unchanged) and in place for up-front rejections (object unchanged); in-place calls rejected late (bad state number, duplicate variable) leave pgmpy's object half-modified - outside the property text, reported, not flagged; L orders - hash seeds, every axis order, state_names dict key order != variable order, evidence/variable list orders, set orders as model parameters; M budget - tools/check.py.  Each op is compared literally with the model (variable order, cardinalities, shape, flat table, state-name "
        "dict) and with the brute-force named-assignment definition.  Non-trivial: at least one operand with >= 2 "
        "variables of unequal cardinality or a permuted state list; distinct = distinct canonical case content")
TRUSTED_BASE = ["numpy/torch primitives einsum, swapaxes, max, basic/None/list indexing, broadcasting, allclose "
                "(modelled by their documented meaning in coq/C04/Tensor.v)",
                "python set iteration order is an explicit order parameter of the model, read off pgmpy's result",
                "IEEE-754: inputs are dyadic rationals so floats are exact; results compared at 1e-9 relative"]
ASSUMPTIONS = ["torch backend: torch.Tensor(list) converts through float32 (pinned by a baseline test), so torch cases use float32-exact dyadic values; the magnitude stream is numpy only", "variable and state names are interned by the harness (ints are themselves, str -> 10^6+k, "
               "tuple -> 2*10^6+k)", "operands sharing a variable agree on its cardinality and state list",
               "maximize is modelled in the max-product semiring with a bottom element (entries of any sign)"]

ATOL = Fr(1, 10**8)
RTOL = Fr(1, 10**5)
STR0, TUP0 = 1000000, 2000000
ERR = {"ValueError": 1, "KeyError": 2, "IndexError": 3, "TypeError": 4}


# ------------------------------------------------------------------ names
def pyname(z):
    if z >= TUP0:
        return ("t", z - TUP0)
    if z >= STR0:
        return "s%d" % (z - STR0)
    return z


def zname(x):
    if isinstance(x, tuple):
        return TUP0 + x[1]
    if isinstance(x, str):
        return STR0 + int(x[1:])
    return int(x)


NAME_TABLES = {
    "str": ["V%d" % i for i in range(16)],
    "int": [1000 + 3 * i for i in range(16)],          # above the small-int cache: equal objects are not identical
    "smallint": list(range(16)),                       # set iteration order of small ints (>= 9 of them)
    "tuple": [("v", i) for i in range(16)],
    # one name a substring / prefix of another
    "substr": ["x1", "x10", "x", "x11", "x1_0", "xx", "x100", "x2", "x20", "x12", "x110", "x01", "x1x", "xx1", "x_", "x0"],
    # int / str / tuple in one factor (do not sort against each other)
    "mixed": ["a", 3, ("t", 1), "b", 7, ("t", 2), "c", 11, ("u", 1), "d", 0, ("u", 2), "e", 5, ("w", 0), "f"],
}
_NAME_INV = {st: {repr(nm): i for i, nm in enumerate(tab)} for st, tab in NAME_TABLES.items()}
STR_VSTYLES = ("str", "substr")


def fresh(x):
    """an equal but NOT identical object (str rebuilt, tuple rebuilt, int above the small-int cache re-parsed)"""
    if isinstance(x, str):
        return "".join(list(x)) if len(x) > 1 else (x + "_")[:-1]
    if isinstance(x, tuple):
        return tuple(fresh(e) for e in x)
    if isinstance(x, int) and not isinstance(x, bool) and abs(x) > 256:
        return int(str(x))
    return x


def vname(style, v):
    return fresh(NAME_TABLES[style][v])


def vid(style, nm):
    return _NAME_INV[style][repr(nm)]


# ------------------------------------------------------------------ case generation
def gen_universe(rng, nv=6, cards=None):
    style = rng.choice(["default", "default", "intperm", "str", "tuple", "mixed", "bool"])
    card, states = {}, {}
    for v in range(nv):
        c = cards[v] if cards else rng.choice([1, 2, 2, 3, 3, 4])
        card[v] = c
        if style == "default":
            st = list(range(c))
        elif style == "intperm":
            st = list(range(c))
            rng.shuffle(st)
            if rng.random() < 0.3:
                off = rng.choice([-2, 5, 10, 600])
                st = [x + off for x in st]
        elif style == "str":
            st = [STR0 + k for k in rng.sample(range(max(8, c + 3)), c)]
        elif style == "tuple":
            st = [TUP0 + k for k in rng.sample(range(max(8, c + 3)), c)]
        elif style == "bool":
            # True/False for <= 2 states (True == 1 and hash(True) == hash(1): the model sees 1/0), ints otherwise
            st = list(range(c))
            rng.shuffle(st)
        else:
            pool = [0, 1, 2, 3, STR0, STR0 + 1, STR0 + 2, TUP0, TUP0 + 1]
            st = rng.sample(pool, c) if c <= len(pool) else rng.sample(range(c + 5), c)
        states[v] = st
    return {"sstyle": style, "vstyle": rng.choice(["str", "str", "int", "tuple", "substr", "mixed"]),
            "snrev": rng.random() < 0.3,      # state_names dict given in another key order than the variables
            "card": [card[v] for v in range(nv)], "states": [states[v] for v in range(nv)]}


def gen_values(rng, n, neg=False, zeros=0.25):
    den = rng.choice([1, 2, 4, 8, 16])
    out = []
    for _ in range(n):
        if rng.random() < zeros:
            out.append(0)
        else:
            x = rng.randint(1, 40)
            out.append(-x if neg and rng.random() < 0.3 else x)
    return out, den


def gen_factor(rng, U, vs, neg=False, zeros=0.25):
    n = 1
    for v in vs:
        n *= U["card"][v]
    vals, den = gen_values(rng, n, neg, zeros)
    return {"vars": list(vs), "vals": vals, "den": den}


def gen_scopes(rng, nv=6):
    rel = rng.choice(["disjoint", "nested", "nested", "overlap", "overlap", "equal", "empty", "any"])
    pool = list(range(nv))
    rng.shuffle(pool)
    if rel == "disjoint":
        a = rng.randint(0, 3)
        return rel, pool[:a], pool[a:a + rng.randint(0, 3)]
    if rel == "nested":
        a = rng.randint(1, 4)
        f = pool[:a]
        g = rng.sample(f, rng.randint(0, a))
        return rel, f, g
    if rel == "overlap":
        k = rng.randint(1, 2)
        a, b = rng.randint(0, 2), rng.randint(0, 2)
        f = pool[:k + a]
        g = pool[:k] + pool[k + a:k + a + b]
        rng.shuffle(f)
        rng.shuffle(g)
        return rel, f, g
    if rel == "equal":
        f = pool[:rng.randint(1, 4)]
        g = list(f)
        rng.shuffle(g)
        return rel, f, g
    if rel == "empty":
        return rel, pool[:rng.randint(0, 3)], []
    return rel, pool[:rng.randint(0, 4)], rng.sample(pool, rng.randint(0, 4))


def _prod(xs):
    n = 1
    for x in xs:
        n *= x
    return n


def gen_nearone(rng, i):
    """a factor whose total is near (not exactly) one; entries are the exact rationals of the floats pgmpy will hold"""
    import struct
    torch_ = i % 4 == 3
    U = gen_universe(rng)
    fv = rng.sample(range(6), rng.randint(1, 2))
    n = _prod(U["card"][v] for v in fv)
    style = rng.choice(["pow10", "pow10", "ulp", "decimals", "thirds"])
    w = [Fr(rng.randint(1, 20)) for _ in range(n)]
    tot = sum(w)
    if style == "pow10":
        k = rng.randint(2, 12) if not torch_ else rng.randint(2, 6)
        target = 1 + rng.choice([1, -1]) * Fr(1, 10**k)
        vals = [x / tot * target for x in w]
        tag = "1%s1e-%d" % ("+-"[target < 1], k)
    elif style == "ulp":
        j = rng.choice([1, 2, 3, 5]) * rng.choice([1, -1])
        target = 1 + Fr(j, 2**52 if not torch_ else 2**22)
        vals = [x / tot * target for x in w]
        tag = "1%+dulp" % j
    elif style == "decimals":
        dec = rng.choice([2, 3, 6])
        vals = [Fr(int(x / tot * 10**dec), 10**dec) for x in w]
        if all(v == 0 for v in vals):
            vals[0] = Fr(1, 10**dec)
        tag = "%d-decimals" % dec
    else:
        dec = rng.choice([3, 6, 9])
        vals = [Fr(int(Fr(1, n) * 10**dec), 10**dec)] * n
        tag = "equal-entries-%d-decimals" % dec

    def as_float(x):
        f = float(x)
        if torch_:
            f = struct.unpack("f", struct.pack("f", f))[0]
        return f

    fl = [as_float(x) for x in vals]
    fr = [[Fr(f).numerator, Fr(f).denominator] for f in fl]
    return {"kind": "nearone", "backend": "torch" if torch_ else "numpy", "U": U, "tag": tag,
            "f": {"vars": fv, "vals": [0] * n, "den": 1, "fr": fr}, "qseed": rng.randint(0, 10**9)}


def cases(tier, seed):
    rng = random.Random(seed)
    out = []
    npair, nperm, neq, nerr = (340, 30, 130, 50) if tier == "quick" else (4200, 400, 1600, 300)
    nalign = 80 if tier == "quick" else 800
    nfset = 120 if tier == "quick" else 1200
    nalias = 100 if tier == "quick" else 1000
    nnear, nwide = (90, 3) if tier == "quick" else (900, 40)
    nfdict = 120 if tier == "quick" else 1600
    nsess, npure, nbig, nmag = (90, 50, 12, 50) if tier == "quick" else (1000, 600, 160, 600)
    for i in range(npair):
        U = gen_universe(rng)
        rel, fv, gv = gen_scopes(rng)
        neg = rng.random() < 0.15
        c = {"kind": "pair", "backend": "torch" if i % 5 == 4 else "numpy", "U": U, "rel": rel,
             "f": gen_factor(rng, U, fv, neg), "g": gen_factor(rng, U, gv, neg, zeros=0.4), "neg": neg,
             "qseed": rng.randint(0, 10**9)}
        out.append(c)
    # swap-loop stream: >=3 shared variables of pairwise unequal-looking cardinalities, second operand's variable
    # order a non-trivial permutation of the first's (sum / divide / == alignment loop does real work)
    for i in range(nalign):
        cards = [2, 3, 4, 2, 3, 1]
        rng.shuffle(cards)
        U = gen_universe(rng, cards=cards)
        k = rng.choice([3, 3, 4])
        fv = rng.sample(range(6), k)
        while len({U["card"][v] for v in fv}) < 2:
            fv = rng.sample(range(6), k)
        gv = list(fv)
        while gv == fv:
            rng.shuffle(gv)
        if rng.random() < 0.4:
            fv = fv + [v for v in range(6) if v not in fv][:1]      # nested: g's scope a permuted strict subset
        out.append({"kind": "pair", "backend": "torch" if i % 5 == 4 else "numpy", "U": U, "rel": "align",
                    "f": gen_factor(rng, U, fv), "g": gen_factor(rng, U, gv, zeros=0.4), "neg": False,
                    "qseed": rng.randint(0, 10**9)})
    for i in range(nperm):
        U = gen_universe(rng)
        rel, fv, gv = gen_scopes(rng)
        out.append({"kind": "perm", "backend": "torch" if i % 5 == 4 else "numpy", "U": U, "rel": rel,
                    "f": gen_factor(rng, U, fv), "g": gen_factor(rng, U, gv, zeros=0.4), "neg": False,
                    "qseed": rng.randint(0, 10**9)})
    for i in range(neq):
        U = gen_universe(rng)
        fv = rng.sample(range(6), rng.randint(0, 4))
        out.append({"kind": "eq", "backend": "torch" if i % 5 == 4 else "numpy", "U": U,
                    "f": gen_factor(rng, U, fv, zeros=0.15), "qseed": rng.randint(0, 10**9)})
    # FactorSet / FactorDict stream: two or three factor sets of pairwise distinct factors
    for i in range(nfset):
        U = gen_universe(rng)
        sets, seen = [], set()
        for _ in range(3):
            fs = []
            for _ in range(rng.randint(1, 3)):
                for _try in range(20):
                    F = gen_factor(rng, U, rng.sample(range(6), rng.randint(1, 3)), zeros=0.3)
                    key = (tuple(sorted(F["vars"])),)
                    if key not in seen:       # distinct scopes => distinct factors (python sets collapse equal ones)
                        seen.add(key)
                        fs.append(F)
                        break
            sets.append(fs)
        out.append({"kind": "fset", "backend": "torch" if i % 5 == 4 else "numpy", "U": U, "sets": sets,
                    "qseed": rng.randint(0, 10**9)})
    # FactorDict stream: two dictionaries over the same cliques whose factors list the clique's variables in
    # DIFFERENT axis orders; equal cardinalities (a transposed table has the same shape) and unequal ones
    for i in range(nfdict):
        equal = i % 2 == 0
        if equal:
            cards = [rng.choice([2, 3])] * 6
        else:
            cards = [2, 3, 4, 2, 3, 1]
            rng.shuffle(cards)
        U = gen_universe(rng, cards=cards)
        cliques, seen = [], set()
        sizes = [rng.choice([2, 3])] + [rng.randint(1, 3) for _ in range(rng.randint(1, 2))]
        for k in sizes:
            for _try in range(20):
                vs = rng.sample(range(6), k)
                if frozenset(vs) not in seen:
                    seen.add(frozenset(vs))
                    cliques.append(vs)
                    break
        d1, d2 = [], []
        for j, vs in enumerate(cliques):
            ws = list(vs)
            if len(ws) >= 2 and (j == 0 or rng.random() < 0.7):
                while ws == vs:
                    rng.shuffle(ws)
            d1.append(gen_factor(rng, U, vs, zeros=0.2))
            d2.append(gen_factor(rng, U, ws, neg=rng.random() < 0.3, zeros=0.2))
        out.append({"kind": "fdict", "backend": "torch" if i % 4 == 3 else "numpy", "U": U, "d1": d1, "d2": d2,
                    "equal_cards": equal, "qseed": rng.randint(0, 10**9)})
    # A/C/J: a session of in-place operations on ONE factor object, the model following step by step
    for i in range(nsess):
        U = gen_universe(rng)
        fv = rng.sample(range(6), rng.randint(1, 3))
        F = gen_factor(rng, U, fv, zeros=0.2)
        near = rng.random() < 0.25
        if near:                               # start from a table whose total is near (not exactly) one
            nc = gen_nearone(rng, i)
            U, F, fv = nc["U"], nc["f"], nc["f"]["vars"]
        cur, steps = list(fv), ([["normalize"], ["observe"], ["normalize"]] if near else [])
        size = lambda vs: _prod(U["card"][v] for v in vs)
        for _ in range(rng.randint(5, 8)):
            kind = rng.choice(["product", "sum", "marginalize", "maximize", "reduce", "normalize", "scale", "shift",
                               "set_value", "divide", "observe", "observe"])
            if kind in ("product", "sum"):
                gv = rng.sample(range(6), rng.randint(0, 3))
                if size(set(cur) | set(gv)) > 200:
                    continue
                steps.append([kind, gen_factor(rng, U, gv, zeros=0.2)])
                cur = cur + [v for v in gv if v not in cur]
            elif kind in ("marginalize", "maximize"):
                X = rng.sample(cur, rng.randint(0, min(2, len(cur))))
                steps.append([kind, X])
                cur = [v for v in cur if v not in X]
            elif kind == "reduce":
                X = rng.sample(cur, rng.randint(0, min(2, len(cur))))
                steps.append([kind, [[v, rng.choice(U["states"][v])] for v in X]])
                cur = [v for v in cur if v not in X]
            elif kind == "divide":
                gv = rng.sample(cur, rng.randint(0, len(cur)))
                G = gen_factor(rng, U, gv, zeros=0.0)
                steps.append([kind, G])
            elif kind == "set_value":
                steps.append([kind, [rng.randrange(U["card"][v]) for v in cur], rng.choice([0, 1, 5, 0.25])])
            elif kind in ("scale", "shift"):
                steps.append([kind, rng.choice([2, 3, 0.5, 1])])
            else:
                steps.append([kind])
        out.append({"kind": "session", "backend": "torch" if i % 4 == 3 else "numpy", "U": U, "f": F, "steps": steps,
                    "qseed": rng.randint(0, 10**9)})
    # B/C: purity of the caller's arguments, reuse of argument objects, independence of successive results
    for i in range(npure):
        U = gen_universe(rng)
        rel, fv, gv = gen_scopes(rng)
        if not fv:
            fv = [rng.randrange(6)]
        out.append({"kind": "purity", "backend": "torch" if i % 4 == 3 else "numpy", "U": U,
                    "f": gen_factor(rng, U, fv), "f2": gen_factor(rng, U, fv), "g": gen_factor(rng, U, gv, zeros=0.3),
                    "qseed": rng.randint(0, 10**9)})
    # G: factors over 9-10 variables out of 12 (Python set iteration order of >= 9 small ints / names)
    for i in range(nbig):
        cards = [2] * 7 + [1] * 3 + [3, 2]
        rng.shuffle(cards)
        U = gen_universe(rng, nv=12, cards=cards)
        U["vstyle"] = rng.choice(["smallint", "smallint", "int", "str", "mixed"])
        fv = rng.sample(range(12), rng.choice([9, 10]))
        gv = rng.sample(range(12), rng.choice([9, 9, 10]))
        if rng.random() < 0.3:
            gv = rng.sample(fv, rng.randint(2, 9))         # nested divisor
        out.append({"kind": "big", "backend": "torch" if i % 4 == 3 else "numpy", "U": U, "rel": "big",
                    "f": gen_factor(rng, U, fv, zeros=0.1), "g": gen_factor(rng, U, gv, zeros=0.3), "neg": False,
                    "qseed": rng.randint(0, 10**9)})
    # H: magnitudes 2**-480 .. 2**480 per entry (numpy only: torch.Tensor(list) goes through float32)
    for i in range(nmag):
        U = gen_universe(rng)
        rel, fv, gv = gen_scopes(rng)
        F, G = gen_factor(rng, U, fv, zeros=0.2), gen_factor(rng, U, gv, zeros=0.3)
        lo, hi = rng.choice([(-480, 480), (-480, -400), (400, 480), (-200, 60), (50, 60)])
        for H_ in (F, G):
            H_["exp"] = [rng.randint(lo, hi) for _ in H_["vals"]]
        out.append({"kind": "mag", "backend": "numpy", "U": U, "rel": rel, "f": F, "g": G, "neg": False,
                    "qseed": rng.randint(0, 10**9)})
    # aliasing / multiplicity: the SAME object as both operands of every binary operation (in and out of place), and
    # factor lists that contain value-equal factors (same object twice, equal copies, equal content in another axis
    # order): products count multiplicity
    for i in range(nalias):
        if i % 2 == 0:
            cards = [rng.choice([2, 3])] * 6
        else:
            cards = [2, 3, 4, 2, 3, 1]
            rng.shuffle(cards)
        U = gen_universe(rng, cards=cards)
        U["vstyle"] = rng.choice(["smallint", "smallint", "str", "int", "substr", "tuple"])
        k = rng.choice([2, 2, 3])
        fv = rng.sample(range(6), k)
        if U["vstyle"] == "smallint" and rng.random() < 0.6:
            fv = sorted(fv, reverse=True)           # e.g. [2, 1]: not the iteration order of the set {1, 2}
        F = gen_factor(rng, U, fv, zeros=0.15)
        gv = rng.sample(range(6), rng.randint(1, 2))
        out.append({"kind": "alias", "backend": "torch" if i % 4 == 3 else "numpy", "U": U, "f": F,
                    "g": gen_factor(rng, U, gv, zeros=0.2), "qseed": rng.randint(0, 10**9)})
    # Q / near-one totals: tables whose total is 1 +- 10^-k (k = 2..12), 1 +- a few ulp, or typed with 2-6 decimals
    for i in range(nnear):
        out.append(gen_nearone(rng, i))
    # P: a variable with more than 256 states
    for i in range(nwide):
        big = rng.choice([257, 300])
        cards = [big, 2, 3, 1, 2, 2]
        U = gen_universe(rng, cards=cards)
        if U["sstyle"] == "bool":
            U["sstyle"] = "default"
            U["states"] = [list(range(c)) for c in U["card"]]
        fv = [0] + rng.sample(range(1, 6), rng.randint(0, 2))
        rng.shuffle(fv)
        gv = rng.sample(fv, rng.randint(1, len(fv)))
        out.append({"kind": "big", "backend": "torch" if i % 4 == 3 else "numpy", "U": U, "rel": "wide",
                    "f": gen_factor(rng, U, fv, zeros=0.1), "g": gen_factor(rng, U, gv, zeros=0.3), "neg": False,
                    "qseed": rng.randint(0, 10**9)})
    for i in range(nerr):
        U = gen_universe(rng)
        fv = rng.sample(range(6), rng.randint(1, 3))
        out.append({"kind": "err", "backend": "torch" if i % 4 == 3 else "numpy", "U": U, "f": gen_factor(rng, U, fv),
                    "qseed": rng.randint(0, 10**9)})
    return out


def shrink(case):
    for who in ("f", "g"):
        if who in case and case[who]["vars"]:
            F = case[who]
            for i in range(len(F["vars"])):
                # drop variable i keeping the slice at state 0
                U = case["U"]
                cards = [U["card"][v] for v in F["vars"]]
                idxs = [list(range(c)) for c in cards]
                idxs[i] = [0]
                vals = []
                for t in itertools.product(*idxs):
                    vals.append(F["vals"][ravel(cards, t)])
                c = dict(case)
                c[who] = {"vars": F["vars"][:i] + F["vars"][i + 1:], "vals": vals, "den": F["den"]}
                yield c


# ------------------------------------------------------------------ helpers: indices, spec tables
def ravel(cards, idx):
    n = 0
    for c, i in zip(cards, idx):
        n = n * c + i
    return n


def fval(F, n):
    """exact value of entry n of a factor spec: vals[n]/den, times 2**exp[n] in the magnitude stream"""
    if "fr" in F:
        return Fr(F["fr"][n][0], F["fr"][n][1])
    x = Fr(F["vals"][n], F["den"])
    if "exp" in F:
        x *= Fr(2) ** F["exp"][n]
    return x


def spec_table(U, F):
    """{frozenset((var, state Z)) : Fraction} for a factor spec"""
    cards = [U["card"][v] for v in F["vars"]]
    t = {}
    for n, idx in enumerate(itertools.product(*[range(c) for c in cards])):
        key = frozenset((v, U["states"][v][i]) for v, i in zip(F["vars"], idx))
        t[key] = fval(F, n)
    return t


def all_named(U, vs):
    vs = list(vs)
    for idx in itertools.product(*[range(U["card"][v]) for v in vs]):
        yield frozenset((v, U["states"][v][i]) for v, i in zip(vs, idx))


def restrict(key, vs):
    vs = set(vs)
    return frozenset(p for p in key if p[0] in vs)


def xdiv(a, b):
    if b == 0:
        return Fr(0) if a == 0 else ("inf" if a > 0 else "-inf")
    return a / b


def sn_order(U, F):
    vs = list(F["vars"])
    return vs[::-1] if U.get("snrev") else vs


def state_py(U, v, z):
    if U["sstyle"] == "bool" and U["card"][v] <= 2 and z in (0, 1):
        return bool(z)
    return pyname(z)


def wire(U, F):
    sn = [] if U["sstyle"] == "default" else [[v, U["states"][v]] for v in sn_order(U, F)]
    return [F["vars"], [U["card"][v] for v in F["vars"]], [fval(F, n) for n in range(len(F["vals"]))], sn]


def build(U, F):
    from pgmpy.factors.discrete import DiscreteFactor
    vs = [vname(U["vstyle"], v) for v in F["vars"]]
    cards = [U["card"][v] for v in F["vars"]]
    vals = [float(fval(F, n)) for n in range(len(F["vals"]))]
    if U["sstyle"] == "default":
        return DiscreteFactor(vs, cards, vals)
    sn = {vname(U["vstyle"], v): [state_py(U, v, z) for z in U["states"][v]] for v in sn_order(U, F)}
    return DiscreteFactor(vs, cards, vals, state_names=sn)


def npvals(phi):
    v = phi.values
    if hasattr(v, "detach"):
        v = v.detach().cpu().numpy()
    return v


def snapshot(phi):
    import copy as _c
    return (list(phi.variables), [int(c) for c in phi.cardinality], npvals(phi).copy().tolist(),
            list(npvals(phi).shape), _c.deepcopy(phi.state_names), _c.deepcopy(phi.name_to_no),
            _c.deepcopy(phi.no_to_name))


def impl_form(U, phi):
    """literal interned form [vars, card, states, shape, flat]"""
    st = U["vstyle"]
    vs = [vid(st, v) for v in phi.variables]
    states = [[vid(st, k), [zname(s) for s in l]] for k, l in phi.state_names.items()]
    a = npvals(phi)
    return [vs, [int(c) for c in phi.cardinality], states, list(a.shape), [float(x) for x in a.ravel().tolist()]]


def impl_canon(U, phi):
    st = U["vstyle"]
    a = npvals(phi)
    vs = [vid(st, v) for v in phi.variables]
    t = {}
    for idx in itertools.product(*[range(d) for d in a.shape]):
        key = frozenset((v, zname(phi.state_names[nm][i])) for v, nm, i in zip(vs, phi.variables, idx))
        t[key] = float(a[idx]) if a.shape else float(a)
    return t


def mval(x):
    """model data entry -> Fraction | 'inf' | '-inf' | 'nan'"""
    if len(x) == 2 and isinstance(x[1], list):
        return Fr(x[1][0], x[1][1])
    if len(x) == 1:
        return {1: "inf", 2: "-inf", 3: "nan"}[x[0]]
    return Fr(x[0], x[1])


def same_val(a, b):
    """a: implementation float; b: Fraction or tag"""
    if isinstance(b, str):
        if b == "nan":
            return a != a
        return a == float(b)
    if _REL[0]:
        # magnitude stream: purely RELATIVE to the exact value
        b = Fr(b)
        if b == 0:
            return a == 0
        return abs(Fr(a) - b) <= Fr(1, 10**9) * abs(b) if a == a and abs(a) != float("inf") else False
    return common.approx(a, b)


_REL = [False]


def cmp_literal(U, phi, m):
    got = impl_form(U, phi)
    if got[0] != m[0] or got[1] != m[1] or got[3] != m[3]:
        return {"what": "layout", "impl": got[:2] + [got[3]], "model": m[:2] + [m[3]]}
    if got[2] != m[2]:
        return {"what": "state_names", "impl": got[2], "model": m[2]}
    md = [mval(x) for x in m[4]]
    if len(md) != len(got[4]) or not all(same_val(a, b) for a, b in zip(got[4], md)):
        return {"what": "values", "impl": got[4], "model": [str(x) for x in md]}
    return None


def cmp_spec(U, phi, spec):
    got = impl_canon(U, phi)
    if set(got) != set(spec):
        return {"what": "named assignments differ", "impl": sorted(map(sorted, got))[:4],
                "spec": sorted(map(sorted, spec))[:4]}
    for k, x in spec.items():
        if not same_val(got[k], x):
            return {"what": "value", "at": sorted(k), "impl": got[k], "spec": str(x)}
    return None


class Ctx:
    def __init__(self, case, drv):
        self.case, self.drv, self.U = case, drv, case["U"]
        self.tags = []
        self.nops = 0

    def op(self, name, operands, call, model_entry, model_args, spec, inplace_call=None, order_from=None,
           mutate=True):
        """operands: list of (factor spec); call(objs) -> result (out-of-place); model_args(result) -> wire args;
        spec: dict | None.  Returns a bad(...) or None."""
        U = self.U
        objs = [build(U, F) for F in operands]
        snaps = [snapshot(o) for o in objs]
        err = None
        try:
            r = call(objs)
        except (ValueError, KeyError, IndexError, TypeError) as e:
            err = type(e).__name__
        self.nops += 1
        self.tags.append("op=" + name)
        if err:
            st, code = self.drv.call_e(model_entry, model_args(None))
            self.tags.append("error=" + err)
            same_enum = st == "err" and code == ERR[err]
            if (not same_enum and self.case.get("backend") == "torch" and err == "TypeError" and (st, code) == ("err", 3)
                    and name.startswith("reduce")):
                same_enum = True     # a str used as an index: IndexError in numpy, TypeError in torch - both "bad state"
            if not same_enum:
                return bad("impl!=model:%s:error" % name, {"impl": err, "model": [st, code], "ops": operands})
            if [snapshot(o) for o in objs] != snaps:
                return bad("operand-mutated:%s:on-error" % name, {"ops": operands})
            return None
        st, m = self.drv.call_e(model_entry, model_args(r))
        if st != "ok":
            return bad("impl!=model:%s:model-error" % name, {"model_err": m, "impl": impl_form(U, r), "ops": operands})
        d = cmp_literal(U, r, m)
        if d:
            return bad("impl!=model:%s:%s" % (name, d["what"]), {"diff": d, "ops": operands})
        if spec is not None:
            d = cmp_spec(U, r, spec)
            if d:
                return bad("impl!=spec:%s" % name, {"diff": d, "ops": operands})
        if [snapshot(o) for o in objs] != snaps:
            return bad("operand-mutated:%s" % name, {"ops": operands})
        # sharing + mutation of the result must not reach the operands
        if mutate and r is not None:
            for o in objs:
                if r.variables is o.variables or r.values is o.values or r.cardinality is o.cardinality \
                        or r.state_names is o.state_names or r.name_to_no is o.name_to_no:
                    return bad("result-aliases-operand:%s" % name, {"ops": operands})
            try:
                r.values += 1
                if len(r.variables) > 0:
                    r.values[tuple([0] * len(r.variables))] = 123.0
                    r.cardinality[0] = 77
                    r.state_names[r.variables[0]] = ["zz"]
                    r.name_to_no[r.variables[0]] = {"zz": 0}
                    r.no_to_name[r.variables[0]] = {0: "zz"}
                r.variables.append("__extra__")
            except Exception as e:  # mutation itself must be possible
                return bad("harness-mutation-failed:%s" % name, {"exc": repr(e)})
            if [snapshot(o) for o in objs] != snaps:
                return bad("operand-mutated-via-result:%s" % name, {"ops": operands})
        # in-place variant computes the same thing on the first operand
        if inplace_call is not None:
            objs2 = [build(U, F) for F in operands]
            snap_rest = [snapshot(o) for o in objs2[1:]]
            inplace_call(objs2)
            self.tags.append("inplace")
            # set order may differ between two runs only through the same hash seed: same process => same order
            st2, m2 = self.drv.call_e(model_entry, model_args(objs2[0]))
            d = cmp_literal(U, objs2[0], m2) if st2 == "ok" else {"what": "model-error"}
            if d:
                return bad("impl!=model:%s:inplace:%s" % (name, d["what"]), {"diff": d, "ops": operands})
            if [snapshot(o) for o in objs2[1:]] != snap_rest:
                return bad("operand-mutated:%s:inplace-second-operand" % name, {"ops": operands})
        return None


# ------------------------------------------------------------------ the op battery for a pair
def vids(U, phi):
    return [vid(U["vstyle"], v) for v in phi.variables]


def run_pair_ops(ctx, F, G, rng, light=False):
    U = ctx.U
    fw, gw = wire(U, F), wire(U, G)
    tf, tg = spec_table(U, F), spec_table(U, G)
    fv, gv = F["vars"], G["vars"]
    union = fv + [v for v in gv if v not in fv]
    N = lambda v: vname(U["vstyle"], v)
    S = lambda z: pyname(z)

    # product
    spec = {k: tf[restrict(k, fv)] * tg[restrict(k, gv)] for k in all_named(U, union)}
    b = ctx.op("product", [F, G], lambda o: o[0].product(o[1], inplace=False), "c04_product",
               lambda r: [fw, gw, vids(U, r) if r is not None else union], spec,
               inplace_call=lambda o: o[0].product(o[1], inplace=True))
    if b:
        return b
    b = ctx.op("mul-operator", [G, F], lambda o: o[0] * o[1], "c04_product",
               lambda r: [gw, fw, vids(U, r) if r is not None else union], spec)
    if b:
        return b
    # sum
    spec = {k: tf[restrict(k, fv)] + tg[restrict(k, gv)] for k in all_named(U, union)}
    ex2 = sorted(v for v in union if v not in gv)
    for e2 in ([ex2] if light or len(ex2) < 2 else [ex2, ex2[::-1]]):
        b = ctx.op("sum", [F, G], lambda o: o[0].sum(o[1], inplace=False), "c04_sum",
                   lambda r: [fw, gw, vids(U, r)[len(fv):] if r is not None else [v for v in gv if v not in fv], e2],
                   spec, inplace_call=lambda o: o[0].sum(o[1], inplace=True))
        if b:
            return b
    b = ctx.op("add-operator", [G, F], lambda o: o[0] + o[1], "c04_sum",
               lambda r: [gw, fw, vids(U, r)[len(gv):] if r is not None else [v for v in fv if v not in gv],
                          sorted(v for v in union if v not in fv)], spec)
    if b:
        return b
    # divide (error when scope of divisor is not a subset)
    if set(gv) <= set(fv):
        spec = {k: xdiv(tf[k], tg[restrict(k, gv)]) for k in all_named(U, fv)}
        kinds = set(str(x) for x in spec.values() if isinstance(x, str))
        if any(tf[k] == 0 and tg[restrict(k, gv)] == 0 for k in spec):
            ctx.tags.append("0/0")
        for kk in kinds:
            ctx.tags.append("x/0=" + kk)
    else:
        spec = None
    ex = sorted(v for v in fv if v not in gv)
    for e in ([ex] if light or len(ex) < 2 else [ex, ex[::-1]]):
        b = ctx.op("divide", [F, G], lambda o: o[0].divide(o[1], inplace=False), "c04_divide",
                   lambda r: [fw, gw, e], spec, inplace_call=lambda o: o[0].divide(o[1], inplace=True))
        if b:
            return b
    if set(gv) <= set(fv):
        from pgmpy.factors import factor_divide
        b = ctx.op("factor_divide", [F, G], lambda o: factor_divide(o[0], o[1]), "c04_divide", lambda r: [fw, gw, ex], spec)
        if b:
            return b
        b = ctx.op("div-operator", [F, G], lambda o: o[0] / o[1], "c04_divide", lambda r: [fw, gw, ex], spec)
        if b:
            return b
    if light:
        return None
    # marginalize / maximize
    subsets = [[], list(fv)]
    for _ in range(2):
        subsets.append(rng.sample(fv, rng.randint(0, len(fv))))
    for X in subsets:
        keep = [v for v in fv if v not in X]
        spec = {}
        for k in all_named(U, fv):
            kk = restrict(k, keep)
            spec[kk] = spec.get(kk, 0) + tf[k]
        Xn = [N(v) for v in X]
        b = ctx.op("marginalize", [F], lambda o: o[0].marginalize(list(Xn), inplace=False), "c04_marginalize",
                   lambda r: [fw, X], spec, inplace_call=lambda o: o[0].marginalize(list(Xn), inplace=True))
        if b:
            return b
        if True:  # tables of any sign (model: max-product semiring with bottom)
            spec = {}
            for k in all_named(U, fv):
                kk = restrict(k, keep)
                spec[kk] = max(spec.get(kk, tf[k]), tf[k])
            b = ctx.op("maximize", [F], lambda o: o[0].maximize(list(Xn), inplace=False), "c04_maximize",
                       lambda r: [fw, X], spec, inplace_call=lambda o: o[0].maximize(list(Xn), inplace=True))
            if b:
                return b
        if len(X) == len(fv):
            ctx.tags.append("empty-result-scope")
    # reduce by names
    for _ in range(2):
        X = rng.sample(fv, rng.randint(0, len(fv)))
        ev = [(v, rng.choice(U["states"][v])) for v in X]
        evs = set(ev)
        keep = [v for v in fv if v not in X]
        spec = {restrict(k, keep): tf[k] for k in all_named(U, fv) if evs <= k}
        evn = [(N(v), S(z)) for v, z in ev]
        b = ctx.op("reduce", [F], lambda o: o[0].reduce(list(evn), inplace=False), "c04_reduce",
                   lambda r: [fw, [list(p) for p in ev]], spec,
                   inplace_call=lambda o: o[0].reduce(list(evn), inplace=True))
        if b:
            return b
    # reduce by numbers (fall back when a given "name" is unknown; negative numbers wrap; may be IndexError)
    if fv:
        X = rng.sample(fv, rng.randint(1, len(fv)))
        ev = [(v, rng.randint(-U["card"][v] - 1, U["card"][v])) for v in X]
        evn = [(N(v), z) for v, z in ev]
        ctx.tags.append("reduce-numbers")
        b = ctx.op("reduce-num", [F], lambda o: o[0].reduce(list(evn), inplace=False, show_warnings=False),
                   "c04_reduce", lambda r: [fw, [list(p) for p in ev]], None)
        if b:
            return b
    # normalize
    tot = sum(tf.values())
    if tot != 0:
        spec = {k: x / tot for k, x in tf.items()}
        b = ctx.op("normalize", [F], lambda o: o[0].normalize(inplace=False), "c04_normalize", lambda r: fw, spec,
                   inplace_call=lambda o: o[0].normalize(inplace=True))
        if b:
            return b
    # scalars
    c = rng.choice([0, 1, 2, -3, 0.5, 2.25])
    spec = {k: x * Fr(c) for k, x in tf.items()}
    b = ctx.op("product-scalar", [F], lambda o: o[0] * c, "c04_product_scalar", lambda r: [fw, Fr(c)], spec,
               inplace_call=lambda o: o[0].product(c, inplace=True))
    if b:
        return b
    b = ctx.op("rmul-scalar", [F], lambda o: c * o[0], "c04_product_scalar", lambda r: [fw, Fr(c)], spec)
    if b:
        return b
    spec = {k: x + Fr(c) for k, x in tf.items()}
    b = ctx.op("sum-scalar", [F], lambda o: o[0] + c, "c04_sum_scalar", lambda r: [fw, Fr(c)], spec,
               inplace_call=lambda o: o[0].sum(c, inplace=True))
    if b:
        return b
    ctx.tags.append("scalar")
    # identity / copy
    b = ctx.op("identity_factor", [F], lambda o: o[0].identity_factor(), "c04_identity", lambda r: fw,
               {k: Fr(1) for k in tf})
    if b:
        return b
    b = ctx.op("copy", [F], lambda o: o[0].copy(), "c04_mk", lambda r: fw, tf)
    if b:
        return b
    return run_point_ops(ctx, F, rng)


def run_point_ops(ctx, F, rng):
    """get_value / set_value / assignment / get_cardinality / scope / copy sharing graph"""
    U = ctx.U
    fw = wire(U, F)
    fv = F["vars"]
    N = lambda v: vname(U["vstyle"], v)
    phi = build(U, F)
    cards = [U["card"][v] for v in fv]
    size = 1
    for c in cards:
        size *= c
    if U["vstyle"] in STR_VSTYLES:
        for _ in range(3):
            idx = [rng.randrange(c) for c in cards]
            byname = rng.random() < 0.6
            if byname:
                zs = [U["states"][v][i] for v, i in zip(fv, idx)]
            else:
                zs = [rng.randint(-c, c - 1) if rng.random() < 0.8 else c for c in cards]
            kw = {N(v): pyname(z) for v, z in zip(fv, zs)}
            ctx.nops += 1
            ctx.tags.append("op=get_value")
            try:
                got = ("ok", float(phi.get_value(**kw)))
            except (ValueError, KeyError, IndexError) as e:
                got = ("err", ERR[type(e).__name__])
            st, m = ctx.drv.call_e("c04_get_value", [fw, [[v, z] for v, z in zip(fv, zs)]])
            good = (st == got[0]) and (m == got[1] if st == "err" else common.approx(got[1], Fr(m[0], m[1])))
            if not good:
                return bad("impl!=model:get_value", {"f": F, "kw": zs, "impl": got, "model": [st, m]})
            # set_value: str names by name, ints as numbers
            if all(z < TUP0 for z in zs):
                phi2 = build(U, F)
                ctx.nops += 1
                ctx.tags.append("op=set_value")
                try:
                    phi2.set_value(3.5, **kw)
                    e_ = None
                except (ValueError, KeyError, IndexError) as e:
                    e_ = ERR[type(e).__name__]
                st, m = ctx.drv.call_e("c04_set_value", [fw, Fr(7, 2), [[v, z] for v, z in zip(fv, zs)]])
                if e_ is not None:
                    if st != "err" or m != e_:
                        return bad("impl!=model:set_value:error", {"f": F, "kw": zs, "impl": e_, "model": [st, m]})
                else:
                    d = cmp_literal(U, phi2, m) if st == "ok" else {"what": "model-error %s" % m}
                    if d:
                        return bad("impl!=model:set_value", {"f": F, "kw": zs, "diff": d})
    # assignment
    idxs = [rng.randrange(size) for _ in range(3)] + ([size] if rng.random() < 0.2 else [])
    ctx.nops += 1
    ctx.tags.append("op=assignment")
    try:
        a = phi.assignment(list(idxs))
        got = ("ok", [[[vid(U["vstyle"], v), zname(s)] for v, s in row] for row in a])
    except IndexError:
        got = ("err", 3)
    st, m = ctx.drv.call_e("c04_assignment", [fw, idxs])
    if (st, m) != got:
        return bad("impl!=model:assignment", {"f": F, "idx": idxs, "impl": got, "model": [st, m]})
    # get_cardinality / scope
    q = rng.sample(fv, rng.randint(0, len(fv))) + ([9] if rng.random() < 0.2 else [])
    try:
        got = ("ok", sorted([vid(U["vstyle"], k), int(c)] for k, c in phi.get_cardinality([N(v) for v in q]).items()))
    except ValueError:
        got = ("err", 1)
    st, m = ctx.drv.call_e("c04_get_cardinality", [fw, q])
    if (st, sorted(m) if st == "ok" else m) != got:
        return bad("impl!=model:get_cardinality", {"f": F, "q": q, "impl": got, "model": [st, m]})
    if [vid(U["vstyle"], v) for v in phi.scope()] != fv:
        return bad("impl!=model:scope", {"f": F})
    # sharing graph of copy()
    c = phi.copy()
    g = ctx.drv.call("c04_copy_graph", len(fv))
    obs = [int(c.variables is not phi.variables), int(c.cardinality is not phi.cardinality),
           int(c.values is not phi.values and not _shares_memory(c.values, phi.values)),
           int(c.state_names is not phi.state_names),
           int(all(c.state_names[k] is phi.state_names[k] for k in phi.state_names))]
    if obs != g:
        return bad("impl!=model:copy-sharing-graph", {"impl": obs, "model": g})
    return None


def _shares_memory(a, b):
    import numpy as np
    if hasattr(a, "data_ptr"):
        return a.data_ptr() == b.data_ptr() and a.numel() > 0
    return bool(np.shares_memory(a, b))


def permute_factor(U, F, perm):
    """same factor with variables listed in another order and the table transposed accordingly"""
    vs = [F["vars"][p] for p in perm]
    cards = [U["card"][v] for v in F["vars"]]
    ncards = [U["card"][v] for v in vs]
    vals = []
    for idx in itertools.product(*[range(c) for c in ncards]):
        old = [0] * len(perm)
        for k, p in enumerate(perm):
            old[p] = idx[k]
        vals.append(ravel(cards, old))
    out = {"vars": vs, "vals": [F["vals"][n] for n in vals], "den": F["den"]}
    if "exp" in F:
        out["exp"] = [F["exp"][n] for n in vals]
    return out


# ------------------------------------------------------------------ case runners
def nontrivial(case):
    U = case["U"]
    for who in ("f", "g"):
        if who in case:
            cs = [U["card"][v] for v in case[who]["vars"]]
            if len(cs) >= 2 and len(set(cs)) >= 2:
                return True
            if U["sstyle"] != "default" and cs:
                return True
    return False


def run_pair(case, drv):
    ctx = Ctx(case, drv)
    rng = random.Random(case["qseed"])
    U, F, G = case["U"], case["f"], case["g"]
    b = run_pair_ops(ctx, F, G, rng)
    if b:
        return b
    # n-ary folds
    H = gen_factor(rng, U, rng.sample(range(6), rng.randint(0, 3)))
    b = run_folds(ctx, [F, G, H], rng)
    if b:
        return b
    shared_f = [v for v in F["vars"] if v in G["vars"]]
    shared_g = [v for v in G["vars"] if v in F["vars"]]
    if (len(shared_f) >= 3 and shared_f != shared_g and len({U["card"][v] for v in shared_f}) >= 2):
        ctx.tags.append("swap-loop: >=3 shared vars, non-trivial permutation, unequal cardinalities")
    if any(U["card"][v] == 1 for v in F["vars"] + G["vars"]):
        ctx.tags.append("card1")
    if not F["vars"] or not G["vars"]:
        ctx.tags.append("zero-variable-operand")
    ctx.tags += ["rel=" + case["rel"], "backend=" + case["backend"], "states=" + U["sstyle"], "vars=" + U["vstyle"],
                 "nvars=%d+%d" % (len(F["vars"]), len(G["vars"]))]
    return ok(nontrivial=nontrivial(case), key=common.canon_key([case["kind"], U, F, G, case["backend"]]),
              tags=ctx.tags, note="%d ops" % ctx.nops)


def run_folds(ctx, Fs, rng):
    from pgmpy.factors import factor_product
    from pgmpy.factors.base import factor_sum_product
    U = ctx.U
    ws = [wire(U, F) for F in Fs]
    ts = [spec_table(U, F) for F in Fs]
    for n in (1, 2, 3):
        union = []
        for F in Fs[:n]:
            union += [v for v in F["vars"] if v not in union]
        spec = {}
        for k in all_named(U, union):
            x = Fr(1)
            for F, t in zip(Fs[:n], ts):
                x *= t[restrict(k, F["vars"])]
            spec[k] = x
        # intermediate orders: replay the fold to observe them (same process => same set order)
        objs = [build(U, F) for F in Fs[:n]]
        orders = []
        acc = objs[0]
        for o in objs[1:]:
            acc = acc * o
            orders.append(vids(U, acc))
        b = ctx.op("factor_product/%d" % n, Fs[:n], lambda o: factor_product(*o), "c04_factor_product",
                   lambda r: [ws[:n], orders], spec)
        if b:
            return b
    union = []
    for F in Fs:
        union += [v for v in F["vars"] if v not in union]
    if union:
        out = rng.sample(union, rng.randint(0, len(union)))
        spec = {}
        for k in all_named(U, union):
            x = Fr(1)
            for F, t in zip(Fs, ts):
                x *= t[restrict(k, F["vars"])]
            kk = restrict(k, out)
            spec[kk] = spec.get(kk, 0) + x
        N = lambda v: vname(U["vstyle"], v)
        used_types = {type(N(v)) for v in union}
        if len(used_types) > 1:
            # opt_einsum.contract documents that its labels must be hashable AND comparable: variable names of
            # mutually unorderable types are outside the domain of this one route (stated in RULE)
            try:
                factor_sum_product([N(v) for v in out], [build(U, F) for F in Fs])
                rejected = False
            except TypeError as e:
                if "comparable" not in str(e):
                    raise
                rejected = True
            if rejected:
                ctx.tags.append("factor_sum_product:unorderable-names-rejected-by-opt_einsum")
                return None
        b = ctx.op("factor_sum_product", Fs, lambda o: factor_sum_product([N(v) for v in out], o),
                   "c04_factor_sum_product", lambda r: [out, ws], spec, mutate=False)
        if b:
            return b
    return None


def run_perm(case, drv):
    """every axis order of both operands: canonical results must not change (each also checked against the model)"""
    ctx = Ctx(case, drv)
    rng = random.Random(case["qseed"])
    U, F, G = case["U"], case["f"], case["g"]
    pf = list(itertools.permutations(range(len(F["vars"]))))
    pg = list(itertools.permutations(range(len(G["vars"]))))
    combos = [(a, b) for a in pf for b in pg]
    if len(combos) > 48:
        combos = rng.sample(combos, 48)
    for a, b_ in combos:
        b = run_pair_ops(ctx, permute_factor(U, F, a), permute_factor(U, G, b_), rng, light=True)
        if b:
            return b
        # marginalize / maximize / reduce one variable under this axis order
        Fp = permute_factor(U, F, a)
        if Fp["vars"]:
            v = rng.choice(Fp["vars"])
            tf = spec_table(U, F)
            keep = [w for w in Fp["vars"] if w != v]
            fw = wire(U, Fp)
            nm = vname(U["vstyle"], v)
            spec, specm = {}, {}
            for k in all_named(U, F["vars"]):
                kk = restrict(k, keep)
                spec[kk] = spec.get(kk, 0) + tf[k]
                specm[kk] = max(specm.get(kk, tf[k]), tf[k])
            b = ctx.op("marginalize", [Fp], lambda o: o[0].marginalize([nm], inplace=False), "c04_marginalize",
                       lambda r: [fw, [v]], spec)
            if b:
                return b
            b = ctx.op("maximize", [Fp], lambda o: o[0].maximize([nm], inplace=False), "c04_maximize",
                       lambda r: [fw, [v]], specm)
            if b:
                return b
            z = rng.choice(U["states"][v])
            spec = {restrict(k, keep): tf[k] for k in all_named(U, F["vars"]) if (v, z) in k}
            b = ctx.op("reduce", [Fp], lambda o: o[0].reduce([(nm, pyname(z))], inplace=False), "c04_reduce",
                       lambda r: [fw, [[v, z]]], spec)
            if b:
                return b
    ctx.tags += ["all-axis-permutations", "rel=" + case["rel"], "backend=" + case["backend"],
                 "perm-combos=%d" % len(combos)]
    return ok(nontrivial=nontrivial(case), key=common.canon_key([case["kind"], U, F, G, case["backend"]]),
              tags=ctx.tags, note="%d ops" % ctx.nops)


def run_eq(case, drv):
    ctx = Ctx(case, drv)
    rng = random.Random(case["qseed"])
    U, F = case["U"], case["f"]
    n = len(F["vars"])
    variants = []
    # axis permuted
    perm = list(range(n))
    rng.shuffle(perm)
    variants.append(("axis-perm", U, permute_factor(U, F, perm), True))
    # state order permuted (same named table)
    U2 = dict(U)
    U2["states"] = [list(s) for s in U["states"]]
    U2["sstyle"] = U["sstyle"] if U["sstyle"] != "default" else "intperm"
    U1 = dict(U)
    U1["sstyle"] = U2["sstyle"]
    t = spec_table(U, F)
    for v in F["vars"]:
        rng.shuffle(U2["states"][v])
    cards = [U["card"][v] for v in F["vars"]]
    vals2 = []
    for idx in itertools.product(*[range(c) for c in cards]):
        key = frozenset((v, U2["states"][v][i]) for v, i in zip(F["vars"], idx))
        vals2.append(t[key] * F["den"])
    F2 = {"vars": F["vars"], "vals": [int(x) for x in vals2], "den": F["den"]}
    variants.append(("state-perm", U2, F2, True))
    variants.append(("state+axis-perm", U2, permute_factor(U2, F2, perm), True))
    # near tolerance: perturb one entry by 0.5*tol / 2*tol (tol = atol + rtol*|b|)
    if F["vals"]:
        i = rng.randrange(len(F["vals"]))
        for fac, expect in ((Fr(1, 2), True), (Fr(2), False), (Fr(-1, 2), True), (Fr(-2), False)):
            x = Fr(F["vals"][i], F["den"])
            tol = ATOL + RTOL * abs(x)
            # exact dyadic perturbation so that float is exact: round delta to 2^-40
            delta = Fr(int(fac * tol * 2**40), 2**40)
            Fp = {"vars": F["vars"], "vals": list(F["vals"]), "den": F["den"], "pert": [i, [delta.numerator, delta.denominator]]}
            variants.append(("tol%s" % fac, U, Fp, None))
    # different state set / different variable set / different value
    if F["vars"] and U["sstyle"] != "default":
        U3 = dict(U)
        U3["states"] = [list(s) for s in U["states"]]
        v = F["vars"][0]
        U3["states"][v][0] = 777
        variants.append(("other-state-set", U3, F, False))
    other_vars = [v for v in range(6) if v not in F["vars"]]
    if F["vars"] and other_vars:
        Fv = {"vars": [other_vars[0]] + F["vars"][1:], "vals": F["vals"], "den": F["den"]}
        if U["card"][other_vars[0]] == U["card"][F["vars"][0]]:
            variants.append(("other-var-set", U, Fv, False))
    if F["vals"]:
        Fd = {"vars": F["vars"], "vals": [F["vals"][0] + 1] + F["vals"][1:], "den": F["den"]}
        variants.append(("other-value", U, Fd, False))
    base_U = U1 if U["sstyle"] == "default" else U
    a = build_p(base_U, F)
    aw = wire_p(base_U, F)
    hv = [[v, hash(vname(U["vstyle"], v))] for v in range(6)]
    for tag, Ux, Fx, expect in variants:
        Ux = dict(Ux)
        if Ux["sstyle"] == "default" and base_U["sstyle"] != "default":
            Ux["sstyle"] = base_U["sstyle"]
        b = build_p(Ux, Fx)
        bw = wire_p(Ux, Fx)
        for (x, xw, y, yw, d) in ((a, aw, b, bw, "ab"), (b, bw, a, aw, "ba")):
            ctx.nops += 1
            sx, sy = snapshot(x), snapshot(y)
            got = bool(x == y)
            m = bool(drv.call("c04_eq", [ATOL, RTOL, xw, yw]))
            if got != m:
                return bad("impl!=model:eq", {"variant": tag, "dir": d, "impl": got, "model": m, "a": xw, "b": yw})
            if expect is not None and got != expect:
                return bad("impl!=spec:eq", {"variant": tag, "dir": d, "impl": got, "expected": expect, "a": xw, "b": yw})
            if tag.startswith("tol"):
                # exact spec: every entry within atol + rtol*|self|
                exp = all(abs(Fr(q) - Fr(p)) <= ATOL + RTOL * abs(Fr(p)) for p, q in zip(xw[2], yw[2]))
                if got != exp:
                    return bad("impl!=spec:eq-tolerance", {"variant": tag, "dir": d, "impl": got, "expected": exp})
            for A in ((0.0, 2.0 ** -10, 1.0) if d == "ab" else (0.0,)):
                g2 = bool(x.__eq__(y, atol=A))
                m2 = bool(drv.call("c04_eq", [Fr(A), RTOL, xw, yw]))
                if g2 != m2:
                    return bad("impl!=model:eq:atol=%g" % A, {"variant": tag, "dir": d, "impl": g2, "model": m2, "a": xw, "b": yw})
            if got != (not (x != y)):
                return bad("impl!=spec:ne", {"variant": tag})
            if (snapshot(x), snapshot(y)) != (sx, sy):
                return bad("operand-mutated:eq", {"variant": tag})
        ctx.tags.append("eq-variant=" + tag)
        # hash: equal hashes <=> equal model keys (same variable-hash table)
        ha, hb = hash(a), hash(b)
        ka, kb = drv.call("c04_hash", [hv, aw]), drv.call("c04_hash", [hv, bw])
        if (ha == hb) != (ka == kb):
            return bad("impl!=model:hash", {"variant": tag, "impl": ha == hb, "model": ka == kb, "a": aw, "b": bw})
        if (a == b) and (ha != hb):
            ctx.tags.append("eq-but-hash-differs(" + tag.split("-")[0] + ")")
    ctx.tags += ["backend=" + case["backend"], "states=" + U["sstyle"]]
    return ok(nontrivial=n >= 1, key=common.canon_key(["eq", U, F, case["backend"]]), tags=ctx.tags,
              note="%d ops" % ctx.nops)


def wire_p(U, F):
    w = wire(U, F)
    if "pert" in F:
        i, (nu, de) = F["pert"]
        w[2][i] = w[2][i] + Fr(nu, de)
    return w


def build_p(U, F):
    phi = build(U, F)
    if "pert" in F:
        i, (nu, de) = F["pert"]
        flat = [x / F["den"] for x in F["vals"]]
        flat[i] = float(Fr(F["vals"][i], F["den"]) + Fr(nu, de))
        # exactness of the float is needed: check
        if Fr(flat[i]) != Fr(F["vals"][i], F["den"]) + Fr(nu, de):
            raise RuntimeError("perturbed value is not an exact float")
        from pgmpy.factors.discrete import DiscreteFactor
        vs = list(phi.variables)
        phi = DiscreteFactor(vs, [int(c) for c in phi.cardinality], flat,
                             state_names={k: list(v) for k, v in phi.state_names.items()})
    return phi


def run_err(case, drv):
    ctx = Ctx(case, drv)
    rng = random.Random(case["qseed"])
    U, F = case["U"], case["f"]
    fw = wire(U, F)
    fv = F["vars"]
    N = lambda v: vname(U["vstyle"], v)
    absent = [v for v in range(6) if v not in fv][0]
    v0 = fv[0]
    tests = [
        ("marginalize-absent", lambda o: o[0].marginalize([N(absent)], inplace=False), "c04_marginalize", [fw, [absent]]),
        ("maximize-absent", lambda o: o[0].maximize([N(v0), N(absent)], inplace=False), "c04_maximize", [fw, [v0, absent]]),
        ("marginalize-duplicate", lambda o: o[0].marginalize([N(v0), N(v0)], inplace=False), "c04_marginalize", [fw, [v0, v0]]),
        ("maximize-duplicate", lambda o: o[0].maximize([N(v0), N(v0)], inplace=False), "c04_maximize", [fw, [v0, v0]]),
        ("reduce-absent", lambda o: o[0].reduce([(N(absent), 0)], inplace=False), "c04_reduce", [fw, [[absent, 0]]]),
        ("reduce-duplicate", lambda o: o[0].reduce([(N(v0), pyname(U["states"][v0][0])), (N(v0), pyname(U["states"][v0][-1]))], inplace=False),
         "c04_reduce", [fw, [[v0, U["states"][v0][0]], [v0, U["states"][v0][-1]]]]),
        ("reduce-out-of-range", lambda o: o[0].reduce([(N(v0), 50)], inplace=False, show_warnings=False), "c04_reduce", [fw, [[v0, 50]]]),
        ("reduce-unknown-str", lambda o: o[0].reduce([(N(v0), "s7777")], inplace=False, show_warnings=False), "c04_reduce", [fw, [[v0, STR0 + 7777]]]),
    ]
    st0 = U["states"][v0][0]
    later = [
        ("marginalize-later-absent", lambda o, ip: o[0].marginalize([N(v0), N(absent)], inplace=ip), "c04_marginalize", [fw, [v0, absent]]),
        ("maximize-later-absent", lambda o, ip: o[0].maximize([N(v0), N(absent)], inplace=ip), "c04_maximize", [fw, [v0, absent]]),
        ("reduce-later-absent", lambda o, ip: o[0].reduce([(N(v0), state_py(U, v0, st0)), (N(absent), 0)], inplace=ip), "c04_reduce",
         [fw, [[v0, st0], [absent, 0]]]),
    ]
    if len(fv) >= 2:
        v1 = fv[1]
        # a later bad STATE: out of place only (in place pgmpy has already rebound variables/cardinality: observation)
        tests.append(("reduce-later-bad-state", lambda o: o[0].reduce([(N(v0), state_py(U, v0, st0)), (N(v1), 77)], inplace=False, show_warnings=False),
                      "c04_reduce", [fw, [[v0, st0], [v1, 77]]]))
    for name, call, entry, args in later:
        tests.append((name, (lambda o, c_=call: c_(o, False)), entry, args))
        # in place: rejected before anything is touched => the object is exactly as before
        obj = build(U, F)
        sn0 = snapshot(obj)
        try:
            call([obj], True)
            return bad("impl!=model:%s:inplace-accepted" % name, {"f": F})
        except ValueError:
            pass
        ctx.nops += 1
        ctx.tags.append("op=" + name + "-inplace")
        if snapshot(obj) != sn0:
            return bad("object-changed-by-rejected-call:%s" % name, {"f": F})
    for name, call, entry, args in tests:
        b = ctx.op(name, [F], call, entry, lambda r, a=args: a, None)
        if b:
            return b
    # divide by a factor whose scope is not a subset
    G = gen_factor(rng, U, [absent])
    b = ctx.op("divide-not-subset", [F, G], lambda o: o[0].divide(o[1], inplace=False), "c04_divide",
               lambda r: [fw, wire(U, G), []], None)
    if b:
        return b
    # __init__ rejections
    from pgmpy.factors.discrete import DiscreteFactor
    cards = [U["card"][v] for v in fv]
    vals = [Fr(x, F["den"]) for x in F["vals"]]
    inits = [
        ("init-size", [fv, cards, vals + [Fr(1)], []]),
        ("init-cardlen", [fv, cards + [2], vals, []]),
        ("init-dupvar", [fv + [fv[0]], cards + [cards[0]], vals * cards[0], []]),
        ("init-dupstate", [fv, cards, vals, [[v, [5] * U["card"][v]] for v in fv]]),
    ]
    for name, w in inits:
        if name == "init-dupstate" and all(c == 1 for c in cards):
            continue
        ctx.nops += 1
        try:
            sn = {N(v): [pyname(z) for z in l] for v, l in w[3]}
            DiscreteFactor([N(v) for v in w[0]], w[1], [float(x) for x in w[2]], **({"state_names": sn} if sn else {}))
            got = ("ok", None)
        except ValueError:
            got = ("err", 1)
        st, m = drv.call_e("c04_mk", w)
        if st != got[0] or (st == "err" and m != got[1]):
            return bad("impl!=model:" + name, {"impl": got, "model": [st, m], "args": w})
        ctx.tags.append("error=" + name)
    return ok(nontrivial=True, key=common.canon_key(["err", U, F]), tags=ctx.tags + ["error-paths"], note="%d ops" % ctx.nops)


# ------------------------------------------------------------------ FactorSet / FactorDict
def fs_snapshot(fs):
    return sorted(repr(snapshot(phi)) for phi in fs.factors)


def fs_match(U, fs_factors, specs):
    """multiset comparison of the factors of a FactorSet with brute-force named tables"""
    got = [impl_canon(U, phi) for phi in fs_factors]
    if len(got) != len(specs):
        return {"what": "number of factors", "impl": len(got), "spec": len(specs)}
    used = set()
    for sp in specs:
        hit = None
        for j, g in enumerate(got):
            if j in used or set(g) != set(sp):
                continue
            if all(same_val(g[k], x) for k, x in sp.items()):
                hit = j
                break
        if hit is None:
            return {"what": "no factor with this table", "spec": sorted((sorted(k), str(x)) for k, x in sp.items())[:6]}
        used.add(hit)
    return None


def fs_shares(r, operands):
    """a DiscreteFactor object (or one of its mutable fields) of r that is also reachable from an operand"""
    for o in operands:
        for x in r.factors:
            for y in o.factors:
                if x is y or x.values is y.values or x.variables is y.variables or x.cardinality is y.cardinality \
                        or x.state_names is y.state_names:
                    return True
    return False


def fs_mutate(r, var_names):
    """mutate a FactorSet through everything the public API offers"""
    try:
        r.marginalize(var_names[:1], inplace=True)
    except Exception:
        pass
    for phi in list(r.get_factors()):
        phi.values += 1
        if len(phi.variables) > 0:
            phi.values[tuple([0] * len(phi.variables))] = 321.0
            phi.cardinality[0] = 55
            phi.state_names[phi.variables[0]] = ["zz"]
        phi.variables.append("__extra__")


def run_fset(case, drv):
    from pgmpy.factors import FactorSet, factorset_product, factorset_divide
    U = case["U"]
    rng = random.Random(case["qseed"])
    A, B, C = case["sets"]
    tags = ["fset", "backend=" + case["backend"]]
    nops = [0]
    N = lambda v: vname(U["vstyle"], v)
    allvars = sorted({v for fs in case["sets"] for F in fs for v in F["vars"]})

    def mkset(specs):
        return FactorSet(*[build(U, F) for F in specs])

    def spec_inv(F):
        return {k: xdiv(Fr(1), x) for k, x in spec_table(U, F).items()}

    def spec_marg(F, X):
        t = spec_table(U, F)
        keep = [v for v in F["vars"] if v not in X]
        out = {}
        for k, x in t.items():
            kk = restrict(k, keep)
            out[kk] = out.get(kk, 0) + x
        return out

    def check(name, operands_specs, call, spec_tables, inplace_target=None, dedupe=True):
        """operands_specs: list of spec lists; call(objs) -> result FactorSet (or None when in place on objs[0])"""
        objs = [mkset(sp) for sp in operands_specs]
        snaps = [fs_snapshot(o) for o in objs]
        r = call(objs)
        nops[0] += 1
        tags.append("op=FactorSet." + name)
        if inplace_target is not None:
            r = objs[0]
            rest, rest_snaps = objs[1:], snaps[1:]
        else:
            rest, rest_snaps = objs, snaps
            if r is None:
                return bad("impl!=spec:FactorSet.%s:returned-None" % name, {})
        # a FactorSet is a Python set: members that are equal (same scope, same table) collapse into one (D2 family,
        # recorded elsewhere); the brute force therefore de-duplicates exactly equal tables
        uniq = []
        for t in spec_tables:
            if not dedupe or t not in uniq:
                uniq.append(t)
        if len(uniq) != len(spec_tables):
            tags.append("equal-member-factors-collapse")
        d = fs_match(U, r.factors, uniq)
        if d:
            return bad("impl!=spec:FactorSet.%s" % name, {"diff": d, "sets": operands_specs})
        if [fs_snapshot(o) for o in rest] != rest_snaps:
            return bad("operand-mutated:FactorSet.%s" % name, {"sets": operands_specs})
        if fs_shares(r, rest):
            return bad("result-aliases-operand:FactorSet.%s" % name, {"sets": operands_specs})
        fs_mutate(r, [N(v) for v in allvars])
        if [fs_snapshot(o) for o in rest] != rest_snaps:
            return bad("operand-mutated-via-result:FactorSet.%s" % name, {"sets": operands_specs})
        return None

    tA = [spec_table(U, F) for F in A]
    tB = [spec_table(U, F) for F in B]
    tC = [spec_table(U, F) for F in C]
    iB = [spec_inv(F) for F in B]
    b = check("product", [A, B], lambda o: o[0].product(o[1], inplace=False), tA + tB)
    if b:
        return b
    b = check("product-inplace", [A, B], lambda o: o[0].product(o[1], inplace=True), tA + tB, inplace_target=0)
    if b:
        return b
    b = check("factorset_product", [A, B, C], lambda o: factorset_product(*o), tA + tB + tC)
    if b:
        return b
    b = check("divide", [A, B], lambda o: o[0].divide(o[1], inplace=False), tA + iB)
    if b:
        return b
    b = check("divide-inplace", [A, B], lambda o: o[0].divide(o[1], inplace=True), tA + iB, inplace_target=0)
    if b:
        return b
    b = check("factorset_divide", [A, B], lambda o: factorset_divide(o[0], o[1]), tA + iB)
    if b:
        return b
    for _ in range(2):
        X = rng.sample(allvars, rng.randint(1, min(3, len(allvars))))
        Xn = [N(v) for v in X]
        tm = [spec_marg(F, X) for F in A]
        b = check("marginalize", [A], lambda o: o[0].marginalize(list(Xn), inplace=False), tm)
        if b:
            return b
        b = check("marginalize-inplace", [A], lambda o: o[0].marginalize(list(Xn), inplace=True), tm, inplace_target=0, dedupe=False)  # members mutated in place: no re-insertion
        if b:
            return b
    b = check("copy", [A], lambda o: o[0].copy(), tA)
    if b:
        return b
    # session on ONE FactorSet object: add_factors / remove_factors / in-place product, divide, marginalize in sequence;
    # after every edit the set is the brute-force multiset of the CURRENT state
    sess = mkset(A)
    cur = list(tA)
    extra = [build(U, F) for F in B]
    sess.add_factors(*extra)
    cur = cur + tB
    d = fs_match(U, sess.get_factors(), [t for i, t in enumerate(cur) if t not in cur[:i]])
    if d:
        return bad("impl!=spec:FactorSet.session:add_factors", {"diff": d})
    sess.remove_factors(extra[0])
    cur = [t for t in cur if t != tB[0]] if tB[0] not in tA else cur
    d = fs_match(U, sess.get_factors(), [t for i, t in enumerate(cur) if t not in cur[:i]])
    if d:
        return bad("impl!=spec:FactorSet.session:remove_factors", {"diff": d})
    other = mkset(C)
    osnap = fs_snapshot(other)
    sess.product(other)                               # default inplace=True
    cur = cur + tC
    d = fs_match(U, sess.get_factors(), [t for i, t in enumerate(cur) if t not in cur[:i]])
    if d:
        return bad("impl!=spec:FactorSet.session:product", {"diff": d})
    Xs = rng.sample(allvars, 1)
    sess.marginalize([N(v) for v in Xs], inplace=True)
    cur_specs = []
    for fs_, ts_ in ((A, tA), (B, tB), (C, tC)):
        for F_, t_ in zip(fs_, ts_):
            if t_ in cur:
                cur_specs.append(spec_marg(F_, Xs))
    d = fs_match(U, sess.get_factors(), cur_specs)
    if d and len({frozenset(F_["vars"]) for fs_ in (A, B, C) for F_ in fs_}) == len(A) + len(B) + len(C):
        return bad("impl!=spec:FactorSet.session:marginalize", {"diff": d})
    if fs_snapshot(other) != osnap or fs_shares(sess, [other]):
        return bad("operand-mutated:FactorSet.session", {})
    nops[0] += 4
    tags.append("FactorSet.session")
    # constructor copies its arguments
    fobjs = [build(U, F) for F in A]
    fsn = [snapshot(x) for x in fobjs]
    s0 = FactorSet(*fobjs)
    if any(x is y for x in s0.factors for y in fobjs):
        return bad("result-aliases-operand:FactorSet.__init__", {})
    fs_mutate(s0, [N(v) for v in allvars])
    if [snapshot(x) for x in fobjs] != fsn:
        return bad("operand-mutated-via-result:FactorSet.__init__", {})
    # ---- FactorDict: const * fd, fd + number, fd + fd, fd - fd, dot, product (numpy only: its arithmetic is numpy's)
    if case["backend"] == "numpy":
        from pgmpy.factors import FactorDict
        keys = [tuple(N(v) for v in F["vars"]) for F in A]
        A2 = [gen_factor(rng, U, F["vars"]) for F in A]
        mk = lambda specs: FactorDict({k: build(U, F) for k, F in zip(keys, specs)})
        c = rng.choice([2, -3, 0.5])
        tA2 = [spec_table(U, F) for F in A2]
        fd_ops = [
            ("mul-const", lambda x, y: c * x, [{k: v * Fr(c) for k, v in t.items()} for t in tA]),
            ("add-number", lambda x, y: x + c, [{k: v + Fr(c) for k, v in t.items()} for t in tA]),
            ("add", lambda x, y: x + y, [{k: t[k] + t2[k] for k in t} for t, t2 in zip(tA, tA2)]),
            ("sub", lambda x, y: x - y, [{k: t[k] - t2[k] for k in t} for t, t2 in zip(tA, tA2)]),
        ]
        for name, call, spec in fd_ops:
            x, y = mk(A), mk(A2)
            sx = [snapshot(v) for v in x.values()] + [snapshot(v) for v in y.values()]
            r = call(x, y)
            nops[0] += 1
            tags.append("op=FactorDict." + name)
            d = fs_match(U, [r[k] for k in keys], spec) or (None if list(r.keys()) == keys else {"what": "keys"})
            if d:
                return bad("impl!=spec:FactorDict.%s" % name, {"diff": d})
            for phi in r.values():
                if any(phi is o or phi.values is o.values for o in list(x.values()) + list(y.values())):
                    return bad("result-aliases-operand:FactorDict.%s" % name, {})
                phi.values += 1
            if [snapshot(v) for v in x.values()] + [snapshot(v) for v in y.values()] != sx:
                return bad("operand-mutated-via-result:FactorDict.%s" % name, {})
        x, y = mk(A), mk(A2)
        dot = x.dot(y)
        exp = sum(sum(t[k] * t2[k] for k in t) for t, t2 in zip(tA, tA2))
        if not common.approx(float(dot), exp):
            return bad("impl!=spec:FactorDict.dot", {"impl": float(dot), "spec": str(exp)})
        pr = x.product()
        union = []
        for F in A:
            union += [v for v in F["vars"] if v not in union]
        spec = {}
        for k in all_named(U, union):
            v_ = Fr(1)
            for F, t in zip(A, tA):
                v_ *= t[restrict(k, F["vars"])]
            spec[k] = v_
        d = cmp_spec(U, pr, spec)
        if d:
            return bad("impl!=spec:FactorDict.product", {"diff": d})
        if set(map(id, x.get_factors())) != set(map(id, x.values())):
            return bad("impl!=spec:FactorDict.get_factors", {})
        nops[0] += 3
        tags += ["op=FactorDict.dot", "op=FactorDict.product"]
    return ok(nontrivial=len(A) + len(B) >= 3, key=common.canon_key(["fset", U, case["sets"], case["backend"]]), tags=tags,
              note="%d ops" % nops[0])


def run_fdict(case, drv):
    """FactorDict algebra on two dictionaries whose same-scope factors list their variables in different orders.
    dot is compared with the model (sum of the table of the modelled product) and with the brute-force
    sum over named assignments; + and - literally with the modelled sum, all with the brute force."""
    from pgmpy.factors import FactorDict
    U = case["U"]
    rng = random.Random(case["qseed"])
    D1, D2 = case["d1"], case["d2"]
    N = lambda v: vname(U["vstyle"], v)
    keys = [tuple(N(v) for v in F["vars"]) for F in D1]
    mk = lambda specs: FactorDict({k: build(U, F) for k, F in zip(keys, specs)})
    t1 = [spec_table(U, F) for F in D1]
    t2 = [spec_table(U, F) for F in D2]
    permuted = sum(1 for F, G in zip(D1, D2) if F["vars"] != G["vars"])
    tags = ["fdict", "backend=" + case["backend"], "cards=" + ("equal" if case["equal_cards"] else "unequal"),
            "permuted-cliques=%d" % permuted]
    nops = 0

    def snap(*dicts):
        return [snapshot(v) for dd in dicts for v in dd.values()]

    def guarded(name, fn):
        try:
            return None, fn()
        except (ValueError, KeyError, IndexError, TypeError, RuntimeError) as e:
            return bad("impl!=spec:FactorDict.%s:raised" % name, {"exc": repr(e)[:300], "d1": D1, "d2": D2}), None

    # ---- dot, both directions and with itself
    def model_dot(Fs, Gs):
        tot = Fr(0)
        for F, G in zip(Fs, Gs):
            m = drv.call("c04_product", [wire(U, F), wire(U, G), list(F["vars"])])
            tot += sum(mval(x) for x in m[4])
        return tot

    for name, (X, Y, tx, ty) in (("dot", (D1, D2, t1, t2)), ("dot-swapped", (D2, D1, t2, t1)), ("dot-self", (D2, D2, t2, t2))):
        x, y = mk(X), mk(Y)
        sn0 = snap(x, y)
        b, got = guarded(name, lambda: x.dot(y))
        if b:
            return b
        nops += 1
        tags.append("op=FactorDict." + name)
        spec = sum(sum(a[k] * c[k] for k in a) for a, c in zip(tx, ty))
        mod = model_dot(X, Y)
        if mod != spec:
            return bad("model!=spec:FactorDict.dot", {"model": str(mod), "spec": str(spec)})
        if not common.approx(float(got), spec):
            return bad("impl!=model:FactorDict.%s" % name, {"impl": float(got), "model": str(mod), "d1": X, "d2": Y})
        if snap(x, y) != sn0:
            return bad("operand-mutated:FactorDict.%s" % name, {})
    # ---- + and - of dictionaries (result literally = modelled DiscreteFactor.sum of the clique's two factors)
    c = rng.choice([2, -3, 0.5])
    for name, call, sgn in (("add", lambda x, y: x + y, 1), ("sub", lambda x, y: x - y, -1),
                            ("radd-swapped", lambda x, y: y + x, 1)):
        x, y = mk(D1), mk(D2)
        sn0 = snap(x, y)
        b, r = guarded(name, lambda: call(x, y))
        if b:
            return b
        nops += 1
        tags.append("op=FactorDict." + name)
        if list(r.keys()) != keys:
            return bad("impl!=spec:FactorDict.%s:keys" % name, {})
        for k, F, G, a, c2 in zip(keys, D1, D2, t1, t2):
            spec = {kk: a[kk] + sgn * c2[kk] for kk in a}
            d = cmp_spec(U, r[k], spec)
            if d:
                return bad("impl!=spec:FactorDict.%s" % name, {"diff": d, "f": F, "g": G})
            if sgn == 1:
                first, second = (F, G) if name == "add" else (G, F)
                m = drv.call("c04_sum", [wire(U, first), wire(U, second), [], []])
                d = cmp_literal(U, r[k], m)
                if d:
                    return bad("impl!=model:FactorDict.%s:%s" % (name, d["what"]), {"diff": d, "f": F, "g": G})
        ops_ = list(x.values()) + list(y.values())
        for phi in r.values():
            if any(phi is o or phi.values is o.values or phi.variables is o.variables for o in ops_):
                return bad("result-aliases-operand:FactorDict.%s" % name, {})
            phi.values += 1
            phi.variables.append("__extra__")
        if snap(x, y) != sn0:
            return bad("operand-mutated-via-result:FactorDict.%s" % name, {})
    # ---- scalars
    for name, call, f_ in (("mul-const", lambda x: x * c, lambda v: v * Fr(c)), ("rmul-const", lambda x: c * x, lambda v: v * Fr(c)),
                           ("add-number", lambda x: x + c, lambda v: v + Fr(c)), ("sub-number-via-add", lambda x: x + (-c), lambda v: v - Fr(c))):
        x = mk(D2)
        sn0 = snap(x)
        b, r = guarded(name, lambda: call(x))
        if b:
            return b
        nops += 1
        tags.append("op=FactorDict." + name)
        for k, G, a in zip(keys, D2, t2):
            d = cmp_spec(U, r[k], {kk: f_(v) for kk, v in a.items()})
            if d:
                return bad("impl!=spec:FactorDict.%s" % name, {"diff": d, "g": G})
        for phi in r.values():
            phi.values += 1
        if snap(x) != sn0:
            return bad("operand-mutated-via-result:FactorDict.%s" % name, {})
    # ---- bilinearity across operations: <d1, d1 - d2> = <d1, d1> - <d1, d2>
    x, y = mk(D1), mk(D2)
    b, lhs = guarded("dot-of-sub", lambda: x.dot(x - y))
    if b:
        return b
    rhs = sum(sum(a[k] * (a[k] - c2[k]) for k in a) for a, c2 in zip(t1, t2))
    if not common.approx(float(lhs), rhs):
        return bad("impl!=spec:FactorDict.dot-of-sub", {"impl": float(lhs), "spec": str(rhs)})
    nops += 1
    # ---- get_factors / product
    if set(map(id, y.get_factors())) != set(map(id, y.values())):
        return bad("impl!=spec:FactorDict.get_factors", {})
    # ---- from_dataframe: empirical counts of each marginal; the index is never data; column order / dtypes
    if case["backend"] == "numpy" and case["qseed"] % 3 == 0:
        import pandas as pd
        cols = sorted({v for F in D1 for v in F["vars"]})
        nrows = rng.randint(5, 25)
        rows = [[rng.randrange(U["card"][v]) for v in cols] for _ in range(nrows)]
        colnames = {v: NAME_TABLES["substr"][v] for v in cols}          # x1 / x10 / x ...: one a prefix of another
        data = {}
        dstyle = {}
        for j, v in enumerate(cols):
            col = [r_[j] for r_ in rows]
            st = rng.choice(["int", "str", "bool", "cat-unused", "cat-int-unused"])
            if st == "bool" and U["card"][v] > 2:
                st = "int"
            dstyle[v] = st
            lab = {"int": lambda i: i, "str": lambda i: "L%d" % (9 - i), "bool": lambda i: bool(i),
                   "cat-unused": lambda i: "L%d" % (9 - i), "cat-int-unused": lambda i: i}[st]
            vals_ = [lab(i) for i in col]
            if st == "cat-unused":
                vals_ = pd.Categorical(vals_, categories=sorted(set(vals_)) + ["unused"])
            elif st == "cat-int-unused":
                vals_ = pd.Categorical(vals_, categories=list(range(U["card"][v] + 2)))
            data[colnames[v]] = vals_
        corder = list(cols) + []
        rng.shuffle(corder)
        df = pd.DataFrame({colnames[v]: data[colnames[v]] for v in corder})
        df["unused_extra_column"] = 7
        istyle = rng.choice(["range", "shifted", "permuted", "gapped", "duplicate", "string"])
        if istyle == "shifted":
            df.index = range(100, 100 + nrows)
        elif istyle == "permuted":
            df = df.iloc[rng.sample(range(nrows), nrows)]
        elif istyle == "gapped":
            df.index = [3 * i + 1 for i in range(nrows)]
        elif istyle == "duplicate":
            df.index = [i // 2 for i in range(nrows)]
        elif istyle == "string":
            df.index = ["r%d" % (nrows - i) for i in range(nrows)]
        df_before = df.copy(deep=True)
        margs = [tuple(colnames[v] for v in F["vars"]) for F in D2]
        margs_before = list(margs)
        b, fd = guarded("from_dataframe", lambda: FactorDict.from_dataframe(df, margs))
        if b:
            return b
        nops += 1
        tags += ["op=FactorDict.from_dataframe", "df-index=" + istyle] + ["df-dtype=" + x for x in sorted(set(dstyle.values()))]
        if not df.equals(df_before) or list(df.index) != list(df_before.index) or margs != margs_before:
            return bad("argument-mutated:FactorDict.from_dataframe", {})
        inv = {colnames[v]: v for v in cols}
        rowlist = df_before.to_dict("records")
        for mg, F in zip(margs, D2):
            phi = fd[mg]
            a = npvals(phi)
            if list(phi.variables) != list(mg):
                return bad("impl!=spec:FactorDict.from_dataframe:scope", {"impl": list(phi.variables), "marginal": mg})
            for idx in itertools.product(*[range(d_) for d_ in a.shape]):
                names = {v: phi.state_names[v][i] for v, i in zip(phi.variables, idx)}
                cnt = sum(1 for rw in rowlist if all(rw[v] == names[v] for v in names))
                if float(a[idx]) != cnt:
                    return bad("impl!=spec:FactorDict.from_dataframe", {"marginal": mg, "at": str(names), "impl": float(a[idx]),
                                                                       "count": cnt, "index": istyle, "dtypes": dstyle})
            if float(a.sum()) != nrows:
                return bad("impl!=spec:FactorDict.from_dataframe:total", {"impl": float(a.sum()), "rows": nrows})
    return ok(nontrivial=permuted >= 1, key=common.canon_key(["fdict", U, D1, D2, case["backend"]]), tags=tags,
              note="%d ops" % nops)


# ------------------------------------------------------------------ A/C/J: session on one object
def build_from_wire(U, w):
    from pgmpy.factors.discrete import DiscreteFactor
    N = lambda v: vname(U["vstyle"], v)
    vals = [float(x) for x in w[2]]
    if not w[3]:
        return DiscreteFactor([N(v) for v in w[0]], w[1], vals)
    return DiscreteFactor([N(v) for v in w[0]], w[1], vals,
                          state_names={N(v): [state_py(U, v, z) for z in l] for v, l in w[3]})


def wire_of_model(m):
    """model result [vars card states shape data] -> constructor wire [vars card values states]"""
    data = []
    for x in m[4]:
        y = mval(x)
        if isinstance(y, str):
            return None
        data.append(y)
    return [m[0], m[1], data, m[2]]


def run_session(case, drv):
    import copy as _c
    U, F = case["U"], case["f"]
    N = lambda v: vname(U["vstyle"], v)
    phi = build(U, F)
    cur = drv.call("c04_mk", wire(U, F))
    cur = wire_of_model(cur)
    tags = ["session", "backend=" + case["backend"], "vars=" + U["vstyle"], "states=" + U["sstyle"]]
    hv = [[v, hash(N(v))] for v in range(6)]
    prev_hash, prev_key = hash(phi), drv.call("c04_hash", [hv, cur])
    prev_wire = cur
    nops = 0
    for step in case["steps"]:
        kind = step[0]
        entry, args, others = None, None, []
        if kind in ("product", "sum", "divide"):
            G = step[1]
            g = build(U, G)
            gsnap = snapshot(g)
            others = [(g, gsnap)]
            if kind == "divide" and not set(G["vars"]) <= set(cur[0]):
                continue
            {"product": phi.product, "sum": phi.sum, "divide": phi.divide}[kind](g, inplace=True)
            pv = [vid(U["vstyle"], v) for v in phi.variables]
            if kind == "product":
                entry, args = "c04_product", [cur, wire(U, G), pv]
            elif kind == "sum":
                entry, args = "c04_sum", [cur, wire(U, G), pv[len(cur[0]):], sorted(v for v in pv if v not in G["vars"])]
            else:
                entry, args = "c04_divide", [cur, wire(U, G), sorted(v for v in cur[0] if v not in G["vars"])]
        elif kind in ("marginalize", "maximize"):
            X = [v for v in step[1] if v in cur[0]]
            arg = [N(v) for v in X]
            getattr(phi, kind)(arg, inplace=True)
            entry, args = "c04_" + kind, [cur, X]
        elif kind == "reduce":
            ev = [p for p in step[1] if p[0] in cur[0]]
            phi.reduce([(N(v), state_py(U, v, z)) for v, z in ev], inplace=True)
            entry, args = "c04_reduce", [cur, ev]
        elif kind == "normalize":
            if sum(cur[2]) == 0:
                continue
            phi.normalize(inplace=True)
            entry, args = "c04_normalize", cur
        elif kind == "scale":
            phi.product(step[1], inplace=True)
            entry, args = "c04_product_scalar", [cur, Fr(step[1])]
        elif kind == "shift":
            phi.sum(step[1], inplace=True)
            entry, args = "c04_sum_scalar", [cur, Fr(step[1])]
        elif kind == "set_value":
            if U["vstyle"] not in STR_VSTYLES or len(step[1]) < len(cur[0]):
                continue
            idx = step[1][:len(cur[0])]
            idx = [i % c for i, c in zip(idx, cur[1])]
            phi.set_value(float(step[2]), **{N(v): i for v, i in zip(cur[0], idx)})
            entry, args = "c04_set_value", [cur, Fr(step[2]), [[v, i] for v, i in zip(cur[0], idx)]]
            if U["sstyle"] != "default" and any(isinstance(state_py(U, v, z), int) and not isinstance(state_py(U, v, z), bool)
                                                  for v in cur[0] for z in U["states"][v]):
                pass
        else:  # observe: nothing below may change the object
            before = snapshot(phi)
            str(phi), repr(phi), phi.scope(), phi.get_cardinality(list(phi.variables)), phi.copy(), hash(phi)
            phi == phi.copy()
            phi.identity_factor()
            if len(phi.variables) and case["backend"] == "numpy" and sum(cur[2]) > 0 and min(cur[2]) >= 0:
                df = phi.sample(3)
                if list(df.columns) != list(phi.variables):
                    return bad("impl!=spec:sample-columns", {"impl": list(df.columns)})
            if snapshot(phi) != before:
                return bad("operand-mutated:observe", {"step": step})
            tags.append("step=observe")
            continue
        nops += 1
        tags.append("step=" + kind)
        m = drv.call_e(entry, args)
        if m[0] != "ok":
            return bad("impl!=model:session:%s:model-error" % kind, {"model": m, "step": step, "cur": cur})
        m = m[1]
        if kind == "set_value" or kind == "normalize" or kind == "divide" or True:
            d = cmp_literal(U, phi, m)
            if d:
                return bad("impl!=model:session:%s:%s" % (kind, d["what"]), {"diff": d, "step": step, "steps": case["steps"], "f": F})
        for g, gsnap in others:
            if snapshot(g) != gsnap:
                return bad("operand-mutated:session:%s" % kind, {"step": step})
            if g.values is phi.values or g.variables is phi.variables or g.state_names is phi.state_names:
                return bad("result-aliases-operand:session:%s" % kind, {"step": step})
        nxt = wire_of_model(m)
        if nxt is None:
            break
        cur = nxt
        # the object in its CURRENT state behaves like a freshly built one
        fresh = build_from_wire(U, cur)
        if not (phi == fresh and fresh == phi):
            return bad("impl!=spec:session:not-equal-to-fresh-object", {"step": step, "cur": cur})
        h, k = hash(phi), drv.call("c04_hash", [hv, cur])
        visibly = (prev_wire is None or prev_wire[0] != cur[0] or prev_wire[1] != cur[1] or len(prev_wire[2]) != len(cur[2])
                   or any(abs(x - y) > Fr(1, 10**12) * max(abs(x), abs(y)) for x, y in zip(prev_wire[2], cur[2])))
        prev_wire = cur
        if k != prev_key and h == prev_hash and visibly:   # a (visibly, beyond float rounding) changed object must not keep its old hash
            return bad("impl!=model:session:hash-after-%s" % kind, {"impl_same": True, "model_same": False})
        prev_hash, prev_key = h, k
    return ok(nontrivial=nops >= 3, key=common.canon_key(["session", U, F, case["steps"], case["backend"]]), tags=tags,
              note="%d ops" % nops)


# ------------------------------------------------------------------ B/C: argument purity, reuse, result independence
def run_purity(case, drv):
    import copy as _c
    import numpy as np
    from pgmpy.factors.discrete import DiscreteFactor
    U, F, F2, G = case["U"], case["f"], case["f2"], case["g"]
    rng = random.Random(case["qseed"])
    N = lambda v: vname(U["vstyle"], v)
    torch_ = case["backend"] == "torch"
    tags = ["purity", "backend=" + case["backend"]]
    nops = 0
    fw, f2w, gw = wire(U, F), wire(U, F2), wire(U, G)
    mF = drv.call("c04_mk", fw)
    fv = F["vars"]
    cards = [U["card"][v] for v in fv]
    flat = [float(fval(F, n)) for n in range(len(F["vals"]))]
    sn = None if U["sstyle"] == "default" else {N(v): [state_py(U, v, z) for z in U["states"][v]] for v in sn_order(U, F)}

    def deep(x):
        if hasattr(x, "detach"):
            return ("tensor", x.detach().cpu().numpy().copy().tolist())
        if isinstance(x, np.ndarray):
            return ("nd", x.tolist(), x.dtype.str, x.shape)
        if isinstance(x, dict):
            return ("dict", [(repr(k), deep(v)) for k, v in x.items()])
        if isinstance(x, (list, tuple)):
            return (type(x).__name__, [deep(v) for v in x])
        return repr(x)

    def wreck(phi):
        phi.values += 1
        if len(phi.variables):
            phi.cardinality[0] = 99
            k0 = phi.variables[0]
            if isinstance(phi.state_names.get(k0), list):
                phi.state_names[k0] = ["zz"]
            phi.variables[0] = "__w__"
        phi.variables.append("__extra__")
        phi.state_names["__new__"] = [1]

    # ---- constructor arguments in every container form
    forms = ["list", "tuple", "ndarray-flat", "ndarray-shaped", "other.values", "reused-buffer"]
    if torch_:
        forms.append("torch-tensor")
    for form in forms:
        a_vars = [N(v) for v in fv] if rng.random() < 0.7 else tuple(N(v) for v in fv)
        a_card = list(cards) if rng.random() < 0.5 else np.array(cards)
        other = None
        if form == "list":
            a_vals = list(flat)
        elif form == "tuple":
            a_vals = tuple(flat)
        elif form == "ndarray-flat":
            a_vals = np.ascontiguousarray(np.array(flat, dtype=np.float64))
        elif form == "ndarray-shaped":
            a_vals = np.array(flat, dtype=np.float64).reshape(cards)
        elif form == "other.values":
            other = build(U, F)
            a_vals = other.values
        elif form == "reused-buffer":
            a_vals = np.array(flat, dtype=np.float64)
        else:
            import torch
            a_vals = torch.tensor(flat, dtype=torch.float64)
        a_sn = None if sn is None else {k: list(v) for k, v in sn.items()}
        args = [a_vars, a_card, a_vals, a_sn]
        before = deep(args)
        phi = DiscreteFactor(a_vars, a_card, a_vals, **({} if a_sn is None else {"state_names": a_sn}))
        nops += 1
        tags.append("ctor-values=" + form)
        d = cmp_literal(U, phi, mF)
        if d:
            return bad("impl!=model:constructor:%s:%s" % (form, d["what"]), {"diff": d, "f": F})
        if deep(args) != before:
            return bad("argument-mutated:constructor:%s" % form, {"f": F})
        if phi.variables is a_vars or phi.cardinality is a_card or phi.values is a_vals or (a_sn is not None and phi.state_names is a_sn):
            return bad("result-aliases-argument:constructor:%s" % form, {"f": F})
        snap_phi = snapshot(phi)
        if form == "reused-buffer":
            a_vals += 7.0                      # the caller goes on using its buffer
            a_vals[...] = 0.0
            if snapshot(phi) != snap_phi:
                return bad("result-aliases-argument:constructor:reused-buffer", {"f": F})
            a_vals[...] = np.array(flat)
            before = deep(args)
        # second object from the SAME argument objects, then wreck the first
        phi_b = DiscreteFactor(a_vars, a_card, a_vals, **({} if a_sn is None else {"state_names": a_sn}))
        wreck(phi)
        if deep(args) != before:
            return bad("argument-mutated-via-result:constructor:%s" % form, {"f": F})
        if other is not None and cmp_literal(U, other, mF):
            return bad("operand-mutated-via-result:constructor:other.values", {"f": F})
        d = cmp_literal(U, phi_b, mF)
        if d:
            return bad("impl!=model:constructor:%s:second-object:%s" % (form, d["what"]), {"diff": d, "f": F})
    # ---- method arguments: unchanged, reusable on another factor; successive results independent
    X = rng.sample(fv, rng.randint(0, len(fv)))
    ev = [(v, rng.choice(U["states"][v])) for v in rng.sample(fv, rng.randint(0, len(fv)))]
    ev_names = [(N(v), state_py(U, v, z)) for v, z in ev]
    nonneg = all(x >= 0 for x in F["vals"] + F2["vals"])
    size = _prod(cards)
    methods = [
        ("marginalize", lambda p, a: p.marginalize(a, inplace=False), lambda: [N(v) for v in X], "c04_marginalize", lambda w: [w, X]),
        ("marginalize-tuple", lambda p, a: p.marginalize(a, inplace=False), lambda: tuple(N(v) for v in X), "c04_marginalize", lambda w: [w, X]),
        ("reduce", lambda p, a: p.reduce(a, inplace=False), lambda: list(ev_names), "c04_reduce", lambda w: [w, [list(p_) for p_ in ev]]),
        ("product", lambda p, a: p.product(a, inplace=False), lambda: build(U, G), "c04_product", None),
        ("sum", lambda p, a: p.sum(a, inplace=False), lambda: build(U, G), "c04_sum", None),
        ("copy", lambda p, a: p.copy(), lambda: None, "c04_mk", lambda w: w),
        ("identity_factor", lambda p, a: p.identity_factor(), lambda: None, "c04_identity", lambda w: w),
    ]
    if True:
        methods.append(("maximize", lambda p, a: p.maximize(a, inplace=False), lambda: [N(v) for v in X], "c04_maximize", lambda w: [w, X]))
    for name, call, mkarg, entry, margs in methods:
        arg = mkarg()
        before = snapshot(arg) if hasattr(arg, "variables") else deep(arg)
        after = lambda: snapshot(arg) if hasattr(arg, "variables") else deep(arg)
        p1, p2 = build(U, F), build(U, F2)
        s1, s2 = snapshot(p1), snapshot(p2)
        r1 = call(p1, arg)
        nops += 1
        tags.append("method=" + name)

        def model_for(w, r):
            if name == "product":
                return drv.call("c04_product", [w, gw, vids(U, r)])
            if name == "sum":
                return drv.call("c04_sum", [w, gw, vids(U, r)[len(fv):], sorted(v for v in vids(U, r) if v not in G["vars"])])
            return drv.call(entry, margs(w))

        d = cmp_literal(U, r1, model_for(fw, r1))
        if d:
            return bad("impl!=model:purity:%s:%s" % (name, d["what"]), {"diff": d, "f": F})
        if after() != before:
            return bad("argument-mutated:%s" % name, {"f": F, "arg": str(before)[:200]})
        if hasattr(arg, "variables") and (r1.values is arg.values or r1.variables is arg.variables or r1.state_names is arg.state_names):
            return bad("result-aliases-argument:%s" % name, {"f": F})
        wreck(r1)
        if after() != before or snapshot(p1) != s1:
            return bad("argument-mutated-via-result:%s" % name, {"f": F})
        # the same call again: a distinct, unaffected result
        r1b = call(p1, arg)
        if r1b is r1 or r1b.values is r1.values or r1b.variables is r1.variables:
            return bad("successive-results-share:%s" % name, {"f": F})
        d = cmp_literal(U, r1b, model_for(fw, r1b))
        if d:
            return bad("impl!=model:purity:%s:second-result:%s" % (name, d["what"]), {"diff": d, "f": F})
        # the same argument object on another factor
        r2 = call(p2, arg)
        d = cmp_literal(U, r2, model_for(f2w, r2))
        if d:
            return bad("impl!=model:purity:%s:reused-argument:%s" % (name, d["what"]), {"diff": d, "f": F2})
        if after() != before or snapshot(p2) != s2:
            return bad("argument-mutated:%s:reuse" % name, {"f": F2})
    # every documented container type for a "list, array-like" of variables (one-shot iterators are not array-like)
    import pandas as pd
    conts = [("tuple", tuple), ("set", set), ("frozenset", frozenset), ("dict-keys", lambda l: dict.fromkeys(l).keys())]
    if U["vstyle"] in ("str", "substr", "int", "smallint"):
        conts += [("ndarray", np.array), ("pandas-Index", pd.Index)]
    mM = drv.call("c04_marginalize", [fw, X])
    for cn, mkc in conts:
        arg = mkc([N(v) for v in X])
        p1 = build(U, F)
        try:
            r = p1.marginalize(arg, inplace=False)
            r2 = p1.maximize(mkc([N(v) for v in X]), inplace=False)
            gc = p1.get_cardinality(mkc([N(v) for v in X]))
        except (ValueError, KeyError, IndexError, TypeError) as e:
            return bad("impl!=model:container:%s:raised" % cn, {"exc": repr(e)[:200], "f": F, "X": X})
        nops += 1
        tags.append("container=" + cn)
        ref_m = build(U, F).marginalize([N(v) for v in X], inplace=False)
        ref_x = build(U, F).maximize([N(v) for v in X], inplace=False)
        if impl_canon(U, r) != impl_canon(U, ref_m) or impl_canon(U, r2) != impl_canon(U, ref_x) or cmp_literal(U, ref_m, mM):
            return bad("impl!=model:container:%s" % cn, {"f": F, "X": X})
        if sorted(vid(U["vstyle"], k.item() if hasattr(k, "item") else k) for k in gc) != sorted(set(X)):
            return bad("impl!=model:container:%s:get_cardinality" % cn, {"f": F, "X": X})
    # get_cardinality / assignment arguments and results
    p1 = build(U, F)
    s1 = snapshot(p1)
    q = [N(v) for v in X]
    qb = deep(q)
    gc = p1.get_cardinality(q)
    gc[N(fv[0])] = 1234
    idxs = np.array([rng.randrange(size) for _ in range(3)])
    ib = deep(idxs)
    asg = p1.assignment(idxs if not torch_ else idxs.tolist())
    for row in asg:
        row.append(("x", 0))
    if deep(q) != qb or deep(idxs) != ib or snapshot(p1) != s1:
        return bad("argument-mutated:get_cardinality/assignment", {"f": F})
    sc = p1.scope()
    if [vid(U["vstyle"], v) for v in sc] != fv:
        return bad("impl!=model:scope", {})
    return ok(nontrivial=len(fv) >= 2, key=common.canon_key(["purity", U, F, F2, G, case["backend"]]), tags=tags,
              note="%d ops" % nops)


# ------------------------------------------------------------------ G: >= 9 variables in one factor
def run_big(case, drv):
    ctx = Ctx(case, drv)
    rng = random.Random(case["qseed"])
    U, F, G = case["U"], case["f"], case["g"]
    N = lambda v: vname(U["vstyle"], v)
    fw = wire(U, F)
    fv = F["vars"]
    tf = spec_table(U, F)
    if set(G["vars"]) <= set(fv) or _prod(U["card"][v] for v in set(fv) | set(G["vars"])) <= 1600:
        b = run_pair_ops(ctx, F, G, rng, light=True)
        if b:
            return b
    for _ in range(2):
        X = rng.sample(fv, rng.randint(1, min(4, len(fv))))
        keep = [v for v in fv if v not in X]
        spec, specm = {}, {}
        for k, x in tf.items():
            kk = restrict(k, keep)
            spec[kk] = spec.get(kk, 0) + x
            specm[kk] = max(specm.get(kk, x), x)
        Xn = [N(v) for v in X]
        b = ctx.op("marginalize", [F], lambda o: o[0].marginalize(list(Xn), inplace=False), "c04_marginalize",
                   lambda r: [fw, X], spec, inplace_call=lambda o: o[0].marginalize(list(Xn), inplace=True))
        if b:
            return b
        b = ctx.op("maximize", [F], lambda o: o[0].maximize(list(Xn), inplace=False), "c04_maximize",
                   lambda r: [fw, X], specm)
        if b:
            return b
        ev = [(v, rng.choice(U["states"][v])) for v in X]
        evs = set(ev)
        spec = {restrict(k, keep): x for k, x in tf.items() if evs <= k}
        evn = [(N(v), state_py(U, v, z)) for v, z in ev]
        b = ctx.op("reduce", [F], lambda o: o[0].reduce(list(evn), inplace=False), "c04_reduce",
                   lambda r: [fw, [list(p) for p in ev]], spec)
        if b:
            return b
    # == / hash against an axis-permuted copy
    perm = list(range(len(fv)))
    rng.shuffle(perm)
    Fp = permute_factor(U, F, perm)
    a, bb = build(U, F), build(U, Fp)
    aw, bw = fw, wire(U, Fp)
    hv = [[v, hash(N(v))] for v in range(12)]
    for (x, xw, y, yw) in ((a, aw, bb, bw), (bb, bw, a, aw)):
        got = bool(x == y)
        m = bool(drv.call("c04_eq", [ATOL, RTOL, xw, yw]))
        if got != m or not got:
            return bad("impl!=model:eq:big", {"impl": got, "model": m})
    ka, kb = drv.call("c04_hash", [hv, aw]), drv.call("c04_hash", [hv, bw])
    if (hash(a) == hash(bb)) != (ka == kb):
        return bad("impl!=model:hash:big", {"impl": hash(a) == hash(bb), "model": ka == kb})
    ctx.tags += [">256-states" if case.get("rel") == "wide" else ">=9-variables", "nvars=%d+%d" % (len(fv), len(G["vars"])), "backend=" + case["backend"], "vars=" + U["vstyle"]]
    return ok(nontrivial=True, key=common.canon_key(["big", U, F, G, case["backend"]]), tags=ctx.tags, note="%d ops" % ctx.nops)


# ------------------------------------------------------------------ H: magnitudes (relative comparison)
def run_mag(case, drv):
    ctx = Ctx(case, drv)
    rng = random.Random(case["qseed"])
    U, F, G = case["U"], case["f"], case["g"]
    b = run_pair_ops(ctx, F, G, rng)
    if b:
        return b
    # == on tables of extreme magnitude: scaled by (1 + 2^-20) (inside rtol) and (1 + 2^-10) (outside)
    a = build(U, F)
    aw = wire(U, F)
    for sh, name in ((20, "inside"), (10, "outside")):
        Fs = dict(F)
        Fs["vals"] = [x * (2**sh + 1) for x in F["vals"]]
        Fs["exp"] = [e - sh for e in F["exp"]]
        y, yw = build(U, Fs), wire(U, Fs)
        for (p, pw, q, qw) in ((a, aw, y, yw), (y, yw, a, aw)):
            got = bool(p == q)
            m = bool(drv.call("c04_eq", [ATOL, RTOL, pw, qw]))
            if got != m:
                return bad("impl!=model:eq:magnitude-" + name, {"impl": got, "model": m, "f": F})
    lo, hi = min(F["exp"] + G["exp"] + [0]), max(F["exp"] + G["exp"] + [0])
    ctx.tags += ["magnitudes", "exp-range=%d..%d" % (lo // 100 * 100, hi // 100 * 100 + 99)]
    return ok(nontrivial=True, key=common.canon_key(["mag", U, F, G]), tags=ctx.tags, note="%d ops" % ctx.nops)


# ------------------------------------------------------------------ aliasing and multiplicity
def run_alias(case, drv):
    from pgmpy.factors import factor_product, FactorDict
    from pgmpy.factors.base import factor_sum_product
    U, F, G = case["U"], case["f"], case["g"]
    rng = random.Random(case["qseed"])
    N = lambda v: vname(U["vstyle"], v)
    fv = F["vars"]
    fw, gw = wire(U, F), wire(U, G)
    tf, tg = spec_table(U, F), spec_table(U, G)
    tags = ["alias", "backend=" + case["backend"], "vars=" + U["vstyle"], "nvars=%d" % len(fv),
            "cards=" + ("equal" if len({U["card"][v] for v in fv}) == 1 else "unequal")]
    nops = 0
    probe = build(U, F)
    if [vid(U["vstyle"], v) for v in set(probe.variables)] != fv:
        tags.append("variable-order != set-iteration-order")
    # ---- the same object on both sides
    specs = {"product": {k: x * x for k, x in tf.items()}, "sum": {k: x + x for k, x in tf.items()},
             "divide": {k: xdiv(x, x) for k, x in tf.items()}}

    def model_self(op, r):
        if op == "product":
            return drv.call("c04_product", [fw, fw, vids(U, r)])
        if op == "sum":
            return drv.call("c04_sum", [fw, fw, [], []])
        return drv.call("c04_divide", [fw, fw, []])

    for op in ("product", "sum", "divide"):
        variants = [("method", lambda p: getattr(p, op)(p, inplace=False)),
                    ("operator", {"product": lambda p: p * p, "sum": lambda p: p + p, "divide": lambda p: p / p}[op])]
        for vn, call in variants:
            phi = build(U, F)
            s0 = snapshot(phi)
            try:
                r = call(phi)
            except (ValueError, KeyError, IndexError, TypeError, RuntimeError) as e:
                return bad("impl!=model:self-%s:%s:raised" % (op, vn), {"exc": repr(e)[:200], "f": F})
            nops += 1
            tags.append("op=self-%s-%s" % (op, vn))
            d = cmp_literal(U, r, model_self(op, r)) or cmp_spec(U, r, specs[op])
            if d:
                return bad("impl!=model:self-%s:%s:%s" % (op, vn, d["what"]), {"diff": d, "f": F})
            if snapshot(phi) != s0:
                return bad("operand-mutated:self-%s:%s" % (op, vn), {"f": F})
            if r is phi or r.values is phi.values or r.variables is phi.variables:
                return bad("result-aliases-operand:self-%s:%s" % (op, vn), {"f": F})
        # in place: phi.op(phi, inplace=True)
        phi = build(U, F)
        try:
            getattr(phi, op)(phi, inplace=True)
        except (ValueError, KeyError, IndexError, TypeError, RuntimeError) as e:
            return bad("impl!=model:self-%s:inplace:raised" % op, {"exc": repr(e)[:200], "f": F})
        nops += 1
        tags.append("op=self-%s-inplace" % op)
        d = cmp_literal(U, phi, model_self(op, phi)) or cmp_spec(U, phi, specs[op])
        if d:
            return bad("impl!=model:self-%s:inplace:%s" % (op, d["what"]), {"diff": d, "f": F})
        # a second in-place round on the already squared / doubled object (session on the aliased object)
        if op != "divide":
            cur = wire_of_model(model_self(op, phi))
            getattr(phi, op)(phi, inplace=True)
            m2 = (drv.call("c04_product", [cur, cur, vids(U, phi)]) if op == "product" else drv.call("c04_sum", [cur, cur, [], []]))
            d = cmp_literal(U, phi, m2)
            if d:
                return bad("impl!=model:self-%s:inplace-twice:%s" % (op, d["what"]), {"diff": d, "f": F})
    # ---- lists with value-equal factors: multiplicity counts
    perm = list(range(len(fv)))
    while perm == list(range(len(fv))):
        rng.shuffle(perm)
    Fp = permute_factor(U, F, perm)
    fpw = wire(U, Fp)
    union_fg = fv + [v for v in G["vars"] if v not in fv]
    lists = [
        ("same-object-twice", lambda f, c, p, g: [f, f], [fw, fw], [tf, tf], fv),
        ("equal-copy", lambda f, c, p, g: [f, c], [fw, fw], [tf, tf], fv),
        ("equal-other-axis-order", lambda f, c, p, g: [f, p], [fw, fpw], [tf, tf], fv),
        ("f-g-f", lambda f, c, p, g: [f, g, f], [fw, gw, fw], [tf, tg, tf], union_fg),
        ("three-equal", lambda f, c, p, g: [f, c, p], [fw, fw, fpw], [tf, tf, tf], fv),
    ]
    specF = {"vars": fv}
    for name, mk, ws, ts, union in lists:
        scopes = [w[0] for w in ws]
        objs = lambda: mk(build(U, F), build(U, F), build(U, Fp), build(U, G))
        full = {}
        for k in all_named(U, union):
            x = Fr(1)
            for t, sc in zip(ts, scopes):
                x *= t[restrict(k, sc)]
            full[k] = x
        # factor_sum_product
        outv = rng.sample(union, rng.randint(0, len(union)))
        spec = {}
        for k, x in full.items():
            kk = restrict(k, outv)
            spec[kk] = spec.get(kk, 0) + x
        lst = objs()
        sn0 = [snapshot(o) for o in lst]
        try:
            r = factor_sum_product([N(v) for v in outv], lst)
        except (ValueError, KeyError, IndexError, TypeError, RuntimeError) as e:
            return bad("impl!=model:factor_sum_product:%s:raised" % name, {"exc": repr(e)[:200], "f": F})
        nops += 1
        tags.append("op=factor_sum_product:" + name)
        m = drv.call("c04_factor_sum_product", [outv, ws])
        d = cmp_literal(U, r, m) or cmp_spec(U, r, spec)
        if d:
            return bad("impl!=model:factor_sum_product:%s:%s" % (name, d["what"]), {"diff": d, "f": F, "g": G, "out": outv})
        if [snapshot(o) for o in lst] != sn0:
            return bad("operand-mutated:factor_sum_product:%s" % name, {"f": F})
        # factor_product (fold): replay to read the intermediate set orders
        lst = objs()
        acc, orders = lst[0], []
        for o in lst[1:]:
            acc = acc * o
            orders.append(vids(U, acc))
        lst = objs()
        r = factor_product(*lst)
        nops += 1
        tags.append("op=factor_product:" + name)
        m = drv.call("c04_factor_product", [ws, orders])
        d = cmp_literal(U, r, m) or cmp_spec(U, r, full)
        if d:
            return bad("impl!=model:factor_product:%s:%s" % (name, d["what"]), {"diff": d, "f": F, "g": G})
    return ok(nontrivial=True, key=common.canon_key(["alias", U, F, G, case["backend"]]), tags=tags, note="%d ops" % nops)


# ------------------------------------------------------------------ Q: totals near (but not exactly) one
def run_nearone(case, drv):
    """normalize (out of place, in place, twice, after marginalize, after a scalar product) on tables whose total is
    within 1e-2 .. a few ulp of one: compared RELATIVELY (1e-9) with the model's exact v / sum(v); the result's total is 1"""
    U, F = case["U"], case["f"]
    rng = random.Random(case["qseed"])
    N = lambda v: vname(U["vstyle"], v)
    fw = wire(U, F)
    tf = spec_table(U, F)
    tot = sum(tf.values())
    tags = ["nearone", "backend=" + case["backend"], "total=" + case["tag"],
            "total-within-isclose-of-1" if abs(tot - 1) <= Fr(1, 10**5) and tot != 1 else "total-outside-isclose"]
    nops = 0

    def total_ok(phi):
        t = float(npvals(phi).sum())
        return abs(t - 1.0) <= 1e-12

    m = drv.call("c04_normalize", fw)
    spec = {k: x / tot for k, x in tf.items()}
    variants = [("out-of-place", lambda p: p.normalize(inplace=False)), ("in-place", lambda p: (p.normalize(inplace=True), p)[1]),
                ("default-inplace", lambda p: (p.normalize(), p)[1])]
    for vn, call in variants:
        phi = build(U, F)
        s0 = snapshot(phi)
        r = call(phi)
        nops += 1
        tags.append("op=normalize-" + vn)
        d = cmp_literal(U, r, m) or cmp_spec(U, r, spec)
        if d:
            return bad("impl!=model:normalize:%s:%s" % (vn, d["what"]), {"diff": d, "f": F, "total": str(tot), "float_total": float(tot)})
        if not total_ok(r):
            return bad("impl!=spec:normalize:%s:total-not-one" % vn, {"total": float(npvals(r).sum()), "f": F})
        if vn == "out-of-place" and snapshot(phi) != s0:
            return bad("operand-mutated:normalize", {"f": F})
        # normalising the normalised factor again changes nothing beyond rounding
        r.normalize(inplace=True)
        d = cmp_spec(U, r, spec)
        if d or not total_ok(r):
            return bad("impl!=spec:normalize:%s:twice" % vn, {"diff": d, "f": F})
    # a scalar multiple close to one, then normalize: same distribution
    c = 1.0 + rng.choice([2.0 ** -20, -2.0 ** -20, 2.0 ** -30])
    phi = build(U, F)
    phi.product(c, inplace=True)
    phi.normalize(inplace=True)
    nops += 1
    d = cmp_spec(U, phi, spec)
    if d or not total_ok(phi):
        return bad("impl!=spec:normalize:after-scalar-product", {"diff": d, "f": F, "c": c})
    # marginalize, then normalize the marginal (its total is the same near-one number)
    if len(F["vars"]) >= 2:
        v = F["vars"][0]
        keep = F["vars"][1:]
        marg = {}
        for k, x in tf.items():
            kk = restrict(k, keep)
            marg[kk] = marg.get(kk, 0) + x
        phi = build(U, F)
        r = phi.marginalize([N(v)], inplace=False).normalize(inplace=False)
        nops += 1
        d = cmp_spec(U, r, {k: x / tot for k, x in marg.items()})
        if d or not total_ok(r):
            return bad("impl!=spec:normalize:after-marginalize", {"diff": d, "f": F})
    # sample() normalises internally: only check it does not disturb the factor
    return ok(nontrivial=True, key=common.canon_key(["nearone", U, F, case["backend"]]), tags=tags, note="%d ops" % nops)


def run_case(case, drv):
    from pgmpy import config
    backend = case.get("backend", "numpy")
    if backend == "torch":
        config.set_backend("torch")
    try:
        if case["kind"] == "pair":
            return run_pair(case, drv)
        if case["kind"] == "perm":
            return run_perm(case, drv)
        if case["kind"] == "eq":
            return run_eq(case, drv)
        if case["kind"] == "fset":
            return run_fset(case, drv)
        if case["kind"] == "fdict":
            return run_fdict(case, drv)
        if case["kind"] == "alias":
            return run_alias(case, drv)
        if case["kind"] == "nearone":
            _REL[0] = True
            try:
                return run_nearone(case, drv)
            finally:
                _REL[0] = False
        if case["kind"] == "session":
            return run_session(case, drv)
        if case["kind"] == "purity":
            return run_purity(case, drv)
        if case["kind"] == "big":
            return run_big(case, drv)
        if case["kind"] == "mag":
            _REL[0] = True
            try:
                return run_mag(case, drv)
            finally:
                _REL[0] = False
        return run_err(case, drv)
    finally:
        if backend == "torch":
            config.set_backend("numpy")
