"""C08 correspondence: pgmpy DAG d-separation family vs the Coq model (proved equal to the
path-based definition in coq/C08/Props.v)."""
import itertools
import random

from harness import common
from harness.common import ok, bad

PROP = "C08"
LEVEL = "proof"
HASHSEEDS = {"quick": [0, 1, 2, 3], "thorough": [0, 1, 2, 3, 4, 5, 6, 7]}
BUDGET_S = {"quick": 120, "thorough": 1500}
EXHAUSTIVE = {"quick": True, "thorough": True}
RULE = ("exhaustive: every DAG on <=4 (quick) / <=5 (thorough) labelled nodes x every start node x every "
        "observed subset (active trails, d-connection to every end node); plus random DAGs up to 10 nodes with "
        "latent subsets, observed passed as list/set/tuple/single node, node names str/int/tuple/mixed incl. "
        "falsy names 0 and ''; minimal d-separators for every non-adjacent pair, also for every DAG on <=4 nodes x "
        "latent subsets (all; size<=2 at n=4 in quick; 2 random subsets per 5-node DAG in thorough); Markov blanket, moral graph, "
        "ancestral graph, local and global independence listings.  A case is non-trivial when the graph has "
        ">=1 edge; distinct = distinct (kind, graph, query) after canonicalisation")
TRUSTED_BASE = ["networkx DiGraph storage (predecessors/successors/subgraph), dfs_preorder_nodes",
                "python set iteration order is a free order parameter of the model (results compared as sets)"]
ASSUMPTIONS = ["node names are interned to nat identifiers by the harness; the model never sees names"]


# ------------------------------------------------------------------ case generation
def cases(tier, seed):
    rng = random.Random(seed)
    out = []
    nmax = 4 if tier == "quick" else 5
    # exhaustive small scope, one case per DAG (the worker loops over starts and observed subsets)
    for n in range(1, nmax + 1):
        dags = common.all_dags(n)
        if n == 5 and tier != "thorough":
            continue
        for edges in dags:
            out.append({"kind": "exh", "n": n, "edges": edges})
    # exhaustive small scope with latent sets: minimal d-separators (latent replacement loop) for every
    # DAG x latent subset x non-adjacent pair
    for n in range(2, 5):
        for edges in common.all_dags(n):
            if not edges:
                continue
            subsets = [list(c) for r in range(1, n + 1) for c in itertools.combinations(range(n), r)]
            if n == 4 and tier == "quick":
                subsets = [c for c in subsets if len(c) <= 2]
            out.append({"kind": "exhlat", "n": n, "edges": edges, "lats": subsets})
    if tier == "thorough":
        for edges in common.all_dags(5):
            if len(edges) < 2:
                continue
            subsets = [sorted(rng.sample(range(5), rng.randint(1, 3))) for _ in range(2)]
            out.append({"kind": "exhlat", "n": 5, "edges": edges, "lats": subsets})
    # random larger graphs
    nrand = 150 if tier == "quick" else 1500
    for i in range(nrand):
        n = rng.randint(2, 10)
        nodes, edges = common.rand_dag(rng, n)
        style = rng.choice(common.NAME_STYLES + ["falsy"])
        k = rng.randint(0, min(3, n))
        lat = rng.sample(range(n), k) if rng.random() < 0.5 else []
        out.append({"kind": "rand", "n": n, "nodes": nodes, "edges": edges, "style": style, "lat": lat,
                    "nameseed": rng.randint(0, 10**9), "qseed": rng.randint(0, 10**9)})
    # edit sessions: ONE DAG object is edited between queries (edge swaps that keep node and edge counts,
    # reversals, additions, removals): answers must follow the current graph, not any earlier one
    nsess = 60 if tier == "quick" else 600
    for i in range(nsess):
        n = rng.randint(3, 7)
        nodes, edges = common.rand_dag(rng, n)
        out.append({"kind": "session", "n": n, "nodes": nodes, "edges": edges,
                    "style": rng.choice(common.NAME_STYLES), "lat": [],
                    "nameseed": rng.randint(0, 10**9), "qseed": rng.randint(0, 10**9),
                    "steps": rng.randint(3, 7)})
    return out


def shrink(case):
    if case["kind"] == "rand":
        for i in range(len(case["edges"])):
            c = dict(case)
            c["edges"] = case["edges"][:i] + case["edges"][i + 1:]
            yield c
        for i in range(len(case["lat"])):
            c = dict(case)
            c["lat"] = case["lat"][:i] + case["lat"][i + 1:]
            yield c


# ------------------------------------------------------------------ helpers
def names_for(case):
    n = case["n"]
    if case["kind"] == "exh":
        return ["n%d" % i for i in range(n)]
    rng = random.Random(case["nameseed"])
    if case["style"] == "falsy":
        pool = [0, "", "a", 1, "b", 2, "c", 3, "d", 4, "e", 5]
        head = pool[:2]
        rest = pool[2:]
        rng.shuffle(rest)
        names = (head + rest)[:n]
        rng.shuffle(names)
        return names
    return common.node_names(rng, n, case["style"])


def build(case):
    from pgmpy.base import DAG
    names = names_for(case)
    n = case["n"]
    nodes = case.get("nodes", list(range(n)))
    g = DAG()
    lat = set(case.get("lat", []))
    for v in nodes:
        g.add_node(names[v], latent=(v in lat))
    g.add_edges_from([(names[u], names[v]) for u, v in case["edges"]])
    return g, names, nodes


def model_atn(drv, nodes, edges, start, Z):
    return set(drv.call("c08_atn", [nodes, [list(e) for e in edges], start, list(Z)]))


def zform(Z, names, form):
    zs = [names[z] for z in Z]
    if form == "list":
        return zs
    if form == "tuple":
        return tuple(zs)
    if form == "set":
        return set(zs)
    if form == "single":
        return zs[0]
    if form == "none":
        return None
    raise ValueError(form)


def check_atn(g, names, nodes, edges, lat, start, Z, form, include_latents, drv, tags):
    idx = {repr(nm): i for i, nm in enumerate(names)}
    exp = model_atn(drv, nodes, edges, start, Z)
    exp_vis = exp if include_latents else exp - set(lat)
    got = g.active_trail_nodes(names[start], observed=zform(Z, names, form), include_latents=include_latents)
    got = {idx[repr(x)] for x in got[names[start]]}
    if got != exp_vis:
        return bad("impl!=model:active_trail_nodes",
                   {"start": start, "Z": sorted(Z), "form": form, "include_latents": include_latents,
                    "impl": sorted(got), "model": sorted(exp_vis), "lat": sorted(lat)})
    return None


def run_exh(case, drv):
    g, names, nodes = build(case)
    n = case["n"]
    edges = case["edges"]
    for start in range(n):
        rest = [v for v in range(n) if v != start]
        for r in range(len(rest) + 1):
            for Z in itertools.combinations(rest, r):
                form = "none" if not Z else ("single" if len(Z) == 1 and (start + r) % 2 else "list")
                b = check_atn(g, names, nodes, edges, [], start, Z, form, False, drv, [])
                if b:
                    return b
                exp = model_atn(drv, nodes, edges, start, Z)
                for end in rest:
                    if end in Z:
                        continue
                    d = g.is_dconnected(names[start], names[end], observed=[names[z] for z in Z] or None)
                    if d != (end in exp):
                        return bad("impl!=model:is_dconnected", {"start": start, "end": end, "Z": list(Z),
                                                                   "impl": d, "model": end in exp})
    b = run_minsep(case, drv, g, names, nodes, [])
    if b:
        return b
    b = run_misc(case, drv, g, names, nodes)
    if b:
        return b
    return ok(nontrivial=len(edges) > 0, key=common.canon_key(["exh", n, sorted(map(tuple, edges))]),
              tags=["exh n=%d" % n, "edges=%d" % len(edges)])


def run_minsep(case, drv, g, names, nodes, lat):
    """every non-adjacent pair: result must be latent-free, separating and 1-minimal (checked with the model's
    proven d-connection), equal to the model's result for some iteration order, and not None without latents."""
    n = case["n"]
    edges = [list(e) for e in case["edges"]]
    idx = {repr(nm): i for i, nm in enumerate(names)}
    eset = {tuple(e) for e in case["edges"]}
    for x in range(n):
        for y in range(n):
            if x == y:
                continue
            adjacent = (x, y) in eset or (y, x) in eset
            try:
                r = g.minimal_dseparator(names[x], names[y])
                err = None
            except ValueError:
                r, err = None, "value"
            st, mr = drv.call_e("c08_minsep", [nodes, edges, lat, x, y, []])
            if adjacent:
                if err != "value" or st != "err":
                    return bad("impl!=model:minimal_dseparator-adjacent", {"x": x, "y": y, "impl_err": err, "model": [st, mr]})
                continue
            if err:
                return bad("impl!=model:minimal_dseparator-raises", {"x": x, "y": y})
            if r is None:
                if not lat:
                    return bad("impl!=spec:minimal_dseparator-none-without-latents", {"x": x, "y": y})
                if mr != []:
                    return bad("impl!=model:minimal_dseparator-none", {"x": x, "y": y, "model": mr})
                continue
            sep = sorted(idx[repr(u)] for u in r)
            if set(sep) & set(lat):
                return bad("impl!=spec:minimal_dseparator-has-latent", {"x": x, "y": y, "sep": sep, "lat": lat})
            if y in model_atn(drv, nodes, edges, x, sep):
                return bad("impl!=spec:minimal_dseparator-not-separating", {"x": x, "y": y, "sep": sep})
            for u in sep:
                if y not in model_atn(drv, nodes, edges, x, [w for w in sep if w != u]):
                    return bad("impl!=spec:minimal_dseparator-not-minimal", {"x": x, "y": y, "sep": sep, "drop": u})
            # differential: equals the model under some removal order
            if mr == []:
                return bad("impl!=model:minimal_dseparator-model-none", {"x": x, "y": y, "sep": sep})
            cand = set()
            base = drv.call("c08_minsep", [nodes, edges, lat, x, y, []])
            cand.add(tuple(sorted(base[0])))
            if tuple(sep) not in cand:
                # every candidate member of the initial separator (parents, or ancestors that replace latent
                # parents) lies among the proper ancestors of x and y
                anc, todo = set(), [x, y]
                while todo:
                    w = todo.pop()
                    for (u, v) in eset:
                        if v == w and u not in anc:
                            anc.add(u)
                            todo.append(u)
                pa = sorted((anc | set(sep)) - {x, y})
                for perm in itertools.islice(itertools.permutations(pa), 720):
                    m = drv.call("c08_minsep", [nodes, edges, lat, x, y, list(perm)])
                    cand.add(tuple(sorted(m[0])))
                    if tuple(sep) in cand:
                        break
            if tuple(sep) not in cand:
                return bad("impl!=model:minimal_dseparator-order", {"x": x, "y": y, "sep": sep, "model_any_order": sorted(cand)})
    return None


def run_misc(case, drv, g, names, nodes):
    n = case["n"]
    edges = [list(e) for e in case["edges"]]
    idx = {repr(nm): i for i, nm in enumerate(names)}
    rng = random.Random(case.get("qseed", 1))
    for v in range(n):
        ns = rng.sample(range(n), rng.randint(1, n))
        blanket, moral, agn, age, ndp, anc = drv.call("c08_misc", [nodes, edges, v, ns])
        got = sorted(idx[repr(u)] for u in g.get_markov_blanket(names[v]))
        if got != sorted(blanket):
            return bad("impl!=model:markov_blanket", {"v": v, "impl": got, "model": sorted(blanket)})
        ag = g.get_ancestral_graph([names[u] for u in ns])
        gn = sorted(idx[repr(u)] for u in ag.nodes())
        ge = sorted((idx[repr(a)], idx[repr(b)]) for a, b in ag.edges())
        if gn != sorted(agn) or ge != sorted(map(tuple, age)):
            return bad("impl!=model:ancestral_graph", {"ns": ns, "impl": [gn, ge], "model": [sorted(agn), sorted(age)]})
        ganc = sorted(idx[repr(u)] for u in g._get_ancestors_of([names[u] for u in ns]))
        if ganc != sorted(anc):
            return bad("impl!=model:ancestors", {"ns": ns, "impl": ganc, "model": sorted(anc)})
        if not all(isinstance(x, str) and x for x in names):
            continue  # IndependenceAssertion documents string variables only
        li = g.local_independencies(names[v]).get_assertions()
        if ndp:
            if len(li) != 1:
                return bad("impl!=model:local_independencies", {"v": v, "impl": str(li), "model": ndp})
            a = li[0]
            e1 = sorted(idx[repr(u)] for u in a.event1)
            e2 = sorted(idx[repr(u)] for u in a.event2)
            e3 = sorted(idx[repr(u)] for u in a.event3)
            pa = sorted(u for (u, w) in map(tuple, edges) if w == v)
            if e1 != [v] or e2 != sorted(ndp) or e3 != pa:
                return bad("impl!=model:local_independencies", {"v": v, "impl": [e1, e2, e3], "model": [[v], sorted(ndp), pa]})
        elif li:
            return bad("impl!=model:local_independencies", {"v": v, "impl": str(li), "model": []})
    mg = g.moralize()
    gm = sorted({tuple(sorted((idx[repr(a)], idx[repr(b)]))) for a, b in mg.edges()})
    mm = sorted({tuple(sorted(e)) for e in moral})
    if gm != mm or sorted(idx[repr(u)] for u in mg.nodes()) != sorted(nodes):
        return bad("impl!=model:moralize", {"impl": gm, "model": mm})
    return None


def run_indep(case, drv, g, names, nodes, lat, include_latents):
    """get_independencies(): exactly the assertions (start _|_ separated | observed) with non-empty separated set"""
    n = case["n"]
    edges = [list(e) for e in case["edges"]]
    idx = {repr(nm): i for i, nm in enumerate(names)}
    got = set()
    for a in g.get_independencies(include_latents=include_latents).get_assertions():
        got.add((frozenset(idx[repr(u)] for u in a.event1), frozenset(idx[repr(u)] for u in a.event2),
                 frozenset(idx[repr(u)] for u in a.event3)))
    exp = set()
    vis = [v for v in range(n) if include_latents or v not in lat]
    for start in vis:
        rest = [v for v in vis if v != start]
        for r in range(len(rest)):
            for Z in itertools.combinations(rest, r):
                # the model's asserted set (proved = visible nodes d-separated from start, C08_independencies)
                sepd = set(drv.call("c08_dsep", [nodes, edges, lat, include_latents, start, list(Z)]))
                act = model_atn(drv, nodes, edges, start, Z)
                if sepd != set(rest) - set(Z) - act:
                    return bad("model-inconsistent:dsep_vars", {"start": start, "Z": list(Z), "lat": lat})
                if sepd:
                    exp.add((frozenset([start]), frozenset(sepd), frozenset(Z)))
    if got != exp:
        d1 = [list(map(sorted, t)) for t in sorted(got - exp, key=str)[:3]]
        d2 = [list(map(sorted, t)) for t in sorted(exp - got, key=str)[:3]]
        return bad("impl!=model:get_independencies", {"impl_only": d1, "model_only": d2, "include_latents": include_latents})
    return None


def check_multi_start(g, names, nodes, edges, lat, rng, drv, tags):
    """active_trail_nodes with a LIST of start variables: every entry of the returned dict must be the
    answer for that start alone (the searches must not share visited state)"""
    n = len(names)
    if n < 2:
        return None
    idx = {repr(nm): i for i, nm in enumerate(names)}
    for _ in range(3):
        k = rng.randint(2, min(4, n))
        starts = rng.sample(range(n), k)
        rest = [v for v in range(n) if v not in starts]
        Z = rng.sample(rest, rng.randint(0, len(rest)))
        incl = rng.random() < 0.5
        got = g.active_trail_nodes([names[s] for s in starts], observed=[names[z] for z in Z],
                                   include_latents=incl)
        if sorted(repr(k_) for k_ in got) != sorted(repr(names[s]) for s in starts):
            return bad("impl!=model:active_trail_nodes-multi-keys", {"starts": starts, "impl_keys": [repr(k_) for k_ in got]})
        for s_ in starts:
            exp = model_atn(drv, nodes, edges, s_, Z)
            if not incl:
                exp = exp - set(lat)
            have = {idx[repr(x)] for x in got[names[s_]]}
            if have != exp:
                return bad("impl!=model:active_trail_nodes-multi-start",
                           {"starts": starts, "start": s_, "Z": sorted(Z), "include_latents": incl,
                            "impl": sorted(have), "model": sorted(exp), "lat": sorted(lat)})
        tags.append("multi-start=%d" % k)
    return None


def run_rand(case, drv):
    g, names, nodes = build(case)
    n = case["n"]
    edges = case["edges"]
    lat = case["lat"]
    rng = random.Random(case["qseed"])
    tags = ["rand n=%d" % n, "style=" + case["style"], "latents=%d" % len(lat)]
    for _ in range(12):
        start = rng.randrange(n)
        rest = [v for v in range(n) if v != start]
        Z = rng.sample(rest, rng.randint(0, len(rest)))
        forms = ["list", "tuple", "set"] + (["single"] if len(Z) == 1 and not isinstance(names[Z[0]], tuple) else []) + (["none"] if not Z else [])
        form = rng.choice(forms)
        incl = rng.random() < 0.5
        tags.append("observed-as=" + form)
        b = check_atn(g, names, nodes, edges, lat, start, Z, form, incl, drv, tags)
        if b:
            return b
        exp = model_atn(drv, nodes, edges, start, Z)
        end = rng.choice(rest)
        if end not in Z:
            d = g.is_dconnected(names[start], names[end], observed=zform(Z, names, "list"))
            if d != (end in exp):
                return bad("impl!=model:is_dconnected", {"start": start, "end": end, "Z": Z, "impl": d,
                                                           "model": end in exp, "lat": lat})
    b = check_multi_start(g, names, nodes, edges, lat, rng, drv, tags)
    if b:
        return b
    if n <= 7:
        b = run_minsep(case, drv, g, names, nodes, lat)
        if b:
            return b
    b = run_misc(case, drv, g, names, nodes)
    if b:
        return b
    if n <= 5 and all(isinstance(x, str) and x for x in names):
        b = run_indep(case, drv, g, names, nodes, lat, rng.random() < 0.5)
        if b:
            return b
        tags.append("get_independencies")
    # error path: unknown observed node
    try:
        g.active_trail_nodes(names[0], observed=["__nope__"])
        return bad("impl!=model:unknown-observed-accepted", {})
    except ValueError:
        pass
    return ok(nontrivial=len(edges) > 0,
              key=common.canon_key(["rand", n, sorted(map(tuple, edges)), sorted(lat), case["style"], case["qseed"]]),
              tags=tags)


def run_exhlat(case, drv):
    n = case["n"]
    for lat in case["lats"]:
        sub = {"kind": "exh", "n": n, "edges": case["edges"], "lat": lat}
        g, names, nodes = build(sub)
        b = run_minsep(sub, drv, g, names, nodes, lat)
        if b:
            b["detail"] = {"lat": lat, "inner": b.get("detail")}
            return b
    return ok(nontrivial=True, key=common.canon_key(["exhlat", n, sorted(map(tuple, case["edges"]))]),
              tags=["exhlat n=%d" % n, "latent-sets=%d" % len(case["lats"])])


def _acyclic(n, edges):
    indeg = {v: 0 for v in range(n)}
    adj = {v: [] for v in range(n)}
    for u, v in edges:
        adj[u].append(v)
        indeg[v] += 1
    stack = [v for v in range(n) if indeg[v] == 0]
    seen = 0
    while stack:
        u = stack.pop()
        seen += 1
        for v in adj[u]:
            indeg[v] -= 1
            if indeg[v] == 0:
                stack.append(v)
    return seen == n


def run_session(case, drv):
    g, names, nodes = build(case)
    n = case["n"]
    edges = [tuple(e) for e in case["edges"]]
    rng = random.Random(case["qseed"])
    idx = {repr(nm): i for i, nm in enumerate(names)}
    tags = ["session n=%d" % n]
    history = []

    def query_all(step):
        for _ in range(3):
            start = rng.randrange(n)
            rest = [v for v in range(n) if v != start]
            Z = rng.sample(rest, rng.randint(0, len(rest)))
            exp = model_atn(drv, nodes, [list(e) for e in edges], start, Z)
            got = g.active_trail_nodes(names[start], observed=[names[z] for z in Z], include_latents=True)
            have = {idx[repr(x)] for x in got[names[start]]}
            if have != exp:
                return bad("impl!=model:session-active_trail_nodes",
                           {"step": step, "history": history, "edges_now": sorted(edges), "start": start,
                            "Z": sorted(Z), "impl": sorted(have), "model": sorted(exp)})
            for end in rest:
                if end in Z:
                    continue
                d = g.is_dconnected(names[start], names[end], observed=[names[z] for z in Z])
                if d != (end in exp):
                    return bad("impl!=model:session-is_dconnected",
                               {"step": step, "history": history, "edges_now": sorted(edges), "start": start,
                                "end": end, "Z": sorted(Z), "impl": d, "model": end in exp})
            ns = rng.sample(range(n), rng.randint(1, n))
            _, _, agn, age, _, anc = drv.call("c08_misc", [nodes, [list(e) for e in edges], start, ns])
            ganc = sorted(idx[repr(u)] for u in g._get_ancestors_of([names[u] for u in ns]))
            if ganc != sorted(anc):
                return bad("impl!=model:session-ancestors", {"step": step, "history": history,
                                                               "edges_now": sorted(edges), "ns": ns,
                                                               "impl": ganc, "model": sorted(anc)})
        return None

    b = query_all(0)
    if b:
        return b
    for step in range(1, case["steps"] + 1):
        kind = rng.choice(["swap", "swap", "reverse", "add", "remove"])
        eset = set(edges)
        done = None
        if kind in ("swap", "reverse", "remove") and edges:
            e = rng.choice(edges)
            if kind == "remove":
                g.remove_edge(names[e[0]], names[e[1]])
                edges.remove(e)
                done = ["remove", list(e)]
            elif kind == "reverse":
                cand = [x for x in edges if x != e] + [(e[1], e[0])]
                if _acyclic(n, cand):
                    g.remove_edge(names[e[0]], names[e[1]])
                    g.add_edge(names[e[1]], names[e[0]])
                    edges.remove(e)
                    edges.append((e[1], e[0]))
                    done = ["reverse", list(e)]
            else:
                pool = [(u, v) for u in range(n) for v in range(n) if u != v and (u, v) not in eset and (v, u) not in eset]
                rng.shuffle(pool)
                for f in pool:
                    cand = [x for x in edges if x != e] + [f]
                    if _acyclic(n, cand):
                        g.remove_edge(names[e[0]], names[e[1]])
                        g.add_edge(names[f[0]], names[f[1]])
                        edges.remove(e)
                        edges.append(f)
                        done = ["swap", list(e), list(f)]
                        break
        if done is None:
            pool = [(u, v) for u in range(n) for v in range(n) if u != v and (u, v) not in eset and (v, u) not in eset]
            rng.shuffle(pool)
            for f in pool:
                if _acyclic(n, edges + [f]):
                    g.add_edge(names[f[0]], names[f[1]])
                    edges.append(f)
                    done = ["add", list(f)]
                    break
        if done is None:
            continue
        history.append(done)
        tags.append("edit=" + done[0])
        b = query_all(step)
        if b:
            return b
    return ok(nontrivial=len(history) > 0,
              key=common.canon_key(["session", n, sorted(map(tuple, case["edges"])), case["qseed"]]), tags=tags)


def run_case(case, drv):
    if case["kind"] == "session":
        return run_session(case, drv)
    if case["kind"] == "exh":
        return run_exh(case, drv)
    if case["kind"] == "exhlat":
        return run_exhlat(case, drv)
    return run_rand(case, drv)
