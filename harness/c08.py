"""C08 correspondence: pgmpy DAG d-separation family vs the Coq model (proved equal to the
path-based definition in coq/C08/Props.v)."""
import itertools
import random

from harness import common
from harness.common import ok, bad

PROP = "C08"
LEVEL = "proof"
HASHSEEDS = {"quick": [0, 1, 2, 3], "thorough": [0, 1, 2, 3, 4, 5, 6, 7]}
BUDGET_S = {"quick": 120, "thorough": 1500}
EXHAUSTIVE = {"quick": True, "thorough": True}
RULE = ("exhaustive: every DAG on <=4 (quick) / <=5 (thorough) labelled nodes x every start node x every "
        "observed subset (active trails, d-connection to every end node); plus random DAGs up to 10 nodes with "
        "latent subsets, observed passed as list/set/tuple/single node, node names str/int/tuple/mixed incl. "
        "falsy names 0 and '', and strings that are substrings of each other or words the code uses (x1/x10, G/G2, "
        "up/down/weight/None); minimal d-separators for every non-adjacent pair, also for every DAG on <=4 nodes x "
        "latent subsets (all; size<=2 at n=4 in quick; 2 random subsets per 5-node DAG in thorough) together with "
        "include_latents in {True, False} for every start x observed subset (observed start nodes included); Markov "
        "blanket, moral graph, immoralities, ancestral graph, local and global independence listings, on DAG AND "
        "BayesianNetwork objects (every DAG on <=4 nodes as a BayesianNetwork, half of them parameterised with CPDs), the "
        "moral graph also through BayesianNetwork.to_markov_model() (same NODE set incl. isolated nodes / several components / "
        "edgeless graphs, same edges, neighbours of every node, one factor per family) and of every ancestral graph through "
        "both routes (ancestral graph -> moralize / to_markov_model), built through add_node/add_edges_from, "
        "the constructor (ebunch, latents) or weighted add_nodes_from/add_edges_from.  "
        "Generalisation classes (notes/GENERALISATION_CHECKLIST.md): "
        "A object sessions (gsess, dbn, nb, session): ONE DAG / BayesianNetwork / DynamicBayesianNetwork / NaiveBayes "
        "object, every route asked with FIXED observed sets and end-point pairs, then an edit through every own or "
        "networkx-inherited mutator (add_node(s), add_edge(s), add_weighted_edges_from, update, nx.add_path, remove_edge, "
        "remove_edges_from, remove_node, remove_nodes_from, clear_edges, clear + refill, do(inplace=True/False), copy + edit "
        "of the copy, direct edits of .latents, edge reversal / count-preserving swaps, edits aimed at the ancestors of a "
        "fixed observed set), then the same questions again; oracle = the model on the CURRENT nodes and edges, the "
        "tracked state itself cross-checked against the model's edit functions (c08_edit).  "
        "B argument purity: observed / variables / nodes / ebunch / latents / do-nodes arguments compared with a snapshot, "
        "the same observed object reused for all starts.  C result independence: returned dicts, sets, lists, moral "
        "graphs, Independencies objects are vandalised and the question asked again; successive results are distinct "
        "objects; a copy's edit does not reach the original.  E names: above.  G sizes: 1..12 nodes, edgeless and "
        "emptied graphs, isolated nodes, empty start / node / observed lists, duplicates in observed and start lists, "
        "observed start and end nodes.  J variants: include_latents, inplace, every observed form, single / list / tuple "
        "of variables, weights.  K rejected calls: unknown node as a LATER member of observed / variables / nodes, adjacent "
        "end points, cyclic or self-loop edges (BayesianNetwork, DBN), backward / slice-gap DBN edges, do of an unknown "
        "node, removal of a missing edge / node, add_edges_from with a later cyclic edge (the earlier edge stays): all "
        "must raise, and the answers afterwards are the model's on the resulting state.  L orders: shuffled node / edge "
        "insertion, shuffled observed order, PYTHONHASHSEED 0-3 (quick) / 0-7 (thorough).  "
        "N equal-but-not-identical arguments: EVERY name handed to a pgmpy call (start, end, observed, variables, nodes, "
        "ebunch of edits, DBN tuples) is rebuilt at run time (''.join(list(s)), int(str(i)), tuple rebuilt), never the object "
        "stored in the graph; the name pools hold multi-character strings and ints above 256 besides the interpreter's "
        "singletons.  O container types: observed as list / tuple / set / single / None; variables and nodes as list / tuple / "
        "single; do(nodes) as list / tuple / set / dict view / one-shot generator / numpy array / single; add_nodes_from, "
        "add_edges_from, remove_edges_from, remove_nodes_from as list / tuple / generator / dict view; latent flags as list / "
        "tuple / bool (active_trail_nodes, get_ancestral_graph and local_independencies document lists: other iterables are "
        "outside their documented domain).  P mid-sized inputs: chains and random trees on 9, 12, 16, 17 nodes, sessions up to "
        "12 nodes, int names above 256.  R combinations: latents x include_latents x weights x object class x construction route "
        "x observed form are drawn independently in rand / gsess.  "
        "Not applicable to this property: Q not-exactly-normalised tables (no table value enters any route), D pandas frames, F state names, H magnitudes (no data, states or numbers enter any "
        "route; edge and node weights are exercised and must be ignored), I backends (no tensor operation).  "
        "Domain limits of the objects (documented API, see DESIGN.md section 0): IndependenceAssertion takes non-empty string "
        "variables (listings only with such names; DynamicNode variables are out of its domain, so DBN listings are not "
        "compared); a tuple as a single observed / variables argument is a collection; get_immoralities is compared as a set "
        "of unordered pairs for every name style (the order inside a pair only when the names sort).  NaiveBayes (anchored file): "
        "its closed-form active_trail_nodes / _get_ancestors_of / local_independencies and the inherited ancestral graph, blanket, "
        "moral graph, immoralities are compared with the model on the star graph for one-character, multi-character, substring, "
        "int, tuple and mixed names (observed as list / tuple / set / None, the documented forms; a single observed node only as a "
        "one-character string); stream nbopen drives the open finding naivebayes-inherited-dsep-routes (TypeError out of the "
        "inherited is_dconnected / get_independencies / minimal_dseparator; observed start node answered with the closed form) and "
        "tags exactly that, a route that answers is compared with the model.  DynamicBayesianNetwork.py is NOT among this "
        "property's anchors: the dbn stream checks the inherited DAG routes on DBN objects and the DBN overrides AS CODED (no "
        "finding is tagged there): an observed SET only when it has not exactly two members, a single observed node as a tuple, "
        "get_markov_blanket against the code's own augmentation rule and, while the network is regular, against the model's blanket "
        "in the network unrolled to three slices plus the node itself.  "
        "A case is non-trivial when the graph has "
        ">=1 edge (sessions: >=1 edit); distinct = distinct (kind, graph, query) after canonicalisation")
TRUSTED_BASE = ["networkx DiGraph storage (predecessors/successors/subgraph), dfs_preorder_nodes",
                "python set iteration order is a free order parameter of the model (results compared as sets)"]
ASSUMPTIONS = ["node names are interned to nat identifiers by the harness; the model never sees names"]


# ------------------------------------------------------------------ case generation
def cases(tier, seed):
    rng = random.Random(seed)
    out = []
    nmax = 4 if tier == "quick" else 5
    # exhaustive small scope, one case per DAG (the worker loops over starts and observed subsets)
    for n in range(1, nmax + 1):
        dags = common.all_dags(n)
        if n == 5 and tier != "thorough":
            continue
        for edges in dags:
            out.append({"kind": "exh", "n": n, "edges": edges})
    # exhaustive small scope with latent sets: minimal d-separators (latent replacement loop) for every
    # DAG x latent subset x non-adjacent pair
    for n in range(2, 5):
        for edges in common.all_dags(n):
            if not edges:
                continue
            subsets = [list(c) for r in range(1, n + 1) for c in itertools.combinations(range(n), r)]
            if n == 4 and tier == "quick":
                subsets = [c for c in subsets if len(c) <= 2]
            out.append({"kind": "exhlat", "n": n, "edges": edges, "lats": subsets})
    if tier == "thorough":
        for edges in common.all_dags(5):
            if len(edges) < 2:
                continue
            subsets = [sorted(rng.sample(range(5), rng.randint(1, 3))) for _ in range(2)]
            out.append({"kind": "exhlat", "n": 5, "edges": edges, "lats": subsets})
    # random larger graphs
    nrand = 150 if tier == "quick" else 1500
    for i in range(nrand):
        n = rng.randint(2, 10)
        nodes, edges = common.rand_dag(rng, n)
        style = rng.choice(common.NAME_STYLES + ["falsy", "substr"])
        k = rng.randint(0, min(3, n))
        lat = rng.sample(range(n), k) if rng.random() < 0.5 else []
        out.append({"kind": "rand", "n": n, "nodes": nodes, "edges": edges, "style": style, "lat": lat,
                    "cls": rng.choice(["DAG", "DAG", "BN"]), "route": rng.choice(["add", "add", "ctor", "weights"]),
                    "nameseed": rng.randint(0, 10**9), "qseed": rng.randint(0, 10**9)})
    # mid-sized and threshold-sized graphs (class P): chains and random trees on 9, 12, 16, 17 nodes (sizes = 1 mod 8,
    # more than 8 int-named nodes, long trails)
    for i in range(8 if tier == "quick" else 80):
        n = rng.choice([9, 12, 16, 17])
        order = list(range(n))
        rng.shuffle(order)
        if i % 2 == 0:
            edges = [(order[j], order[j + 1]) if rng.random() < 0.7 else (order[j + 1], order[j]) for j in range(n - 1)]
        else:
            edges = []
            for j in range(1, n):
                p_ = order[rng.randrange(j)]
                edges.append((p_, order[j]) if rng.random() < 0.6 else (order[j], p_))
        rng.shuffle(edges)
        nodes = list(range(n))
        rng.shuffle(nodes)
        out.append({"kind": "rand", "n": n, "nodes": nodes, "edges": edges,
                    "style": rng.choice(["int", "int", "str", "substr", "tuple"] if n <= 12 else ["int", "int", "substr", "tuple"]),
                    "lat": rng.sample(range(n), 2) if rng.random() < 0.5 else [],
                    "cls": rng.choice(["DAG", "BN"]), "route": rng.choice(["add", "ctor", "weights"]),
                    "nameseed": rng.randint(0, 10**9), "qseed": rng.randint(0, 10**9)})
    # edit sessions: ONE DAG object is edited between queries (edge swaps that keep node and edge counts,
    # reversals, additions, removals): answers must follow the current graph, not any earlier one
    nsess = 60 if tier == "quick" else 600
    for i in range(nsess):
        n = rng.randint(3, 7)
        nodes, edges = common.rand_dag(rng, n)
        out.append({"kind": "session", "n": n, "nodes": nodes, "edges": edges,
                    "style": rng.choice(common.NAME_STYLES), "lat": [],
                    "nameseed": rng.randint(0, 10**9), "qseed": rng.randint(0, 10**9),
                    "steps": rng.randint(3, 7)})
    # BayesianNetwork objects (own get_markov_blanket, add_edge, remove_node, do, copy): blanket, moral graph,
    # immoralities, ancestral graph, local independencies on EVERY DAG with <= 4 nodes
    for n in range(1, 5):
        for edges in common.all_dags(n):
            out.append({"kind": "exhbn", "n": n, "edges": edges})
    # object sessions (generalisation classes A, B, C, E, G, J, K, L): ONE DAG / BayesianNetwork object, every
    # route queried with FIXED observed sets, then an edit through every own / networkx-inherited mutator,
    # then the same queries again
    ngs = 90 if tier == "quick" else 1200
    for i in range(ngs):
        n = rng.randint(3, 7) if rng.random() < 0.85 else rng.randint(8, 12)
        nodes, edges = common.rand_dag(rng, n)
        k = rng.randint(0, min(3, n))
        out.append({"kind": "gsess", "cls": rng.choice(["DAG", "BN"]), "n": n, "nodes": nodes, "edges": edges,
                    "style": rng.choice(common.NAME_STYLES + ["falsy", "substr", "substr", "str"]),
                    "lat": rng.sample(range(n), k) if rng.random() < 0.5 else [],
                    "route": rng.choice(["add", "ctor", "weights"]),
                    "nameseed": rng.randint(0, 10**9), "qseed": rng.randint(0, 10**9),
                    "rounds": rng.randint(3, 6)})
    # DynamicBayesianNetwork objects (inherit the DAG routes; own active_trail_nodes wrapper, moralize,
    # get_markov_blanket) and NaiveBayes objects (own active_trail_nodes / local_independencies short cuts)
    nd = 30 if tier == "quick" else 400
    for i in range(nd):
        out.append({"kind": "dbn", "nvars": rng.randint(2, 4), "qseed": rng.randint(0, 10**9),
                    "rounds": rng.randint(2, 4)})
    nnb = 15 if tier == "quick" else 150
    for i in range(nnb):
        out.append({"kind": "nb", "nfeat": rng.randint(1, 9), "qseed": rng.randint(0, 10**9),
                    "style": rng.choice(["char", "str", "substr", "int", "tuple", "mixed"])})
    # the open finding naivebayes-inherited-dsep-routes: inherited is_dconnected / get_independencies /
    # minimal_dseparator on a NaiveBayes object, and an observed start node
    for i in range(6 if tier == "quick" else 40):
        out.append({"kind": "nbopen", "nfeat": rng.randint(1, 6), "qseed": rng.randint(0, 10**9),
                    "style": rng.choice(["char", "str", "substr", "int", "tuple", "mixed"])})
    return out


def shrink(case):
    if case["kind"] == "rand":
        for i in range(len(case["edges"])):
            c = dict(case)
            c["edges"] = case["edges"][:i] + case["edges"][i + 1:]
            yield c
        for i in range(len(case["lat"])):
            c = dict(case)
            c["lat"] = case["lat"][:i] + case["lat"][i + 1:]
            yield c


# ------------------------------------------------------------------ helpers
def fresh(x):
    """an object EQUAL to x but (wherever CPython allows) not IDENTICAL with it: every name handed to a pgmpy call is
    rebuilt at run time, never the object stored in the graph (`is` instead of `==` must be noticed).  One-character
    strings, '' and ints in -5..256 are singletons of the interpreter, so the name pools also hold longer strings and
    ints above 256"""
    if isinstance(x, bool):
        return x
    if isinstance(x, str):
        return "".join(list(x)) if len(x) > 1 else x
    if isinstance(x, int):
        return int(str(x))
    if isinstance(x, tuple):
        return tuple(fresh(e) for e in x)
    return x


class FreshNames(list):
    """the list of node names; indexing gives a fresh equal object each time"""

    def __getitem__(self, i):
        v = list.__getitem__(self, i)
        return v if isinstance(i, slice) else fresh(v)


def diversify(names, rng):
    """some names become multi-character strings / ints above 256 (objects that are not interpreter singletons)"""
    out = []
    for x in names:
        if isinstance(x, str) and x and rng.random() < 0.7:
            x = x + rng.choice(["1", "_v", "x", "10"])
        elif isinstance(x, int) and not isinstance(x, bool) and x != 0 and rng.random() < 0.6:
            x = x + 1000
        out.append(x)
    if len({repr(x) for x in out}) != len(out):
        return list(names)
    return out


def names_for(case):
    n = case["n"]
    if case["kind"] == "exh":
        return ["n%d" % i for i in range(n)]
    rng = random.Random(case["nameseed"])
    if case["style"] == "falsy":
        pool = [0, "", "a", 1, "b", 2, "c", 3, "d", 4, "e", 5]
        head = pool[:2]
        rest = pool[2:]
        rng.shuffle(rest)
        names = (head + rest)[:n]
        rng.shuffle(names)
        return diversify(names, rng)
    if case["style"] == "substr":
        return substr_names(rng, n)
    return diversify(common.node_names(rng, n, case["style"]), rng)


SUBSTR_POOL = ["x1", "x10", "x", "x1x", "1", "10", "up", "down", "weight", "None", "x 1", "X1", "latent",
               "start", "end", "observed", "G", "G2", "x11", "0"]


def substr_names(rng, n, extra=0):
    """non-empty strings, one a substring / prefix of another, some equal to words the code uses"""
    pool = list(SUBSTR_POOL)
    rng.shuffle(pool)
    head = ["x1", "x10"]
    rest = [p_ for p_ in pool if p_ not in head]
    names = (head + rest)[:n + extra]
    while len(names) < n + extra:
        names.append("x1_%d" % len(names))
    first = names[:n]
    rng.shuffle(first)
    return first + names[n:]


def graph_class(cls):
    if cls == "BN":
        from pgmpy.models import BayesianNetwork
        return BayesianNetwork
    from pgmpy.base import DAG
    return DAG


def build(case):
    """the object under test, built through one of the documented construction routes:
    add   : add_node(latent=...) per node, then add_edges_from
    ctor  : Class(ebunch=..., latents=...) and add_nodes_from(latent=[...]) for the isolated nodes
    weights: add_nodes_from(weights=[...], latent=[...]) and add_edges_from(weights=[...]) (weights 0 / None / x
             must not matter to any d-separation answer)"""
    names = names_for(case)
    n = case["n"]
    nodes = case.get("nodes", list(range(n)))
    lat = set(case.get("lat", []))
    Cls = graph_class(case.get("cls", "DAG"))
    route = case.get("route", "add")
    ebunch = [(fresh(names[u]), fresh(names[v])) for u, v in case["edges"]]
    if route == "ctor":
        latarg = {names[v] for v in lat}
        snap_l, snap_e = set(latarg), list(ebunch)
        g = Cls(ebunch=ebunch, latents=latarg)
        touched = {u for e in case["edges"] for u in e}
        iso = [v for v in nodes if v not in touched]
        g.add_nodes_from([names[v] for v in iso], latent=[False] * len(iso))
        # the caller's arguments are neither changed nor kept: marking one more node latent on the object
        # must not show in the caller's set (and not in any other graph's latents)
        if g.latents is latarg or latarg != snap_l or ebunch != snap_e:
            raise AssertionError("constructor keeps or changes its arguments")
        if nodes:
            g.add_node(names[nodes[0]], latent=True)
            if latarg != snap_l or Cls().latents or Cls(ebunch=[("p", "q")]).latents:
                raise AssertionError("latents leak between objects / into the caller's set")
            if nodes[0] not in lat:
                g.latents.discard(names[nodes[0]])
    elif route == "weights":
        wrng = random.Random(case.get("nameseed", 0) + 5)
        g = Cls()
        g.add_nodes_from([names[v] for v in nodes], weights=[wrng.choice([0, None, 0.5, 2]) for _ in nodes],
                         latent=[v in lat for v in nodes])
        if ebunch:
            g.add_edges_from(ebunch, weights=[wrng.choice([0, None, 0.25, 3]) for _ in ebunch])
    else:
        g = Cls()
        for v in nodes:
            g.add_node(names[v], latent=(v in lat))
        g.add_edges_from(ebunch)
    return g, FreshNames(names), nodes


def model_atn(drv, nodes, edges, start, Z):
    return set(drv.call("c08_atn", [nodes, [list(e) for e in edges], start, list(Z)]))


def zform(Z, names, form):
    zs = [names[z] for z in Z]
    if form == "list":
        return zs
    if form == "tuple":
        return tuple(zs)
    if form == "set":
        return set(zs)
    if form == "single":
        return zs[0]
    if form == "none":
        return None
    raise ValueError(form)


def check_atn(g, names, nodes, edges, lat, start, Z, form, include_latents, drv, tags):
    idx = {repr(nm): i for i, nm in enumerate(names)}
    exp = model_atn(drv, nodes, edges, start, Z)
    exp_vis = exp if include_latents else exp - set(lat)
    got = g.active_trail_nodes(names[start], observed=zform(Z, names, form), include_latents=include_latents)
    got = {idx[repr(x)] for x in got[names[start]]}
    if got != exp_vis:
        return bad("impl!=model:active_trail_nodes",
                   {"start": start, "Z": sorted(Z), "form": form, "include_latents": include_latents,
                    "impl": sorted(got), "model": sorted(exp_vis), "lat": sorted(lat)})
    return None


def run_exh(case, drv):
    g, names, nodes = build(case)
    n = case["n"]
    edges = case["edges"]
    for start in range(n):
        rest = [v for v in range(n) if v != start]
        for r in range(len(rest) + 1):
            for Z in itertools.combinations(rest, r):
                form = "none" if not Z else ("single" if len(Z) == 1 and (start + r) % 2 else "list")
                b = check_atn(g, names, nodes, edges, [], start, Z, form, False, drv, [])
                if b:
                    return b
                exp = model_atn(drv, nodes, edges, start, Z)
                for end in rest:
                    if end in Z:
                        continue
                    d = g.is_dconnected(names[start], names[end], observed=[names[z] for z in Z] or None)
                    if d != (end in exp):
                        return bad("impl!=model:is_dconnected", {"start": start, "end": end, "Z": list(Z),
                                                                   "impl": d, "model": end in exp})
    b = run_minsep(case, drv, g, names, nodes, [])
    if b:
        return b
    b = run_misc(case, drv, g, names, nodes)
    if b:
        return b
    return ok(nontrivial=len(edges) > 0, key=common.canon_key(["exh", n, sorted(map(tuple, edges))]),
              tags=["exh n=%d" % n, "edges=%d" % len(edges)])


def run_minsep(case, drv, g, names, nodes, lat):
    """every non-adjacent pair: result must be latent-free, separating and 1-minimal (checked with the model's
    proven d-connection), equal to the model's result for some iteration order, and not None without latents."""
    n = case["n"]
    edges = [list(e) for e in case["edges"]]
    idx = {repr(nm): i for i, nm in enumerate(names)}
    eset = {tuple(e) for e in case["edges"]}
    for x in range(n):
        for y in range(n):
            if x == y:
                continue
            adjacent = (x, y) in eset or (y, x) in eset
            try:
                r = g.minimal_dseparator(names[x], names[y])
                err = None
            except ValueError:
                r, err = None, "value"
            st, mr = drv.call_e("c08_minsep", [nodes, edges, lat, x, y, []])
            if adjacent:
                if err != "value" or st != "err":
                    return bad("impl!=model:minimal_dseparator-adjacent", {"x": x, "y": y, "impl_err": err, "model": [st, mr]})
                continue
            if err:
                return bad("impl!=model:minimal_dseparator-raises", {"x": x, "y": y})
            if r is None:
                if not lat:
                    return bad("impl!=spec:minimal_dseparator-none-without-latents", {"x": x, "y": y})
                if mr != []:
                    return bad("impl!=model:minimal_dseparator-none", {"x": x, "y": y, "model": mr})
                continue
            sep = sorted(idx[repr(u)] for u in r)
            if set(sep) & set(lat):
                return bad("impl!=spec:minimal_dseparator-has-latent", {"x": x, "y": y, "sep": sep, "lat": lat})
            if y in model_atn(drv, nodes, edges, x, sep):
                return bad("impl!=spec:minimal_dseparator-not-separating", {"x": x, "y": y, "sep": sep})
            for u in sep:
                if y not in model_atn(drv, nodes, edges, x, [w for w in sep if w != u]):
                    return bad("impl!=spec:minimal_dseparator-not-minimal", {"x": x, "y": y, "sep": sep, "drop": u})
            # differential: equals the model under some removal order
            if mr == []:
                return bad("impl!=model:minimal_dseparator-model-none", {"x": x, "y": y, "sep": sep})
            cand = set()
            base = drv.call("c08_minsep", [nodes, edges, lat, x, y, []])
            cand.add(tuple(sorted(base[0])))
            if tuple(sep) not in cand:
                # every candidate member of the initial separator (parents, or ancestors that replace latent
                # parents) lies among the proper ancestors of x and y
                anc, todo = set(), [x, y]
                while todo:
                    w = todo.pop()
                    for (u, v) in eset:
                        if v == w and u not in anc:
                            anc.add(u)
                            todo.append(u)
                pa = sorted((anc | set(sep)) - {x, y})
                for perm in itertools.islice(itertools.permutations(pa), 720):
                    m = drv.call("c08_minsep", [nodes, edges, lat, x, y, list(perm)])
                    cand.add(tuple(sorted(m[0])))
                    if tuple(sep) in cand:
                        break
            if tuple(sep) not in cand:
                return bad("impl!=model:minimal_dseparator-order", {"x": x, "y": y, "sep": sep, "model_any_order": sorted(cand)})
    return None


def run_misc(case, drv, g, names, nodes):
    n = case["n"]
    edges = [list(e) for e in case["edges"]]
    idx = {repr(nm): i for i, nm in enumerate(names)}
    rng = random.Random(case.get("qseed", 1))
    for v in range(n):
        ns = rng.sample(range(n), rng.randint(1, n))
        blanket, moral, agn, age, ndp, anc = drv.call("c08_misc", [nodes, edges, v, ns])
        got = sorted(idx[repr(u)] for u in g.get_markov_blanket(names[v]))
        if got != sorted(blanket):
            return bad("impl!=model:markov_blanket", {"v": v, "impl": got, "model": sorted(blanket)})
        ag = g.get_ancestral_graph([names[u] for u in ns])
        gn = sorted(idx[repr(u)] for u in ag.nodes())
        ge = sorted((idx[repr(a)], idx[repr(b)]) for a, b in ag.edges())
        if gn != sorted(agn) or ge != sorted(map(tuple, age)):
            return bad("impl!=model:ancestral_graph", {"ns": ns, "impl": [gn, ge], "model": [sorted(agn), sorted(age)]})
        ganc = sorted(idx[repr(u)] for u in g._get_ancestors_of([names[u] for u in ns]))
        if ganc != sorted(anc):
            return bad("impl!=model:ancestors", {"ns": ns, "impl": ganc, "model": sorted(anc)})
        if not all(isinstance(x, str) and x for x in names):
            continue  # IndependenceAssertion documents string variables only
        li = g.local_independencies(names[v]).get_assertions()
        if ndp:
            if len(li) != 1:
                return bad("impl!=model:local_independencies", {"v": v, "impl": str(li), "model": ndp})
            a = li[0]
            e1 = sorted(idx[repr(u)] for u in a.event1)
            e2 = sorted(idx[repr(u)] for u in a.event2)
            e3 = sorted(idx[repr(u)] for u in a.event3)
            pa = sorted(u for (u, w) in map(tuple, edges) if w == v)
            if e1 != [v] or e2 != sorted(ndp) or e3 != pa:
                return bad("impl!=model:local_independencies", {"v": v, "impl": [e1, e2, e3], "model": [[v], sorted(ndp), pa]})
        elif li:
            return bad("impl!=model:local_independencies", {"v": v, "impl": str(li), "model": []})
    mg = g.moralize()
    gm = sorted({tuple(sorted((idx[repr(a)], idx[repr(b)]))) for a, b in mg.edges()})
    mm = sorted({tuple(sorted(e)) for e in moral})
    if gm != mm or sorted(idx[repr(u)] for u in mg.nodes()) != sorted(nodes):
        return bad("impl!=model:moralize", {"impl": gm, "model": mm})
    return None


def run_indep(case, drv, g, names, nodes, lat, include_latents):
    """get_independencies(): exactly the assertions (start _|_ separated | observed) with non-empty separated set"""
    n = case["n"]
    edges = [list(e) for e in case["edges"]]
    idx = {repr(nm): i for i, nm in enumerate(names)}
    got = set()
    for a in g.get_independencies(include_latents=include_latents).get_assertions():
        got.add((frozenset(idx[repr(u)] for u in a.event1), frozenset(idx[repr(u)] for u in a.event2),
                 frozenset(idx[repr(u)] for u in a.event3)))
    exp = set()
    vis = [v for v in range(n) if include_latents or v not in lat]
    for start in vis:
        rest = [v for v in vis if v != start]
        for r in range(len(rest)):
            for Z in itertools.combinations(rest, r):
                # the model's asserted set (proved = visible nodes d-separated from start, C08_independencies)
                sepd = set(drv.call("c08_dsep", [nodes, edges, lat, include_latents, start, list(Z)]))
                act = model_atn(drv, nodes, edges, start, Z)
                if sepd != set(rest) - set(Z) - act:
                    return bad("model-inconsistent:dsep_vars", {"start": start, "Z": list(Z), "lat": lat})
                if sepd:
                    exp.add((frozenset([start]), frozenset(sepd), frozenset(Z)))
    if got != exp:
        d1 = [list(map(sorted, t)) for t in sorted(got - exp, key=str)[:3]]
        d2 = [list(map(sorted, t)) for t in sorted(exp - got, key=str)[:3]]
        return bad("impl!=model:get_independencies", {"impl_only": d1, "model_only": d2, "include_latents": include_latents})
    return None


def check_multi_start(g, names, nodes, edges, lat, rng, drv, tags):
    """active_trail_nodes with a LIST of start variables: every entry of the returned dict must be the
    answer for that start alone (the searches must not share visited state)"""
    n = len(names)
    if n < 2:
        return None
    idx = {repr(nm): i for i, nm in enumerate(names)}
    for _ in range(3):
        k = rng.randint(2, min(4, n))
        starts = rng.sample(range(n), k)
        rest = [v for v in range(n) if v not in starts]
        Z = rng.sample(rest, rng.randint(0, len(rest)))
        incl = rng.random() < 0.5
        got = g.active_trail_nodes([names[s] for s in starts], observed=[names[z] for z in Z],
                                   include_latents=incl)
        if sorted(repr(k_) for k_ in got) != sorted(repr(names[s]) for s in starts):
            return bad("impl!=model:active_trail_nodes-multi-keys", {"starts": starts, "impl_keys": [repr(k_) for k_ in got]})
        for s_ in starts:
            exp = model_atn(drv, nodes, edges, s_, Z)
            if not incl:
                exp = exp - set(lat)
            have = {idx[repr(x)] for x in got[names[s_]]}
            if have != exp:
                return bad("impl!=model:active_trail_nodes-multi-start",
                           {"starts": starts, "start": s_, "Z": sorted(Z), "include_latents": incl,
                            "impl": sorted(have), "model": sorted(exp), "lat": sorted(lat)})
        tags.append("multi-start=%d" % k)
    return None


def run_rand(case, drv):
    g, names, nodes = build(case)
    n = case["n"]
    edges = case["edges"]
    lat = case["lat"]
    rng = random.Random(case["qseed"])
    tags = ["rand n=%d" % n, "style=" + case["style"], "latents=%d" % len(lat)]
    for _ in range(12):
        start = rng.randrange(n)
        rest = [v for v in range(n) if v != start]
        Z = rng.sample(rest, rng.randint(0, len(rest)))
        forms = ["list", "tuple", "set"] + (["single"] if len(Z) == 1 and not isinstance(names[Z[0]], tuple) else []) + (["none"] if not Z else [])
        form = rng.choice(forms)
        incl = rng.random() < 0.5
        tags.append("observed-as=" + form)
        b = check_atn(g, names, nodes, edges, lat, start, Z, form, incl, drv, tags)
        if b:
            return b
        exp = model_atn(drv, nodes, edges, start, Z)
        end = rng.choice(rest)
        if end not in Z:
            d = g.is_dconnected(names[start], names[end], observed=zform(Z, names, "list"))
            if d != (end in exp):
                return bad("impl!=model:is_dconnected", {"start": start, "end": end, "Z": Z, "impl": d,
                                                           "model": end in exp, "lat": lat})
    b = check_multi_start(g, names, nodes, edges, lat, rng, drv, tags)
    if b:
        return b
    if n <= 7:
        b = run_minsep(case, drv, g, names, nodes, lat)
        if b:
            return b
    b = run_misc(case, drv, g, names, nodes)
    if b:
        return b
    if n <= 5 and all(isinstance(x, str) and x for x in names):
        b = run_indep(case, drv, g, names, nodes, lat, rng.random() < 0.5)
        if b:
            return b
        tags.append("get_independencies")
    # error path: unknown observed node
    try:
        g.active_trail_nodes(names[0], observed=["__nope__"])
        return bad("impl!=model:unknown-observed-accepted", {})
    except ValueError:
        pass
    # all routes once more with observed start nodes, duplicates, every argument form, argument purity and
    # result independence (same machinery as the object sessions, no edit)
    S = Sess(case.get("cls", "DAG"), g, dict(enumerate(names)), nodes, edges, lat, drv, case["style"])
    S.fixed = [sorted(rng.sample(range(n), rng.randint(1, min(3, n)))) for _ in range(2)]
    if case.get("cls") == "BN" and rng.random() < 0.5 and max([0] + [sum(1 for e in edges if e[1] == v) for v in nodes]) <= 6:
        attach_cpds(S)
        tags.append("bn with-cpds")
    b = S.q_round(rng, "rand", tags)
    if b:
        return b
    tags.append("cls=" + case.get("cls", "DAG"))
    tags.append("route=" + case.get("route", "add"))
    return ok(nontrivial=len(edges) > 0,
              key=common.canon_key(["rand", n, sorted(map(tuple, edges)), sorted(lat), case["style"], case["qseed"],
                                    case.get("cls", "DAG"), case.get("route", "add")]),
              tags=tags)


def run_exhlat(case, drv):
    n = case["n"]
    memo = {}
    for lat in case["lats"]:
        sub = {"kind": "exh", "n": n, "edges": case["edges"], "lat": lat}
        g, names, nodes = build(sub)
        b = run_minsep(sub, drv, g, names, nodes, lat)
        if b:
            b["detail"] = {"lat": lat, "inner": b.get("detail")}
            return b
        # include_latents in {True, False} for every start x every observed subset (start itself included:
        # an observed start node has no active trail nodes), answers of the model memoised per DAG
        for start in range(n):
            others = list(range(n))
            for r in range(0, n + 1):
                for Z in itertools.combinations(others, r):
                    if r > 2 and n >= 4 and (start + r + len(lat)) % 2:
                        continue
                    k_ = (start, Z)
                    if k_ not in memo:
                        memo[k_] = model_atn(drv, nodes, case["edges"], start, Z)
                    incl = bool((start + len(Z) + len(lat)) % 2)
                    exp = memo[k_] if incl else memo[k_] - set(lat)
                    got = g.active_trail_nodes(names[start], observed=[names[z] for z in Z], include_latents=incl)
                    got = {int(x[1:]) for x in got[names[start]]}
                    if got != exp:
                        return bad("impl!=model:active_trail_nodes-latents",
                                   {"lat": lat, "start": start, "Z": list(Z), "include_latents": incl,
                                    "impl": sorted(got), "model": sorted(exp)})
                    if Z and start not in Z and Z[0] != start:
                        d = g.is_dconnected(names[start], names[Z[0]], observed=[names[z] for z in Z[1:]])
                        k2 = (start, Z[1:])
                        if k2 not in memo:
                            memo[k2] = model_atn(drv, nodes, case["edges"], start, Z[1:])
                        if d != (Z[0] in memo[k2]):
                            return bad("impl!=model:is_dconnected-latents",
                                       {"lat": lat, "start": start, "end": Z[0], "Z": list(Z[1:]), "impl": d})
    return ok(nontrivial=True, key=common.canon_key(["exhlat", n, sorted(map(tuple, case["edges"]))]),
              tags=["exhlat n=%d" % n, "latent-sets=%d" % len(case["lats"])])


def _acyclic(n, edges):
    indeg = {v: 0 for v in range(n)}
    adj = {v: [] for v in range(n)}
    for u, v in edges:
        adj[u].append(v)
        indeg[v] += 1
    stack = [v for v in range(n) if indeg[v] == 0]
    seen = 0
    while stack:
        u = stack.pop()
        seen += 1
        for v in adj[u]:
            indeg[v] -= 1
            if indeg[v] == 0:
                stack.append(v)
    return seen == n


def run_session(case, drv):
    g, names, nodes = build(case)
    n = case["n"]
    edges = [tuple(e) for e in case["edges"]]
    rng = random.Random(case["qseed"])
    idx = {repr(nm): i for i, nm in enumerate(names)}
    tags = ["session n=%d" % n]
    history = []

    def query_all(step):
        for _ in range(3):
            start = rng.randrange(n)
            rest = [v for v in range(n) if v != start]
            Z = rng.sample(rest, rng.randint(0, len(rest)))
            exp = model_atn(drv, nodes, [list(e) for e in edges], start, Z)
            got = g.active_trail_nodes(names[start], observed=[names[z] for z in Z], include_latents=True)
            have = {idx[repr(x)] for x in got[names[start]]}
            if have != exp:
                return bad("impl!=model:session-active_trail_nodes",
                           {"step": step, "history": history, "edges_now": sorted(edges), "start": start,
                            "Z": sorted(Z), "impl": sorted(have), "model": sorted(exp)})
            for end in rest:
                if end in Z:
                    continue
                d = g.is_dconnected(names[start], names[end], observed=[names[z] for z in Z])
                if d != (end in exp):
                    return bad("impl!=model:session-is_dconnected",
                               {"step": step, "history": history, "edges_now": sorted(edges), "start": start,
                                "end": end, "Z": sorted(Z), "impl": d, "model": end in exp})
            ns = rng.sample(range(n), rng.randint(1, n))
            _, _, agn, age, _, anc = drv.call("c08_misc", [nodes, [list(e) for e in edges], start, ns])
            ganc = sorted(idx[repr(u)] for u in g._get_ancestors_of([names[u] for u in ns]))
            if ganc != sorted(anc):
                return bad("impl!=model:session-ancestors", {"step": step, "history": history,
                                                               "edges_now": sorted(edges), "ns": ns,
                                                               "impl": ganc, "model": sorted(anc)})
        return None

    b = query_all(0)
    if b:
        return b
    for step in range(1, case["steps"] + 1):
        kind = rng.choice(["swap", "swap", "reverse", "add", "remove"])
        eset = set(edges)
        done = None
        if kind in ("swap", "reverse", "remove") and edges:
            e = rng.choice(edges)
            if kind == "remove":
                g.remove_edge(names[e[0]], names[e[1]])
                edges.remove(e)
                done = ["remove", list(e)]
            elif kind == "reverse":
                cand = [x for x in edges if x != e] + [(e[1], e[0])]
                if _acyclic(n, cand):
                    g.remove_edge(names[e[0]], names[e[1]])
                    g.add_edge(names[e[1]], names[e[0]])
                    edges.remove(e)
                    edges.append((e[1], e[0]))
                    done = ["reverse", list(e)]
            else:
                pool = [(u, v) for u in range(n) for v in range(n) if u != v and (u, v) not in eset and (v, u) not in eset]
                rng.shuffle(pool)
                for f in pool:
                    cand = [x for x in edges if x != e] + [f]
                    if _acyclic(n, cand):
                        g.remove_edge(names[e[0]], names[e[1]])
                        g.add_edge(names[f[0]], names[f[1]])
                        edges.remove(e)
                        edges.append(f)
                        done = ["swap", list(e), list(f)]
                        break
        if done is None:
            pool = [(u, v) for u in range(n) for v in range(n) if u != v and (u, v) not in eset and (v, u) not in eset]
            rng.shuffle(pool)
            for f in pool:
                if _acyclic(n, edges + [f]):
                    g.add_edge(names[f[0]], names[f[1]])
                    edges.append(f)
                    done = ["add", list(f)]
                    break
        if done is None:
            continue
        history.append(done)
        tags.append("edit=" + done[0])
        b = query_all(step)
        if b:
            return b
    return ok(nontrivial=len(history) > 0,
              key=common.canon_key(["session", n, sorted(map(tuple, case["edges"])), case["qseed"]]), tags=tags)


# ====================================================================== object sessions
class _Junk(object):
    """a value that is in no graph (used to vandalise returned containers)"""
    def __repr__(self):
        return "<junk>"


JUNK = _Junk()


def _sortable(style):
    return style in ("str", "int", "tuple", "substr", "exh", "dbn", "nb")


def _strnames(names):
    return all(isinstance(x, str) and x for x in names)


def _reach(edges, src, back=False):
    """descendants (or ancestors with back=True) of the ids in src, src included"""
    adj = {}
    for u, v in edges:
        if back:
            u, v = v, u
        adj.setdefault(u, []).append(v)
    seen, todo = set(src), list(src)
    while todo:
        x = todo.pop()
        for y in adj.get(x, []):
            if y not in seen:
                seen.add(y)
                todo.append(y)
    return seen


class Sess(object):
    """one pgmpy graph object + the abstract state (ids, edges, latent ids) the model is asked about.
    Every route of the property is compared with the model ON THE CURRENT STATE."""

    def __init__(self, cls, g, names, nodes, edges, lat, drv, style):
        self.cls, self.g, self.drv, self.style = cls, g, drv, style
        self.names = dict(names)              # id -> name
        self.nodes = list(nodes)
        self.edges = [tuple(e) for e in edges]
        self.latset = set(lat)                # as coded: DAG.remove_node leaves the name in .latents
        self.history = []
        self.fixed = []
        self.fixed_pairs = []
        self.memo = {}
        self.idx = {repr(nm): i for i, nm in self.names.items()}
        self.nope = "__nope__"
        self.skip_local = False

    # ---- abstract state
    def nm(self, i):
        return fresh(self.names[i])

    def ident(self, x):
        return self.idx[repr(x)]

    def known(self, x):
        return repr(x) in self.idx

    def learn(self, i, name):
        self.names[i] = name
        self.idx[repr(name)] = i

    def blanket_check(self, v, blanket, stage):
        r = self.g.get_markov_blanket(self.nm(v))
        got = sorted(self.ident(u) for u in r)
        if got != sorted(blanket) or not isinstance(r, list):
            return bad("impl!=model:session-markov_blanket", self.where(stage=stage, v=v, impl=got, model=sorted(blanket)))
        r.append(JUNK)
        return None

    def lat(self):
        return sorted(self.latset & set(self.nodes))

    def E(self):
        return [list(e) for e in self.edges]

    def touch(self):
        self.memo = {}

    def atn(self, start, Z):
        k = (start, tuple(sorted(set(Z))))
        if k not in self.memo:
            self.memo[k] = set(self.drv.call("c08_atn", [self.nodes, self.E(), start, list(k[1])]))
        return self.memo[k]

    def where(self, **kw):
        d = {"cls": self.cls, "style": self.style, "names": {str(i): repr(v) for i, v in self.names.items() if i in self.nodes},
             "nodes": list(self.nodes), "edges": sorted(self.edges), "lat": self.lat(), "history": self.history}
        d.update(kw)
        return d

    def acyclic_with(self, extra):
        es = self.edges + list(extra)
        for (u, v) in extra:
            if u == v:
                return False
        for (u, v) in extra:
            if u in _reach([e for e in es if e != (u, v)], [v]):
                return False
        # several extra edges together
        ids = set(self.nodes) | {x for e in extra for x in e}
        indeg = {v: 0 for v in ids}
        adj = {v: [] for v in ids}
        for u, v in es:
            adj[u].append(v)
            indeg[v] += 1
        stack = [v for v in ids if indeg[v] == 0]
        seen = 0
        while stack:
            u = stack.pop()
            seen += 1
            for v in adj[u]:
                indeg[v] -= 1
                if indeg[v] == 0:
                    stack.append(v)
        return seen == len(ids)

    def check_state(self, stage):
        g = self.g
        try:
            gn = sorted(self.ident(x) for x in g.nodes())
            ge = sorted((self.ident(a), self.ident(b)) for a, b in g.edges())
        except KeyError as e:
            return bad("impl!=model:session-state", self.where(stage=stage, unknown_node=repr(e)))
        if gn != sorted(self.nodes) or ge != sorted(self.edges):
            return bad("impl!=model:session-state", self.where(stage=stage, impl_nodes=gn, impl_edges=ge))
        gl = sorted(self.ident(x) for x in g.latents if self.known(x) and self.ident(x) in self.nodes)
        if gl != self.lat():
            return bad("impl!=model:session-latents", self.where(stage=stage, impl_latents=gl))
        return None

    def model_edit(self, op, ns, es, stage):
        """the model's edit function applied to the previous state must give the tracked state"""
        prev_n, prev_e = self._prev
        mn, me = self.drv.call("c08_edit", [prev_n, [list(e) for e in prev_e], op, list(ns), [list(e) for e in es]])
        if sorted(mn) != sorted(self.nodes) or sorted(map(tuple, me)) != sorted(self.edges):
            return bad("model-inconsistent:edit", self.where(stage=stage, op=op, model=[sorted(mn), sorted(map(tuple, me))]))
        return None

    def begin_edit(self):
        self._prev = (list(self.nodes), list(self.edges))

    # ---- argument forms
    def zobj(self, Z, form):
        zs = [self.nm(z) for z in Z]
        if form == "list":
            return zs
        if form == "tuple":
            return tuple(zs)
        if form == "set":
            return set(zs)
        if form == "single":
            return zs[0]
        if form == "none":
            return None
        raise ValueError(form)

    def forms_for(self, Z):
        f = ["list", "tuple", "set"]
        if len(Z) == 1 and not isinstance(self.nm(Z[0]), (tuple, list, set)):
            f.append("single")
        if not Z:
            f.append("none")
        return f

    @staticmethod
    def snap(o):
        return (type(o), list(o) if isinstance(o, (list, tuple)) else (set(o) if isinstance(o, set) else o))

    # ---- the routes
    def q_atn(self, rng, stage, Z, tags):
        g = self.g
        lat = set(self.lat())
        form = rng.choice(self.forms_for(Z))
        zo = self.zobj(Z, form)
        before = self.snap(zo)
        starts = list(self.nodes) if len(self.nodes) <= 6 else rng.sample(self.nodes, 6)
        for start in starts:
            incl = rng.random() < 0.5
            exp = self.atn(start, Z)
            if not incl:
                exp = exp - lat
            r1 = g.active_trail_nodes(self.nm(start), observed=zo, include_latents=incl)
            if not isinstance(r1, dict) or [self.ident(k_) if self.known(k_) else -1 for k_ in r1] != [start]:
                return bad("impl!=model:active_trail_nodes-keys", self.where(stage=stage, start=start, impl=repr(r1)))
            got = {self.ident(x) for x in r1[self.nm(start)]}
            if got != exp:
                return bad("impl!=model:session-active_trail_nodes",
                           self.where(stage=stage, start=start, Z=sorted(Z), form=form, include_latents=incl,
                                      impl=sorted(got), model=sorted(exp)))
            if start in Z:
                tags.append("start-observed")
            if rng.random() < 0.3:
                # result independence: vandalise the returned containers, ask again
                r1[self.nm(start)].add(JUNK)
                r1[JUNK] = {JUNK}
                r2 = g.active_trail_nodes(self.nm(start), observed=zo, include_latents=incl)
                if r2 is r1 or r2[self.nm(start)] is r1[self.nm(start)] or len(r2) != 1 or \
                        any(not self.known(x) for x in r2[self.nm(start)]) or \
                        {self.ident(x) for x in r2[self.nm(start)]} != exp:
                    return bad("result-not-independent:active_trail_nodes",
                               self.where(stage=stage, start=start, Z=sorted(Z), impl=repr(r2)))
        if self.snap(zo) != before:
            return bad("mutated-argument:observed", self.where(stage=stage, Z=sorted(Z), form=form, after=repr(zo)))
        # a LIST of start variables (duplicates, observed members): each entry = the single-start answer
        if len(self.nodes) >= 2:
            k = rng.randint(2, min(4, len(self.nodes)))
            starts = rng.sample(self.nodes, k)
            if rng.random() < 0.3:
                starts.append(starts[0])
            so = [self.nm(s_) for s_ in starts]
            sbefore = list(so)
            incl = rng.random() < 0.5
            r = g.active_trail_nodes(so, observed=zo, include_latents=incl)
            if so != sbefore or self.snap(zo) != before:
                return bad("mutated-argument:variables", self.where(stage=stage, starts=starts))
            if any(not self.known(k_) for k_ in r) or sorted(self.ident(k_) for k_ in r) != sorted(set(starts)):
                return bad("impl!=model:active_trail_nodes-multi-keys", self.where(stage=stage, starts=starts, impl=repr(r)))
            for s_ in set(starts):
                exp = self.atn(s_, Z)
                if not incl:
                    exp = exp - lat
                have = {self.ident(x) for x in r[self.nm(s_)]}
                if have != exp:
                    return bad("impl!=model:session-active_trail_nodes-multi-start",
                               self.where(stage=stage, starts=starts, start=s_, Z=sorted(Z), include_latents=incl,
                                          impl=sorted(have), model=sorted(exp)))
            vals = list(r.values())
            if any(a is b_ for i_, a in enumerate(vals) for b_ in vals[i_ + 1:]):
                return bad("result-not-independent:active_trail_nodes-shared-sets", self.where(stage=stage, starts=starts))
        # is_dconnected (start or end may be observed: answer False)
        cur = set(self.nodes)
        for a, b_ in [p_ for p_ in self.fixed_pairs if p_[0] in cur and p_[1] in cur] + \
                [tuple(rng.sample(self.nodes, 2)) for _ in range(4 if len(self.nodes) >= 2 else 0)]:
            zo2 = self.zobj(Z, rng.choice(self.forms_for(Z)))
            d = g.is_dconnected(self.nm(a), self.nm(b_), observed=zo2)
            if d is not (b_ in self.atn(a, Z)):
                return bad("impl!=model:session-is_dconnected",
                           self.where(stage=stage, start=a, end=b_, Z=sorted(Z), impl=repr(d), model=b_ in self.atn(a, Z)))
        return None

    def q_rejected(self, rng, stage, tags):
        """rejected calls: a LATER invalid argument; nothing may stick to the object"""
        import networkx as nx
        g = self.g
        v = rng.choice(self.nodes)
        nope = self.nope
        for what, call in (("observed", lambda: g.active_trail_nodes(self.nm(v), observed=[self.nm(rng.choice(self.nodes)), nope])),
                           ("start", lambda: g.active_trail_nodes([self.nm(v), nope])),
                           ("ancestral", lambda: g.get_ancestral_graph([self.nm(v), nope])),
                           ("is_dconnected", lambda: g.is_dconnected(self.nm(v), self.nm(v), observed=[nope]))):
            try:
                call()
            except (ValueError, nx.NetworkXError, KeyError):
                tags.append("rejected=" + what)
                continue
            return bad("impl!=model:unknown-node-accepted", self.where(stage=stage, what=what))
        return None

    def q_anc(self, rng, stage, tags):
        g = self.g
        for _ in range(3):
            ns = rng.sample(self.nodes, rng.randint(0, min(4, len(self.nodes))))
            forms = ["list", "tuple"] + (["single"] if len(ns) == 1 and not isinstance(self.nm(ns[0]), (tuple, list, set)) else [])
            form = rng.choice(forms)
            no = self.nm(ns[0]) if form == "single" else self.zobj(ns, form)
            before = self.snap(no)
            v = rng.choice(self.nodes)
            blanket, moral, agn, age, ndp, anc = self.drv.call("c08_misc", [self.nodes, self.E(), v, ns])
            a1 = g._get_ancestors_of(no)
            ganc = sorted(self.ident(u) for u in a1)
            if ganc != sorted(anc):
                return bad("impl!=model:session-ancestors", self.where(stage=stage, ns=ns, form=form, impl=ganc, model=sorted(anc)))
            a1.add(JUNK)
            ag = g.get_ancestral_graph(no)
            gn = sorted(self.ident(u) for u in ag.nodes())
            ge = sorted((self.ident(a), self.ident(b_)) for a, b_ in ag.edges())
            if gn != sorted(agn) or ge != sorted(map(tuple, age)):
                return bad("impl!=model:session-ancestral_graph",
                           self.where(stage=stage, ns=ns, form=form, impl=[gn, ge], model=[sorted(agn), sorted(map(tuple, age))]))
            if self.snap(no) != before:
                return bad("mutated-argument:nodes", self.where(stage=stage, ns=ns, form=form))
            tags.append("ancestral-as=" + form)
            # ancestral graph, then its moral graph (the separation test of Lauritzen): DAG route and BN route
            amoral = sorted({tuple(sorted(e)) for e in self.drv.call("c08_misc", [sorted(agn), [list(e) for e in age], 0, []])[1]})
            am = ag.moralize()
            an_ = sorted(self.ident(u) for u in am.nodes())
            ae_ = sorted({tuple(sorted((self.ident(a), self.ident(b_)))) for a, b_ in am.edges()})
            if an_ != sorted(agn) or ae_ != amoral:
                return bad("impl!=model:ancestral-moralize", self.where(stage=stage, ns=ns, impl=[an_, ae_], model=[sorted(agn), amoral]))
            b = self.q_markov(ag, agn, amoral, stage, "ancestral-to_markov_model", tags)
            if b:
                return b
        return None

    def q_misc(self, rng, stage, tags):
        g = self.g
        vs = list(self.nodes) if len(self.nodes) <= 7 else rng.sample(self.nodes, 7)
        moral = None
        for v in vs:
            blanket, moral, _, _, ndp, _ = self.drv.call("c08_misc", [self.nodes, self.E(), v, [v]])
            b = self.blanket_check(v, blanket, stage)
            if b:
                return b
            if _strnames([self.nm(i) for i in self.nodes]) and not self.skip_local:
                li = g.local_independencies(self.nm(v)).get_assertions()
                pa = sorted(u for (u, w) in self.edges if w == v)
                exp = [] if not ndp else [([v], sorted(ndp), pa)]
                have = [([self.ident(u) for u in a.event1], sorted(self.ident(u) for u in a.event2),
                         sorted(self.ident(u) for u in a.event3)) for a in li]
                if have != exp:
                    return bad("impl!=model:session-local_independencies", self.where(stage=stage, v=v, impl=have, model=exp))
        if moral is None:
            moral = self.drv.call("c08_misc", [self.nodes, self.E(), self.nodes[0], []])[1]
        mg = g.moralize()
        gm = sorted({tuple(sorted((self.ident(a), self.ident(b_)))) for a, b_ in mg.edges()})
        mm = sorted({tuple(sorted(e)) for e in moral})
        if gm != mm or sorted(self.ident(u) for u in mg.nodes()) != sorted(self.nodes):
            return bad("impl!=model:session-moralize", self.where(stage=stage, impl=gm, model=mm))
        mg.add_edge(JUNK, self.nm(self.nodes[0]))
        b = self.q_markov(g, self.nodes, mm, stage, "to_markov_model", tags)
        if b:
            return b
        if True:
            r = g.get_immoralities()
            gi = sorted({tuple(sorted((self.ident(a), self.ident(b_)))) for a, b_ in r})
            mi = sorted({tuple(sorted(e)) for e in self.drv.call("c08_immor", [self.nodes, self.E()])})
            if gi != mi or not isinstance(r, set) or len(r) != len(mi):
                return bad("impl!=model:session-immoralities", self.where(stage=stage, impl=gi, model=mi))
            if _sortable(self.style):
                for a, b_ in r:
                    if not (a, b_) == tuple(sorted((a, b_))):
                        return bad("impl!=model:immoralities-pair-not-sorted", self.where(stage=stage, pair=[repr(a), repr(b_)]))
            r.add((JUNK, JUNK))
            tags.append("immoralities=" + ("0" if not mi else ("1-3" if len(mi) <= 3 else ">=4")))
        # several variables in one local_independencies call (list / tuple of variables)
        if _strnames([self.nm(i) for i in self.nodes]) and len(self.nodes) >= 2 and not self.skip_local:
            vs2 = rng.sample(self.nodes, rng.randint(2, min(4, len(self.nodes))))
            arg = [self.nm(i) for i in vs2]
            if rng.random() < 0.5:
                arg = tuple(arg)
            li = g.local_independencies(arg).get_assertions()
            have = {(frozenset(self.ident(u) for u in a.event1), frozenset(self.ident(u) for u in a.event2),
                     frozenset(self.ident(u) for u in a.event3)) for a in li}
            exp = set()
            for v in vs2:
                ndp = self.drv.call("c08_misc", [self.nodes, self.E(), v, [v]])[4]
                if ndp:
                    exp.add((frozenset([v]), frozenset(ndp), frozenset(u for (u, w) in self.edges if w == v)))
            if have != exp or len(li) != len(exp):
                return bad("impl!=model:session-local_independencies-list",
                           self.where(stage=stage, vs=vs2, impl=str(li), model=[list(map(sorted, t)) for t in exp]))
            tags.append("local-independencies-list")
        return None

    def q_markov(self, h, hnodes, moral_pairs, stage, what, tags):
        """BayesianNetwork.to_markov_model(): the moral graph again, through the BN route -- the SAME node set (isolated
        nodes, several components, edgeless graphs included) and the same edges as the model's moral graph; with CPDs one
        factor per node on its family"""
        if not hasattr(h, "to_markov_model"):
            return None
        mk = h.to_markov_model()
        try:
            kn = sorted(self.ident(u) for u in mk.nodes())
            ke = sorted({tuple(sorted((self.ident(a), self.ident(b_)))) for a, b_ in mk.edges()})
        except KeyError as e:
            return bad("impl!=model:" + what, self.where(stage=stage, unknown_node=repr(e)))
        if kn != sorted(hnodes) or ke != sorted(moral_pairs):
            return bad("impl!=model:" + what, self.where(stage=stage, sub_nodes=sorted(hnodes), impl=[kn, ke],
                                                         model=[sorted(hnodes), sorted(moral_pairs)]))
        if getattr(self, "with_cpds", False) and h is self.g:
            fam = sorted(sorted([v] + [u for (u, w) in self.edges if w == v]) for v in self.nodes)
            got = sorted(sorted(self.ident(u) for u in f.scope()) for f in mk.get_factors())
            if got != fam:
                return bad("impl!=model:" + what + "-factors", self.where(stage=stage, impl=got, model=fam))
        # a separation question on it: every node is there to be asked about
        for v in hnodes:
            nb_ = sorted(self.ident(u) for u in mk.markov_blanket(self.nm(v)))
            if nb_ != sorted({a if b_ == v else b_ for (a, b_) in moral_pairs if v in (a, b_)}):
                return bad("impl!=model:" + what + "-neighbours", self.where(stage=stage, v=v, impl=nb_))
        mk.add_node(JUNK)
        tags.append(what + (" isolated" if any(all(v not in e for e in moral_pairs) for v in hnodes) else " connected"))
        return None

    def q_minsep(self, rng, stage, tags, npairs=4):
        """minimal_dseparator on sampled pairs: adjacent -> ValueError; otherwise latent-free, separating, 1-minimal by
        the model's proven d-connection; None only if the model (any order) also finds none; never None without latents"""
        g = self.g
        lat = self.lat()
        eset = set(self.edges)
        if len(self.nodes) < 2:
            return None
        cur = set(self.nodes)
        pairs = [p_ for p_ in self.fixed_pairs if p_[0] in cur and p_[1] in cur] + \
                [tuple(rng.sample(self.nodes, 2)) for _ in range(npairs)]
        for x, y in pairs:
            adjacent = (x, y) in eset or (y, x) in eset
            try:
                r = g.minimal_dseparator(self.nm(x), self.nm(y))
                err = None
            except ValueError:
                r, err = None, "value"
            st, mr = self.drv.call_e("c08_minsep", [self.nodes, self.E(), lat, x, y, []])
            if adjacent:
                if err != "value" or st != "err":
                    return bad("impl!=model:session-minimal_dseparator-adjacent", self.where(stage=stage, x=x, y=y, impl_err=err))
                continue
            if err:
                return bad("impl!=model:session-minimal_dseparator-raises", self.where(stage=stage, x=x, y=y))
            if r is None:
                if not lat:
                    return bad("impl!=spec:session-minimal_dseparator-none-without-latents", self.where(stage=stage, x=x, y=y))
                if mr != []:
                    return bad("impl!=model:session-minimal_dseparator-none", self.where(stage=stage, x=x, y=y, model=mr))
                continue
            if not isinstance(r, set):
                return bad("impl!=model:session-minimal_dseparator-type", self.where(stage=stage, impl=repr(r)))
            sep = sorted(self.ident(u) for u in r)
            if set(sep) & set(lat):
                return bad("impl!=spec:session-minimal_dseparator-has-latent", self.where(stage=stage, x=x, y=y, sep=sep))
            if y in self.atn(x, sep):
                return bad("impl!=spec:session-minimal_dseparator-not-separating", self.where(stage=stage, x=x, y=y, sep=sep))
            for u in sep:
                if y not in self.atn(x, [w for w in sep if w != u]):
                    return bad("impl!=spec:session-minimal_dseparator-not-minimal", self.where(stage=stage, x=x, y=y, sep=sep, drop=u))
            if mr == []:
                return bad("impl!=model:session-minimal_dseparator-model-none", self.where(stage=stage, x=x, y=y, sep=sep))
            r.add(JUNK)
        tags.append("minsep-pairs")
        return None

    def q_indep(self, rng, stage, tags):
        g = self.g
        lat = self.lat()
        incl = rng.random() < 0.5
        # asked twice, the first answer vandalised in between (result independence)
        first = g.get_independencies(include_latents=incl)
        del first.independencies[:]
        second = g.get_independencies(include_latents=incl)
        if second is first:
            return bad("result-not-independent:get_independencies", self.where(stage=stage))
        got = set()
        for a in second.get_assertions():
            got.add((frozenset(self.ident(u) for u in a.event1), frozenset(self.ident(u) for u in a.event2),
                     frozenset(self.ident(u) for u in a.event3)))
        exp = set()
        vis = [v for v in self.nodes if incl or v not in lat]
        for start in vis:
            rest = [v for v in vis if v != start]
            for r in range(len(rest)):
                for Z in itertools.combinations(rest, r):
                    sepd = set(self.drv.call("c08_dsep", [self.nodes, self.E(), lat, incl, start, list(Z)]))
                    if sepd != set(rest) - set(Z) - self.atn(start, Z):
                        return bad("model-inconsistent:dsep_vars", self.where(stage=stage, start=start, Z=list(Z)))
                    if sepd:
                        exp.add((frozenset([start]), frozenset(sepd), frozenset(Z)))
        if got != exp:
            d1 = [list(map(sorted, t)) for t in sorted(got - exp, key=str)[:3]]
            d2 = [list(map(sorted, t)) for t in sorted(exp - got, key=str)[:3]]
            return bad("impl!=model:session-get_independencies",
                       self.where(stage=stage, impl_only=d1, model_only=d2, include_latents=incl))
        tags.append("session-get_independencies")
        return None

    def q_round(self, rng, stage, tags, indep=None):
        b = self.check_state(stage)
        if b:
            return b
        if not self.nodes:
            if self.g.active_trail_nodes([]) != {} or list(self.g.get_ancestral_graph([]).nodes()) or \
                    list(self.g.moralize().nodes()):
                return bad("impl!=model:empty-graph", self.where(stage=stage))
            return None
        cur = set(self.nodes)
        Zs = [[v for v in Z if v in cur] for Z in self.fixed]
        Zs.append(rng.sample(self.nodes, rng.randint(0, min(3, len(self.nodes)))))
        if rng.random() < 0.3:
            Zs.append([])
        if rng.random() < 0.3 and Zs[0]:
            Zs.append(Zs[0] + [Zs[0][0]])     # a duplicate in observed
        for Z in Zs:
            b = self.q_atn(rng, stage, Z, tags)
            if b:
                return b
        # degenerate arguments
        if self.g.active_trail_nodes([]) != {}:
            return bad("impl!=model:empty-start-list", self.where(stage=stage))
        for f in (self.q_rejected, self.q_anc, self.q_misc):
            b = f(rng, stage, tags)
            if b:
                return b
        if len(self.nodes) <= 8:
            b = self.q_minsep(rng, stage, tags)
            if b:
                return b
        if indep is None:
            indep = len(self.nodes) <= 4
        if indep and len(self.nodes) <= 5 and _strnames([self.nm(i) for i in self.nodes]):
            b = self.q_indep(rng, stage, tags)
            if b:
                return b
        return None


def _fresh_names(style, names, rng, k):
    """k names not used so far, in the style of the session"""
    used = {repr(x) for x in names.values()}
    out = []
    i = 0
    while len(out) < k:
        i += 1
        if style in ("str",):
            c = "N%d" % i
        elif style == "substr":
            c = rng.choice(["x1", "x", "G"]) + str(rng.randint(0, 30))
        elif style == "int":
            c = 1000 + i if rng.random() < 0.5 else -i
        elif style == "tuple":
            c = ("v", 100 + i)
        else:
            c = rng.choice(["m%d" % i, 2000 + i, ("w", i)])
        if repr(c) not in used:
            used.add(repr(c))
            out.append(c)
    return out


def contain(rng, items, kinds):
    """the same members in another documented container type (class O): list, tuple, set, dict view, one-shot
    generator, numpy array (only for names numpy keeps as scalars of one type)"""
    items = list(items)
    kinds = list(kinds)
    if "array" in kinds and not (items and (all(isinstance(x, str) for x in items) or
                                            all(isinstance(x, int) and not isinstance(x, bool) for x in items))):
        kinds.remove("array")
    k = rng.choice(kinds)
    if k == "tuple":
        return tuple(items), k
    if k == "set":
        return set(items), k
    if k == "keys":
        return dict.fromkeys(items).keys(), k
    if k == "gen":
        return (x for x in items), k
    if k == "array":
        import numpy as np
        return np.array(items), k
    return items, "list"


def run_gsess(case, drv):
    import networkx as nx
    g, names, nodes = build(case)
    rng = random.Random(case["qseed"])
    S = Sess(case["cls"], g, dict(enumerate(names)), nodes, case["edges"], case["lat"], drv, case["style"])
    n = case["n"]
    tags = ["gsess cls=%s" % case["cls"], "gsess n=%d" % n, "style=" + case["style"], "route=" + case["route"]]
    S.fixed = [sorted(rng.sample(range(n), rng.randint(1, min(3, n)))) for _ in range(rng.randint(2, 3))]
    S.fixed_pairs = [tuple(rng.sample(range(n), 2)) for _ in range(3)]
    small = n <= 5 and _strnames(names)
    b = S.q_round(rng, "initial", tags, indep=small and rng.random() < 0.5)
    if b:
        return b
    nxt = [max(S.names) + 1]

    def new_ids(k):
        ids = list(range(nxt[0], nxt[0] + k))
        nxt[0] += k
        for i, nm in zip(ids, _fresh_names(case["style"], S.names, rng, k)):
            S.learn(i, nm)
        return ids

    def target_edge():
        """an edge whose removal changes the ancestors of a fixed observed set, if there is one"""
        cur = set(S.nodes)
        for Z in rng.sample(S.fixed, len(S.fixed)):
            an = _reach(S.edges, [z for z in Z if z in cur], back=True)
            cand = [e for e in S.edges if e[1] in an]
            if cand:
                return rng.choice(cand)
        return rng.choice(S.edges)

    def add_candidates():
        es = set(S.edges)
        return [(u, v) for u in S.nodes for v in S.nodes
                if u != v and (u, v) not in es and (v, u) not in es and u not in _reach(S.edges, [v])]

    OPS = ["remove_edge"] * 4 + ["remove_edges_from"] * 3 + ["remove_node"] * 2 + ["remove_nodes_from"] + ["do"] * 3 + \
          ["do_copy", "add_node", "add_node_latent", "add_nodes_from", "add_edge", "add_edge", "add_edges_from", "reverse",
           "swap", "swap", "clear_edges", "clear", "latents", "update", "add_weighted_edges_from", "add_path", "copy",
           "rejected", "rejected"]
    for rd in range(1, case["rounds"] + 1):
        op = rng.choice(OPS)
        if op in ("remove_edge", "remove_edges_from", "reverse", "swap") and not S.edges:
            op = "add_edge"
        if op in ("remove_node", "remove_nodes_from") and len(S.nodes) <= 3:
            op = "add_nodes_from"
        if op in ("add_edge", "add_edges_from", "add_weighted_edges_from") and not add_candidates():
            op = "remove_edge" if S.edges else "add_node"
        if op in ("clear", "clear_edges") and rng.random() < 0.5:
            op = "do"
        S.begin_edit()
        stage = "round %d after %s" % (rd, op)
        nm = S.nm
        chk = None     # (model op, ns, es) or a list of them
        if op == "remove_edge":
            e = target_edge() if rng.random() < 0.7 else rng.choice(S.edges)
            g.remove_edge(nm(e[0]), nm(e[1]))
            S.edges.remove(e)
            chk = [(0, [], [e])]
            S.history.append([op, list(e)])
        elif op == "remove_edges_from":
            es = list({target_edge() for _ in range(rng.randint(1, 2))})
            absent = [(u, v) for u in S.nodes for v in S.nodes if u != v and (u, v) not in S.edges][:1]
            arg = [(nm(a), nm(c)) for a, c in es + absent] + [("__nope__", nm(S.nodes[0]))]
            before = list(arg)
            carg, ck = contain(rng, arg, ["list", "list", "tuple", "gen"])
            g.remove_edges_from(carg)
            tags.append("remove_edges_from as " + ck)
            if arg != before:
                return bad("mutated-argument:ebunch", S.where(stage=stage))
            for e in es:
                S.edges.remove(e)
            chk = [(0, [], es + absent)]
            S.history.append([op, [list(e) for e in es]])
        elif op == "remove_node":
            cur = set(S.nodes)
            an = sorted(_reach(S.edges, [z for Z in S.fixed for z in Z if z in cur], back=True))
            v = rng.choice(an) if an and rng.random() < 0.6 else rng.choice(S.nodes)
            g.remove_node(nm(v))
            S.nodes.remove(v)
            S.edges[:] = [e for e in S.edges if v not in e]
            if S.cls == "BN":
                S.latset.discard(v)
            chk = [(1, [v], [])]
            S.history.append([op, v])
        elif op == "remove_nodes_from":
            vs = rng.sample(S.nodes, 2 if len(S.nodes) > 4 else 1)
            arg = [nm(v) for v in vs] + ["__nope__"]
            arg, ck = contain(rng, arg, ["list", "list", "tuple", "gen"])
            tags.append("remove_nodes_from as " + ck)
            try:
                g.remove_nodes_from(arg)
                raised = False
            except ValueError:
                raised = True
            if raised != (S.cls == "BN"):
                return bad("impl!=model:remove_nodes_from-unknown-node", S.where(stage=stage, raised=raised))
            for v in vs:
                S.nodes.remove(v)
                if S.cls == "BN":
                    S.latset.discard(v)
            S.edges[:] = [e for e in S.edges if e[0] not in vs and e[1] not in vs]
            chk = [(1, vs, [])]
            S.history.append([op, vs])
        elif op in ("do", "do_copy"):
            cur = set(S.nodes)
            an = sorted(v for v in _reach(S.edges, [z for Z in S.fixed for z in Z if z in cur], back=True)
                        if any(e[1] == v for e in S.edges))
            vs = [rng.choice(an)] if an and rng.random() < 0.7 else rng.sample(S.nodes, rng.randint(1, 2))
            single = len(vs) == 1 and isinstance(nm(vs[0]), (str, int)) and rng.random() < 0.5
            arg = nm(vs[0]) if single else [nm(v) for v in vs]
            before = S.snap(arg)
            carg, ck = (arg, "single") if single else contain(rng, arg, ["list", "list", "tuple", "set", "keys", "gen", "array"])
            r = g.do(carg, inplace=(op == "do"))
            tags.append("do nodes as " + ck)
            if S.snap(arg) != before:
                return bad("mutated-argument:do-nodes", S.where(stage=stage))
            after = [e for e in S.edges if e[1] not in vs]
            if op == "do":
                if r is not g:
                    return bad("impl!=model:do-inplace-returns-copy", S.where(stage=stage))
                S.edges[:] = after
                chk = [(2, vs, [])]
            else:
                if r is g:
                    return bad("impl!=model:do-returns-self", S.where(stage=stage))
                # the copy answers for the mutilated graph, the original for its own (checked below)
                H = Sess(S.cls, r, S.names, S.nodes, after, S.lat(), drv, S.style)
                H.fixed, H.history = S.fixed, S.history + [["do_copy", vs]]
                b = H.check_state(stage + " (copy)")
                if b:
                    return b
                for Z in S.fixed:
                    b = H.q_atn(rng, stage + " (copy)", [z for z in Z if z in set(S.nodes)], tags)
                    if b:
                        return b
                r.add_edge(JUNK, nm(S.nodes[0]))
                chk = []
            S.history.append([op, vs])
        elif op == "add_node":
            (v,) = new_ids(1)
            l_ = rng.random() < 0.3
            g.add_node(nm(v), latent=l_) if rng.random() < 0.7 else g.add_node(nm(v), weight=0, latent=l_)
            S.nodes.append(v)
            if l_:
                S.latset.add(v)
            chk = [(3, [v], [])]
            S.history.append([op, v, l_])
        elif op == "add_node_latent":
            v = rng.choice(S.nodes)
            g.add_node(nm(v), latent=True)
            S.latset.add(v)
            chk = [(3, [v], [])]
            S.history.append([op, v])
        elif op == "add_nodes_from":
            vs = new_ids(2) + [rng.choice(S.nodes)] if S.nodes else new_ids(2)
            ls = [rng.random() < 0.3 for _ in vs]
            arg = [nm(v) for v in vs]
            larg = list(ls) if rng.random() < 0.7 else False
            if larg is False:
                ls = [False] * len(vs)
            carg, ck = contain(rng, arg, ["list", "list", "tuple", "gen", "keys"])
            g.add_nodes_from(carg, latent=(tuple(larg) if larg is not False and rng.random() < 0.5 else larg))
            tags.append("add_nodes_from as " + ck)
            for v, l_ in zip(vs, ls):
                if v not in S.nodes:
                    S.nodes.append(v)
                if l_:
                    S.latset.add(v)
            if larg is not False and larg != ls:
                return bad("mutated-argument:latent-list", S.where(stage=stage))
            chk = [(3, vs, [])]
            S.history.append([op, vs, ls])
        elif op in ("add_edge", "add_edges_from", "add_weighted_edges_from", "update", "add_path"):
            cand = add_candidates()
            rng.shuffle(cand)
            es = []
            for e in cand:
                if len(es) >= (1 if op == "add_edge" else 2):
                    break
                if S.acyclic_with(es + [e]):
                    es.append(e)
            newn = []
            if op in ("add_edges_from", "update", "add_path") and S.nodes:
                (v,) = new_ids(1)
                newn = [v]
                es.append((rng.choice(S.nodes), v) if rng.random() < 0.5 else (v, rng.choice(S.nodes)))
            if op == "add_path":
                es = es[-1:]
                (w,) = new_ids(1)
                newn.append(w)
                es.append((es[0][1], w) if es else (S.nodes[0], w))
                if not S.acyclic_with(es) or es[0][1] != es[1][0]:
                    es = es[:1]
            if not es:
                continue
            pairs = [(nm(a), nm(c)) for a, c in es]
            before = list(pairs)
            if op == "add_edge":
                w_ = rng.choice([None, 0, 0.5])
                g.add_edge(pairs[0][0], pairs[0][1], weight=w_) if w_ is not None else g.add_edge(*pairs[0])
            elif op == "add_edges_from":
                carg, ck = contain(rng, pairs, ["list", "list", "tuple", "gen", "keys"])
                g.add_edges_from(carg)
                tags.append("add_edges_from as " + ck)
            elif op == "add_weighted_edges_from":
                g.add_weighted_edges_from([(a, c, rng.choice([0, 1.5])) for a, c in pairs])
            elif op == "update":
                g.update(edges=pairs, nodes=[nm(v) for v in newn])
            else:
                path = [pairs[0][0], pairs[0][1]] + ([pairs[1][1]] if len(pairs) > 1 else [])
                nx.add_path(g, path)
            if pairs != before:
                return bad("mutated-argument:ebunch", S.where(stage=stage))
            for e in es:
                for v in e:
                    if v not in S.nodes:
                        S.nodes.append(v)
                S.edges.append(e)
            chk = [(4, [], es)]
            S.history.append([op, [list(e) for e in es]])
        elif op in ("reverse", "swap"):
            e = target_edge()
            rest = [x for x in S.edges if x != e]
            if op == "reverse":
                cands = [(e[1], e[0])]
            else:
                es_ = set(rest)
                cands = [(u, v) for u in S.nodes for v in S.nodes if u != v and (u, v) != e and (u, v) not in es_ and (v, u) not in es_]
                rng.shuffle(cands)
            f = None
            for c in cands:
                if c[0] not in _reach(rest, [c[1]]):
                    f = c
                    break
            if f is None:
                continue
            g.remove_edge(nm(e[0]), nm(e[1]))
            g.add_edge(nm(f[0]), nm(f[1]))
            S.edges.remove(e)
            S.edges.append(f)
            chk = [(0, [], [e]), (4, [], [f])]
            S.history.append([op, list(e), list(f)])
        elif op == "clear_edges":
            g.clear_edges()
            S.edges[:] = []
            chk = [(5, [], [])]
            S.history.append([op])
        elif op == "clear":
            keep = list(S.nodes)
            g.clear()
            S.nodes[:] = []
            S.edges[:] = []
            S.touch()
            b = S.model_edit(6, [], [], stage) or S.check_state(stage + " (cleared)")
            if b:
                return b
            # the same object is filled again (same names): a fresh random DAG on the old nodes
            order = list(keep)
            rng.shuffle(order)
            es = [(order[i], order[j]) for i in range(len(order)) for j in range(i + 1, len(order)) if rng.random() < 0.4]
            S.begin_edit()
            g.add_nodes_from([nm(v) for v in keep])
            g.add_edges_from([(nm(a), nm(c)) for a, c in es])
            S.nodes[:] = keep
            S.edges[:] = es
            chk = [(3, keep, []), (4, [], es)]
            S.history.append([op, [list(e) for e in es]])
        elif op == "latents":
            v = rng.choice(S.nodes)
            how = rng.choice(["add", "discard", "assign"])
            if how == "add":
                g.latents.add(nm(v))
                S.latset.add(v)
            elif how == "discard":
                g.latents.discard(nm(v))
                S.latset.discard(v)
            else:
                vs = rng.sample(S.nodes, rng.randint(0, min(2, len(S.nodes))))
                g.latents = {nm(x) for x in vs}
                S.latset = set(vs)
            chk = []
            S.history.append([op, how, v])
        elif op == "copy":
            # a copy is edited; the original must not notice (and the copy answers for its own edges)
            h = g.copy()
            if h is g:
                return bad("impl!=model:copy-returns-self", S.where(stage=stage))
            H = Sess(S.cls, h, S.names, S.nodes, S.edges, S.lat(), drv, S.style)
            H.fixed, H.history = S.fixed, S.history + [["copy"]]
            if H.edges:
                e = rng.choice(H.edges)
                h.remove_edge(nm(e[0]), nm(e[1]))
                H.edges.remove(e)
                H.history.append(["remove_edge", list(e)])
            b = H.check_state(stage + " (copy)")
            if b:
                return b
            if h.latents is g.latents:
                return bad("result-not-independent:copy-shares-latents", S.where(stage=stage))
            for Z in S.fixed:
                b = H.q_atn(rng, stage + " (copy)", [z for z in Z if z in set(S.nodes)], tags)
                if b:
                    return b
            chk = []
            S.history.append([op])
        elif op == "rejected":
            # calls that must be refused; the state afterwards is what the model says
            what = rng.choice(["cycle", "selfloop", "edges-then-cycle", "do-unknown", "remove-missing-edge", "remove-unknown-node"])
            chk = []
            try:
                if what == "cycle" and S.cls == "BN" and S.edges:
                    e = rng.choice(S.edges)
                    g.add_edge(nm(e[1]), nm(e[0]))
                elif what == "selfloop" and S.cls == "BN":
                    g.add_edge(nm(S.nodes[0]), nm(S.nodes[0]))
                elif what == "edges-then-cycle" and S.cls == "BN" and S.edges and add_candidates():
                    f = rng.choice(add_candidates())
                    e = rng.choice(S.edges)
                    S.edges.append(f)
                    chk = [(4, [], [f])]
                    g.add_edges_from([(nm(f[0]), nm(f[1])), (nm(e[1]), nm(e[0]))])
                elif what == "do-unknown":
                    g.do([nm(rng.choice(S.nodes)), "__nope__"], inplace=True)
                elif what == "remove-missing-edge":
                    absent = [(u, v) for u in S.nodes for v in S.nodes if u != v and (u, v) not in S.edges]
                    if not absent:
                        continue
                    u, v = rng.choice(absent)
                    g.remove_edge(nm(u), nm(v))
                elif what == "remove-unknown-node":
                    g.remove_node("__nope__")
                else:
                    continue
                return bad("impl!=model:invalid-edit-accepted", S.where(stage=stage, what=what))
            except (ValueError, nx.NetworkXError):
                pass
            S.history.append([op, what])
            tags.append("rejected-edit=" + what)
        if chk is None:
            continue
        S.touch()
        # the model's edit functions reproduce the tracked state
        if chk:
            pn, pe = S._prev
            for (mop, ns, es) in chk:
                pn, pe = drv.call("c08_edit", [pn, [list(e) for e in pe], mop, list(ns), [list(e) for e in es]])
            if sorted(pn) != sorted(S.nodes) or sorted(map(tuple, pe)) != sorted(S.edges):
                return bad("model-inconsistent:edit", S.where(stage=stage, model=[sorted(pn), sorted(map(tuple, pe))]))
        tags.append("edit=" + op)
        b = S.q_round(rng, stage, tags, indep=small and len(S.nodes) <= 5 and rng.random() < 0.4)
        if b:
            return b
    return ok(nontrivial=len(S.history) > 0,
              key=common.canon_key(["gsess", case["cls"], n, sorted(map(tuple, case["edges"])), sorted(case["lat"]),
                                    case["style"], case["route"], case["qseed"]]), tags=sorted(set(tags)))


def attach_cpds(S):
    """a parameterised BayesianNetwork: one binary TabularCPD per node (uniform columns) on its family"""
    from pgmpy.factors.discrete import TabularCPD
    for v in S.nodes:
        pa = [u for (u, w) in S.edges if w == v]
        k = 2 ** len(pa)
        if pa:
            cpd = TabularCPD(S.nm(v), 2, [[0.5] * k, [0.5] * k], evidence=[S.nm(u) for u in pa], evidence_card=[2] * len(pa))
        else:
            cpd = TabularCPD(S.nm(v), 2, [[0.5], [0.5]])
        S.g.add_cpds(cpd)
    S.with_cpds = True


def run_exhbn(case, drv):
    """a BayesianNetwork object for every DAG on <= 4 nodes: the structural routes (own get_markov_blanket)"""
    sub = dict(case, kind="exh", cls="BN")
    g, names, nodes = build(sub)
    S = Sess("BN", g, dict(enumerate(names)), nodes, case["edges"], [], drv, "exh")
    rng = random.Random(len(case["edges"]) * 31 + case["n"])
    tags = ["exhbn n=%d" % case["n"]]
    if (len(case["edges"]) + case["n"]) % 2 == 0:
        attach_cpds(S)
        tags.append("exhbn with-cpds")
    for f in (S.q_anc, S.q_misc):
        b = f(rng, "exhbn", tags)
        if b:
            return b
    b = S.q_minsep(rng, "exhbn", tags, npairs=3)
    if b:
        return b
    return ok(nontrivial=len(case["edges"]) > 0,
              key=common.canon_key(["exhbn", case["n"], sorted(map(tuple, case["edges"]))]), tags=tags)


# ====================================================================== DynamicBayesianNetwork objects
class DSess(Sess):
    """a DynamicBayesianNetwork: node id 2*var + slice <-> (name, slice); names are handed to pgmpy as tuples
    or as DynamicNode objects (self.flip)"""

    def __init__(self, g, varnames, nodes, edges, drv):
        self.varnames = list(varnames)
        names = {2 * i + t: (v, t) for i, v in enumerate(varnames) for t in (0, 1)}
        Sess.__init__(self, "DBN", g, names, nodes, edges, [], drv, "dbn")
        self.idx = {nm: i for i, nm in names.items()}
        self.nope = ("__nope__", 0)
        self.flip = False
        self.regular = True
        self.intra, self.inter = [], []      # (var, var) pairs, while the network is regular

    def nm(self, i):
        if self.flip:
            from pgmpy.models.DynamicBayesianNetwork import DynamicNode
            return DynamicNode(*fresh(self.names[i]))
        return fresh(self.names[i])

    @staticmethod
    def _t(x):
        return (x[0], x[1])

    def ident(self, x):
        return self.idx[self._t(x)]

    def known(self, x):
        try:
            return self._t(x) in self.idx
        except (TypeError, IndexError, KeyError):
            return False

    def learn_var(self, v):
        i = len(self.varnames)
        self.varnames.append(v)
        for t in (0, 1):
            self.names[2 * i + t] = (v, t)
            self.idx[(v, t)] = 2 * i + t
        return i

    def zobj(self, Z, form):
        if form == "single":
            return fresh(self.names[Z[0]])      # a single observed node is given as a (name, slice) tuple
        return Sess.zobj(self, Z, form)

    def forms_for(self, Z):
        f = ["list", "tuple"] + (["set"] if len(set(Z)) != 2 else [])   # a set of exactly two observed nodes: see RULE
        if len(Z) == 1:
            f.append("single")
        if not Z:
            f.append("none")
        return f

    def blanket_check(self, v, blanket, stage):
        """DynamicBayesianNetwork.get_markov_blanket AS CODED: the DAG blanket, and for a node of the last slice
        the children of its previous-slice twin and those children's parents, all moved one slice on (nodes of
        slice 2 appear in the answer).  While the network is regular this is the blanket of the node in the
        network unrolled to three slices, PLUS the node itself whenever its twin has a child (as coded)."""
        var, t = self.names[v]
        cur = set(self.nodes)
        max_ts = max(self.names[i][1] for i in cur)
        exp = {self.names[u] for u in blanket}
        tc = []
        if t == max_ts:
            if (var, t - 1) not in self.idx or self.idx[(var, t - 1)] not in cur:
                return None     # the code looks the twin up in the graph: not a d-separation question
            twin = self.idx[(var, t - 1)]
            tc = [c for (p, c) in self.edges if p == twin]
            for c in tc:
                exp.add((self.names[c][0], self.names[c][1] + 1))
                for (p, c2) in self.edges:
                    if c2 == c:
                        exp.add((self.names[p][0], self.names[p][1] + 1))
        r = self.g.get_markov_blanket(self.nm(v))
        got = [self._t(x) for x in r]
        if set(got) != exp or got != sorted(got) or not isinstance(r, list):
            return bad("impl!=model:dbn-markov_blanket", self.where(stage=stage, v=v, impl=got, model=sorted(exp)))
        if self.regular and t == 1 and max_ts == 1:
            k = len(self.varnames)
            un = [3 * i + s_ for i in range(k) for s_ in range(3)]
            ue = [[3 * a + s_, 3 * b_ + s_] for (a, b_) in self.intra for s_ in range(3)] + \
                 [[3 * a + s_, 3 * b_ + s_ + 1] for (a, b_) in self.inter for s_ in range(2)]
            spec = self.drv.call("c08_misc", [un, ue, 3 * self.varnames.index(var) + 1, []])[0]
            spec = {(self.varnames[u // 3], u % 3) for u in spec}
            if set(got) - {(var, 1)} != spec or ((var, 1) in got) != bool(tc):
                return bad("impl!=spec:dbn-markov_blanket-unrolled",
                           self.where(stage=stage, v=v, impl=got, spec=sorted(spec), intra=self.intra, inter=self.inter))
        r.append(JUNK)
        return None


def run_dbn(case, drv):
    import networkx as nx
    from pgmpy.models import DynamicBayesianNetwork as DBN
    rng = random.Random(case["qseed"])
    k = case["nvars"]
    varnames = rng.sample(["A", "B", "C", "D", "X1", "X10", "G", "G2"], k)
    order = list(range(k))
    rng.shuffle(order)
    intra = [(order[i], order[j]) for i in range(k) for j in range(i + 1, k) if rng.random() < 0.45]
    inter = [(a, b_) for a in range(k) for b_ in range(k) if rng.random() < (0.5 if a == b_ else 0.2)]
    if not intra and not inter:
        inter = [(0, 0)]
    nodes, edges = [], []

    def note_node(i):
        if i not in nodes:
            nodes.append(i)

    def note_add(kind, a, b_):
        """DynamicBayesianNetwork.add_edge as documented: an intra-slice edge is stored in both slices, an
        inter-slice edge once (its head also gets a slice-0 node)"""
        if kind == "intra":
            for t in (0, 1):
                note_node(2 * a + t)
                note_node(2 * b_ + t)
                if (2 * a + t, 2 * b_ + t) not in edges:
                    edges.append((2 * a + t, 2 * b_ + t))
        else:
            note_node(2 * a)
            note_node(2 * b_ + 1)
            note_node(2 * b_)
            if (2 * a, 2 * b_ + 1) not in edges:
                edges.append((2 * a, 2 * b_ + 1))

    def ebunch_of(kind, a, b_):
        if kind == "intra":
            t = rng.choice([0, 1])
            return ((fresh(varnames[a]), t), (fresh(varnames[b_]), t))
        t = rng.choice([0, 0, 1])       # (t, t+1) is normalised to (0, 1)
        return ((fresh(varnames[a]), t), (fresh(varnames[b_]), t + 1))

    plan = [("intra", a, b_) for a, b_ in intra] + [("inter", a, b_) for a, b_ in inter]
    rng.shuffle(plan)
    eb = [ebunch_of(*p_) for p_ in plan]
    for p_ in plan:
        note_add(*p_)
    route = rng.choice(["ctor", "add_edges_from", "add_edge"])
    before = list(eb)
    if route == "ctor":
        g = DBN(eb)
    else:
        g = DBN()
        if route == "add_edges_from":
            g.add_edges_from(eb)
        else:
            for e in eb:
                g.add_edge(*e)
    if eb != before:
        return bad("mutated-argument:ebunch", {"route": route})
    S = DSess(g, varnames, nodes, edges, drv)
    S.intra, S.inter = list(intra), list(inter)
    S.nodes, S.edges, S.varnames = nodes, edges, varnames        # shared with note_add / ebunch_of
    tags = ["dbn vars=%d" % k, "dbn route=" + route]
    S.fixed = [sorted(rng.sample(nodes, rng.randint(1, min(3, len(nodes))))) for _ in range(2)]
    S.fixed_pairs = [tuple(rng.sample(nodes, 2)) for _ in range(2)] if len(nodes) >= 2 else []
    b = S.q_round(rng, "initial", tags)
    if b:
        return b
    for rd in range(1, case["rounds"] + 1):
        op = rng.choice(["add_intra", "add_inter", "add_var", "remove_edge", "remove_edge", "remove_edges_from",
                         "remove_node", "do", "do", "rejected"])
        S.flip = rng.random() < 0.4
        stage = "round %d after %s" % (rd, op)
        nm = S.nm
        S.begin_edit()
        if op in ("add_intra", "add_inter", "add_var"):
            kk = len(S.varnames)
            if op == "add_var":
                a = S.learn_var("N%d" % rd)
                b_ = rng.randrange(kk)
                kind = rng.choice(["intra", "inter"])
                if rng.random() < 0.5:
                    a, b_ = b_, a
            else:
                kind = op[4:]
                a, b_ = rng.randrange(kk), rng.randrange(kk)
            if kind == "intra":
                if a == b_ or (2 * a, 2 * b_) in S.edges or (2 * a + 1, 2 * b_ + 1) in S.edges:
                    continue
                trial = S.edges + [(2 * a, 2 * b_), (2 * a + 1, 2 * b_ + 1)]
                if 2 * a in _reach(S.edges, [2 * b_]) or 2 * a + 1 in _reach(S.edges, [2 * b_ + 1]) or \
                        2 * a + 1 in _reach(trial[:-1], [2 * b_ + 1]):
                    continue
            e = ebunch_of(kind, a, b_)
            g.add_edge(*e)
            note_add(kind, a, b_)
            (S.intra if kind == "intra" else S.inter).append((a, b_))
            S.history.append([op, kind, a, b_])
        elif op in ("remove_edge", "remove_edges_from"):
            if not S.edges:
                continue
            es = rng.sample(S.edges, 1 if op == "remove_edge" else min(2, len(S.edges)))
            if op == "remove_edge":
                g.remove_edge(nm(es[0][0]), nm(es[0][1]))
            else:
                g.remove_edges_from([(nm(a), nm(c)) for a, c in es])
            for e in es:
                S.edges.remove(e)
            S.regular = False
            S.history.append([op, [list(e) for e in es]])
        elif op == "remove_node":
            if len(S.nodes) <= 2:
                continue
            v = rng.choice(S.nodes)
            g.remove_node(nm(v))
            S.nodes.remove(v)
            S.edges[:] = [e for e in S.edges if v not in e]
            S.regular = False
            S.history.append([op, v])
        elif op == "do":
            vs = rng.sample(S.nodes, 1)
            r = g.do([nm(v) for v in vs], inplace=True)
            if r is not g:
                return bad("impl!=model:do-inplace-returns-copy", S.where(stage=stage))
            S.edges[:] = [e for e in S.edges if e[1] not in vs]
            S.regular = False
            S.history.append([op, vs])
        else:
            what = rng.choice(["backward", "gap", "selfloop", "cycle"])
            a, b_ = S.varnames[0], S.varnames[-1]
            try:
                if what == "backward":
                    g.add_edge((a, 1), (b_, 0))
                elif what == "gap":
                    g.add_edge((a, 0), (b_, 2))
                elif what == "selfloop":
                    g.add_edge((a, 0), (a, 0))
                else:
                    back = [(p, c) for (p, c) in S.edges if S.names[p][1] == 0 and S.names[c][1] == 0]
                    if not back:
                        continue
                    p, c = rng.choice(back)
                    g.add_edge(S.names[c], S.names[p])
                return bad("impl!=model:invalid-edit-accepted", S.where(stage=stage, what=what))
            except (ValueError, NotImplementedError):
                pass
            S.history.append([op, what])
            tags.append("rejected-edit=" + what)
        S.touch()
        tags.append("edit=" + op)
        b = S.q_round(rng, stage, tags)
        if b:
            return b
    return ok(nontrivial=True, key=common.canon_key(["dbn", k, case["qseed"]]), tags=sorted(set(tags)))


# ====================================================================== NaiveBayes objects
def _nb_names(rng, style, k):
    """k distinct node names; the first is the class variable (never a falsy name: NaiveBayes.add_edge tests
    `if self.dependent`)"""
    if style == "char":
        return rng.sample("abcdefghijklmnopqrstuvwxyz", k)
    if style == "str":
        return rng.sample(["dep", "f1", "f2", "f10", "feat", "feature", "y", "cls", "target", "d", "de", "ep",
                           "f", "1", "x_1", "x_2", "x_12", "label", "a b"], k)
    if style == "substr":
        return substr_names(rng, k)
    if style == "int":
        return [x + (300 if x % 2 else 0) for x in rng.sample(range(1, k + 6), k)]
    if style == "tuple":
        return [("v", i) for i in rng.sample(range(k + 4), k)]
    pool = ["x", 3, ("t", 1), "y1", 7, "zz", ("u", 2), "w", 11, "q", 5, "r", 13, "y10"]
    return rng.sample(pool, k)


def _nb_build(case, drv):
    from pgmpy.models import NaiveBayes
    rng = random.Random(case["qseed"])
    f = case["nfeat"]
    style = case.get("style", "char")
    allnames = _nb_names(rng, style, f + 4)
    dep, feats, spare = allnames[0], allnames[1:f + 1], allnames[f + 1:]
    route = rng.choice(["ctor", "add_edges_from", "add_edge"])
    if route == "ctor":
        farg = list(feats)
        g = NaiveBayes(feature_vars=farg, dependent_var=dep)
        if farg != feats:
            raise AssertionError("NaiveBayes changed its feature_vars argument")
    else:
        g = NaiveBayes()
        if route == "add_edges_from":
            g.add_edges_from([(dep, x) for x in feats])
        else:
            for x in feats:
                g.add_edge(dep, x)
    names = {0: dep}
    for i, x in enumerate(feats):
        names[i + 1] = x
    S = Sess("NB", g, names, list(names), [(0, i + 1) for i in range(f)], [], drv,
             "nb" if style in ("char", "str", "substr", "int", "tuple") else "mixed")
    return S, g, rng, dep, feats, spare, route, style


def _nb_forms(S, Z, style):
    """NaiveBayes.active_trail_nodes documents `observed` as a list of nodes; a single node is handed over only as a
    one-character string (the override applies `in` and set() to the argument)"""
    f = ["list", "tuple", "set"]
    if len(Z) == 1 and style == "char":
        f.append("single")
    if not Z:
        f.append("none")
    return f


def run_nb(case, drv):
    """NaiveBayes overrides active_trail_nodes (returns a SET, closed form), _get_ancestors_of and local_independencies;
    compared with the model on the star graph for every name style (start not observed: the observed-start case is the
    open finding, stream nbopen); the DAG routes it inherits and that work on it (ancestral graph, blanket, moral graph,
    immoralities, local independencies) go through the common code"""
    S, g, rng, dep, feats, spare, route, style = _nb_build(case, drv)
    f = case["nfeat"]
    tags = ["nb features=%d" % f, "nb route=" + route, "nb style=" + style]

    def queries(stage):
        b = S.check_state(stage)
        if b:
            return b
        for _ in range(8):
            start = rng.choice(S.nodes)
            rest = [v for v in S.nodes if v != start]
            Z = rng.sample(rest, rng.randint(0, len(rest)))
            form = rng.choice(_nb_forms(S, Z, style))
            zo = S.zobj(Z, form)
            before = S.snap(zo)
            r = g.active_trail_nodes(S.nm(start), observed=zo)
            got = {S.ident(x) for x in r} if all(S.known(x) for x in r) else None
            if got != S.atn(start, Z) or not isinstance(r, set):
                return bad("impl!=model:naivebayes-active_trail_nodes",
                           S.where(stage=stage, start=start, Z=sorted(Z), form=form, impl=repr(r), model=sorted(S.atn(start, Z))))
            if S.snap(zo) != before:
                return bad("mutated-argument:observed", S.where(stage=stage, Z=sorted(Z), form=form))
            r.add(JUNK)
            r2 = g.active_trail_nodes(S.nm(start), observed=zo)
            if r2 is r or JUNK in r2:
                return bad("result-not-independent:naivebayes-active_trail_nodes", S.where(stage=stage))
            tags.append("nb observed-as=" + form)
        b = S.q_anc(rng, stage, tags)
        if b:
            return b
        return S.q_misc(rng, stage, tags)

    b = queries("initial")
    if b:
        return b
    # a session: one more feature through add_edge, same questions again; an edge that is not allowed
    for x in spare[:rng.randint(1, 2)]:
        i = max(S.names) + 1
        S.learn(i, x)
        g.add_edge(dep, x)
        S.nodes.append(i)
        S.edges.append((0, i))
        S.touch()
        S.history.append(["add_edge", i])
        b = queries("after add_edge")
        if b:
            return b
    try:
        g.add_edge(S.nm(1), spare[-1])
        return bad("impl!=model:invalid-edit-accepted", S.where(what="edge from a feature"))
    except ValueError:
        pass
    b = queries("after rejected add_edge")
    if b:
        return b
    return ok(nontrivial=True, key=common.canon_key(["nb", f, style, case["qseed"]]), tags=sorted(set(tags)))


NB_OPEN = "naivebayes-inherited-dsep-routes"


def run_nbopen(case, drv):
    """open finding naivebayes-inherited-dsep-routes, diagnosed narrowly: (a) TypeError out of the inherited
    is_dconnected / get_independencies / minimal_dseparator on a NaiveBayes object, (b) active_trail_nodes with the start
    node among the observed nodes returning the override's closed form instead of the empty set.  A route that answers
    is compared with the model; any other deviation is an unlisted violation."""
    S, g, rng, dep, feats, spare, route, style = _nb_build(case, drv)
    tags = ["nbopen features=%d" % case["nfeat"], "nbopen style=" + style]
    hit = None
    # (b) observed start node
    for _ in range(4):
        start = rng.choice(S.nodes)
        rest = [v for v in S.nodes if v != start]
        Z = [start] + rng.sample(rest, rng.randint(0, len(rest)))
        rng.shuffle(Z)
        zo = S.zobj(Z, rng.choice(["list", "tuple", "set"]))
        r = g.active_trail_nodes(S.nm(start), observed=zo)
        got = {S.ident(x) for x in r} if all(S.known(x) for x in r) else None
        if got == S.atn(start, Z):
            continue
        as_coded = {start} if 0 in Z else set(S.nodes) - set(Z)
        if got == as_coded and isinstance(r, set):
            hit = hit or ("observed-start", {"start": start, "Z": sorted(Z), "impl": sorted(got), "model": []})
            continue
        return bad("impl!=model:naivebayes-active_trail_nodes-observed-start",
                   S.where(start=start, Z=sorted(Z), impl=repr(r), model=sorted(S.atn(start, Z))))
    # (a) inherited routes
    if len(S.nodes) >= 2:
        a, b_ = rng.sample(S.nodes, 2)
        rest = [v for v in S.nodes if v not in (a, b_)]
        Z = rng.sample(rest, rng.randint(0, len(rest)))
        try:
            d = g.is_dconnected(S.nm(a), S.nm(b_), observed=[S.nm(z) for z in Z])
            if d is not (b_ in S.atn(a, Z)):
                return bad("impl!=model:naivebayes-is_dconnected", S.where(start=a, end=b_, Z=sorted(Z), impl=repr(d)))
        except TypeError as e:
            if "include_latents" not in str(e):
                raise
            hit = hit or ("is_dconnected", {"start": a, "end": b_, "Z": sorted(Z), "error": str(e)[:200]})
    if len(S.nodes) >= 3:
        x, y = rng.sample(S.nodes[1:], 2)       # two features: never adjacent
        try:
            r = g.minimal_dseparator(S.nm(x), S.nm(y))
            sep = sorted(S.ident(u) for u in r) if r is not None else None
            if sep != [0]:
                return bad("impl!=spec:naivebayes-minimal_dseparator", S.where(x=x, y=y, impl=repr(r), spec=[0]))
        except TypeError as e:
            if "include_latents" not in str(e):
                raise
            hit = hit or ("minimal_dseparator", {"x": x, "y": y, "error": str(e)[:200]})
    if _strnames([S.nm(i) for i in S.nodes]) and 2 <= len(S.nodes) <= 5:
        try:
            g.get_independencies()
            b = S.q_indep(rng, "nbopen", tags)
            if b:
                return b
        except TypeError as e:
            if "include_latents" not in str(e):
                raise
            hit = hit or ("get_independencies", {"error": str(e)[:200]})
    key = common.canon_key(["nbopen", case["nfeat"], style, case["qseed"]])
    if hit:
        return bad("impl!=spec:naivebayes-inherited-route:" + hit[0], S.where(**hit[1]), finding=NB_OPEN, key=key,
                   tags=tags + ["nbopen hit=" + hit[0]])
    return ok(nontrivial=True, key=key, tags=tags)


def run_case(case, drv):
    if case["kind"] == "session":
        return run_session(case, drv)
    if case["kind"] == "exh":
        return run_exh(case, drv)
    if case["kind"] == "exhlat":
        return run_exhlat(case, drv)
    if case["kind"] == "exhbn":
        return run_exhbn(case, drv)
    if case["kind"] == "gsess":
        return run_gsess(case, drv)
    if case["kind"] == "dbn":
        return run_dbn(case, drv)
    if case["kind"] == "nb":
        return run_nb(case, drv)
    if case["kind"] == "nbopen":
        return run_nbopen(case, drv)
    return run_rand(case, drv)
