"""C18 correspondence: pgmpy independence reasoning (Independencies.closure/entails/is_equivalent,
IndependenceAssertion ==/hash, DAG.is_iequivalent, JointProbabilityDistribution.check_independence /
get_independencies / minimal_imap / is_imap) vs the Coq model of coq/C18/Model.v, and vs the
specification (semi-graphoid derivability, skeleton + v-structures, exact independence, I-map)."""
import itertools
import random
from fractions import Fraction

from harness import common
from harness.common import ok, bad

PROP = "C18"
LEVEL = "proof"
HASHSEEDS = {"quick": [0, 1, 2, 3], "thorough": [0, 1, 2, 3, 4, 5, 6, 7]}
BUDGET_S = {"quick": 110, "thorough": 1200}
EXHAUSTIVE = {"quick": False, "thorough": True}
RULE = ("closure/entails/is_equivalent: EVERY set of assertions over 3 variables (512 sets of the 9 well-formed "
        "classes), every single assertion and (thorough: every, quick: a seeded fifth of the) pair of assertions over 4 variables, plus random sets (1-6 assertions, 3-5 variables, "
        "some with overlapping events, duplicates, swapped duplicates): pgmpy closure == as-coded model closure as "
        "sets up to symmetry; as-coded vs repaired model vs an independent brute-force semi-graphoid closure decide "
        "the known finding.  is_iequivalent: every ordered pair of DAGs on <=3 nodes, every DAG on 4 nodes against "
        "all DAGs with the same skeleton plus random others (thorough: all 543x543 pairs), random 5-7 node pairs "
        "differing by edge reversals, extra isolated nodes, str/int/tuple names: pgmpy == model == independent "
        "skeleton+v-structure computation.  joint tables (2-4 variables, cards 2-3, dyadic cells): product-form, "
        "conditionally independent by construction, XOR, context-specific, generic, with zeros, slightly perturbed; "
        "check_independence in all three event3 modes with 1-2 variables per event, get_independencies, "
        "minimal_imap for EVERY order, is_imap on both classes.  sessions: ONE Independencies object (plus one `other`) "
        "through 4-8 steps of closure / entails / is_equivalent / contains / add_assertions (objects, lists, tuples) / "
        "get_assertions / reduce / mutation of the object returned by closure(), each session containing query -> add "
        "-> query, compared with the as-coded model on the CURRENT assertion list after every step; ONE joint table "
        "through interleaved check_independence (3 modes) / get_independencies(condition) / marginal_distribution / "
        "conditional_distribution(inplace=False) / copy, every answer against the ORIGINAL table and the table checked "
        "unchanged after every step; ONE DAG / BayesianNetwork object through 2-4 rounds of d-separation queries "
        "(active_trail_nodes, is_dconnected, minimal_dseparator, local_independencies, get_independencies) with FIXED "
        "conditioning sets, each round followed by one edit (remove_edge, remove_edges_from, remove_node, do(inplace), "
        "add_edge, add_node), half of them around a collider x->z<-y, z->w with w observed and z->w removed first, "
        "every answer against C08's model on the CURRENT graph.  " + "" + "non-trivial: the assertion set is non-empty / "
        "the graphs have an edge / the table is not uniform; distinct = canonical input")
AUDIT = ("generalisation classes: A sessions = streams ses (Independencies), jses (JPD incl. in-place marginal/conditional), "
         "ged (DAG/BN edits incl. inherited remove_*/clear/do(inplace), is_iequivalent + get_immoralities on the edited "
         "object), is_imap with a CPD replaced by add_cpds; B argument purity = event/order/context lists, the other "
         "Independencies object, the other DAG, the joint and the network are compared with snapshots after the call; "
         "C result independence = closure(), get_independencies, minimal_imap, get_immoralities, marginal/conditional "
         "results are mutated and the call repeated, tables are constructed from list / ndarray / reused buffer / "
         "other.values; D pandas: not applicable (no DataFrame reaches these APIs); E names = substring families "
         "(x, x1, x10, G, G2), int and mixed int/str names (tuple names are excluded for JPD because marginal_distribution "
         "documents a tuple argument as a collection; IndependenceAssertion takes strings only); F state names: not "
         "applicable, JointProbabilityDistribution has no state-name argument, states are positions; G sizes = 9-11 node "
         "DAGs, 9-10 variable tables (jbig), cardinality-1 variables, single-variable tables, empty events, empty "
         "assertion sets, edgeless graphs; closure universes stay <= 5 variables (the model's fuel is 8^n); H magnitudes "
         "= cells of mass 2^-30..2^-45, perturbations 2^-22 below the allclose tolerance, exact zeros and zero-probability "
         "contexts; verdicts are compared with the model's tolerance form on the exact rationals; I backends: only "
         "is_imap runs under torch (the JPD constructor applies np.sum to its values, so every method that copies the "
         "table raises under torch on the unchanged tree); DAG and Independencies are pure python; J variants = all three "
         "event3 modes, None/[]/() for an absent event3, list/tuple/set/single arguments, inplace True/False/default; "
         "K rejected calls = later invalid assertion in add_assertions (earlier ones stay), string events, non-string "
         "event3, out-of-range state, unknown context variable, non-normalised table, wrong-type is_imap/is_iequivalent/"
         "contains arguments, state unchanged afterwards; L orders = hash seeds, assertion order (reversed twin), shuffled "
         "edge insertion, every variable order for minimal_imap, random conditioning order, random CPD insertion and "
         "parent order; M budget: handled by tools/check.py; N equal-not-identical = every name handed to a query, an "
         "assertion, a context or a second graph is rebuilt at run time (strings re-concatenated, ints >= 257 re-parsed), "
         "never the object stored in the model; O containers = assertion events as list/tuple/set/frozenset/generator/"
         "iter/map/filter/dict/dict-keys; check_independence events additionally as numpy array and pandas Index; event3, "
         "contexts and conditions as list/tuple/set/frozenset/dict/dict-keys; minimal_imap orders as list/tuple/ndarray/"
         "Index; marginal_distribution as list/tuple/set/dict/single; DAG nodes and edges as list/tuple/set/generator/iter/"
         "filter/dict-keys, also through the constructor.  NOT generated because the unchanged tree does not support them "
         "and the docstrings say list / array-like: one-shot iterators for event3, condition=, values= and "
         "marginal_distribution (consumed by the type checks), numpy/pandas for IndependenceAssertion events and for "
         "event3/condition (truth value of an array), frozenset for marginal_distribution; P sizes = chains and binary "
         "trees of 9/12/16/17/32/33 nodes with re-rootings, 6-variable multi-step closures with a premise disjoint from "
         "the query, a 257-state variable, 9-10 variable tables; Q = tables accepted by np.isclose whose cells do not sum "
         "to 1 (off by 2^-21..2^-24), CPDs typed with three decimals (column sum 0.999) in is_imap; R = latents x "
         "is_iequivalent, absent event3 x condition_random_variable, container kind x name style x construction route, "
         "torch x replaced CPD x random CPD order")
RULE = RULE + "  " + AUDIT
TRUSTED_BASE = ["DiscreteFactor marginalize/product/reduce/normalize and numpy.allclose (the model takes marginals as "
                "sums of cells; factor algebra is property C01's subject)",
                "networkx DiGraph storage, to_undirected, EdgeView equality",
                "python set iteration order is a free parameter (results compared as sets)"]
ASSUMPTIONS = ["variable names are interned to nat by the harness; IndependenceAssertion is driven with non-empty "
               "string names only (documented parameter type)",
               "check_independence compares with DiscreteFactor.__eq__ = numpy.allclose(atol=1e-8, rtol=1e-5): pgmpy is "
               "compared with the model's tolerance form on the same exact rationals; the exact-arithmetic theorem "
               "C18_check_independence_iff concerns tolerance 0; tables whose exact and tolerance verdicts differ are "
               "tagged",
               "is_iequivalent does not compare node sets; the theorem is about edges (skeleton, v-structures)"]

ATOL = Fraction(1e-8)
RTOL = Fraction(1e-5)
F_CLOSURE = "closure-contraction-side-condition"
F_IMAP_A = "minimal-imap-proper-subsets-only"
F_IMAP_B = "minimal-imap-pairwise-union"


# ------------------------------------------------------------------ assertion universes
def wf_classes(n):
    """one representative (e1,e2,e3) per class up to symmetry of the triples of pairwise disjoint subsets of
    range(n) with e1, e2 non-empty"""
    out = []
    seen = set()
    for lab in itertools.product((0, 1, 2, 3), repeat=n):
        e1 = tuple(i for i in range(n) if lab[i] == 1)
        e2 = tuple(i for i in range(n) if lab[i] == 2)
        e3 = tuple(i for i in range(n) if lab[i] == 3)
        if not e1 or not e2:
            continue
        k = (frozenset((e1, e2)), e3)
        if k in seen:
            continue
        seen.add(k)
        out.append([list(e1), list(e2), list(e3)])
    return out


def rand_assertion(rng, n, overlap=False):
    while True:
        if overlap:
            ev = [[i for i in range(n) if rng.random() < 0.35] for _ in range(3)]
        else:
            lab = [rng.choice((0, 1, 1, 2, 2, 3)) for _ in range(n)]
            ev = [[i for i in range(n) if lab[i] == k] for k in (1, 2, 3)]
        if ev[0] and ev[1]:
            for e in ev:
                rng.shuffle(e)
            return ev


def cases(tier, seed):
    rng = random.Random(seed)
    out = []
    # ---- (a) closure
    c3 = wf_classes(3)
    for mask in range(1 << len(c3)):
        A = [c3[i] for i in range(len(c3)) if mask >> i & 1]
        out.append({"kind": "clo", "n": 3, "A": A, "qseed": mask})
    c4 = wf_classes(4)
    for i in range(len(c4)):
        out.append({"kind": "clo", "n": 4, "A": [c4[i]], "qseed": i})
        for k in range(i + 1, len(c4)):
            if tier == "thorough" or rng.random() < 0.22:   # quick: a seeded fifth of the 1485 pairs
                out.append({"kind": "clo", "n": 4, "A": [c4[i], c4[k]], "qseed": i * 100 + k})
    nrand = 140 if tier == "quick" else 4000
    for i in range(nrand):
        n = rng.choice((3, 4, 4, 4, 5))
        m = rng.randint(1, 6 if n < 5 else 3)
        ov = rng.random() < 0.15 and n <= 4   # overlapping events over 5 variables: pgmpy needs ~40 s per closure
        A = [rand_assertion(rng, n, ov and rng.random() < 0.5) for _ in range(m)]
        if rng.random() < 0.2:
            a = rng.choice(A)
            A.append([a[1], a[0], list(reversed(a[2]))])  # swapped duplicate
        out.append({"kind": "clo", "n": n, "A": A, "qseed": rng.randint(0, 10**9), "rand": True, "disjoint": n <= 4})
    # ---- (b) is_iequivalent
    for n in (1, 2, 3):
        dags = common.all_dags(n)
        for gi in range(len(dags)):
            out.append({"kind": "ieq", "n": n, "g": gi, "hs": list(range(len(dags)))})
    d4 = common.all_dags(4)
    skel = {}
    for i, e in enumerate(d4):
        skel.setdefault(frozenset(frozenset(x) for x in e), []).append(i)
    for gi, e in enumerate(d4):
        if tier == "thorough":
            hs = list(range(len(d4)))
        else:
            hs = list(skel[frozenset(frozenset(x) for x in e)]) + [rng.randrange(len(d4)) for _ in range(6)]
        out.append({"kind": "ieq", "n": 4, "g": gi, "hs": hs})
    for i in range(150 if tier == "quick" else 2000):
        n = rng.randint(3, 7) if rng.random() < 0.8 else rng.randint(9, 11)   # >= 9 nodes: sets of small ints
        nodes, edges = common.rand_dag(rng, n)
        out.append({"kind": "ieqr", "n": n, "edges": edges, "style": rng.choice(common.NAME_STYLES + ["substr", "int"]),
                    "qseed": rng.randint(0, 10**9)})
    # ---- (b') threshold sizes: chains / trees / forks of 9..33 nodes and their re-orientations
    for n in (9, 12, 16, 17, 32, 33) if tier == "thorough" else (9, 16, 17, 33):
        for shape_ in ("chain", "tree"):
            out.append({"kind": "ieqc", "n": n, "shape": shape_, "qseed": rng.randint(0, 10**9)})
    # ---- (a') six variables: multi-step derivations from small premises, one premise disjoint from the query
    for i in range(10 if tier == "quick" else 150):
        out.append({"kind": "clo6", "pattern": i % 2, "qseed": rng.randint(0, 10**9)})
    # ---- (c'') a variable with more than 256 states
    for i in range(3 if tier == "quick" else 30):
        out.append({"kind": "j257", "qseed": rng.randint(0, 10**9)})
    # ---- (c) joint tables
    for i in range(110 if tier == "quick" else 2600):
        out.append({"kind": "jpd", "shape": rng.choice(SHAPES), "qseed": rng.randint(0, 10**9),
                    "torch": rng.random() < (0.06 if tier == "quick" else 0.1)})
    # ---- (d) sessions: ONE object, interleaved queries and mutations, compared after every step
    for i in range(90 if tier == "quick" else 2600):
        nn = rng.choice((3, 3, 4, 4, 4, 5)) if tier == "thorough" or rng.random() < 0.06 else rng.choice((3, 3, 4, 4))
        out.append({"kind": "ses", "n": nn, "steps": rng.randint(2, 6),
                    "qseed": rng.randint(0, 10**9)})
    for i in range(130 if tier == "quick" else 1500):
        out.append({"kind": "jses", "shape": rng.choice(SHAPES + ["tiny", "card1", "single", "unnormalised", "unnormalised"]), "steps": rng.randint(2, 6),
                    "style": rng.choice(["str", "str", "substr", "substr", "int", "mixed"]),
                    "route": rng.choice(["list", "ndarray", "buffer", "other.values"]),
                    "qseed": rng.randint(0, 10**9)})
    # ---- (c') nine and more variables in one table (iteration order of sets of small ints changes at 8)
    for i in range(16 if tier == "quick" else 200):
        out.append({"kind": "jbig", "nv": rng.choice((9, 9, 10)), "style": rng.choice(["str", "int", "substr"]),
                    "qseed": rng.randint(0, 10**9)})
    # ---- (e) graph-edit sessions: ONE DAG / BayesianNetwork object, query - edit - query with the SAME conditioning sets
    for i in range(120 if tier == "quick" else 2200):
        n = rng.randint(4, 6)
        _, edges = common.rand_dag(rng, n)
        out.append({"kind": "ged", "n": n, "edges": edges, "gadget": rng.random() < 0.5,
                    "cls": rng.choice(["DAG", "DAG", "BN"]), "rounds": rng.randint(2, 4),
                    "qseed": rng.randint(0, 10**9)})
    # sessions first: they must not be the ones dropped if the budget runs out on a loaded machine
    out.sort(key=lambda c: 0 if c["kind"] in ("ses", "jses", "ged", "jbig", "ieqc", "clo6", "j257") else 1)
    return out


def shrink(case):
    if case["kind"] == "clo":
        A = case["A"]
        for i in range(len(A)):
            c = dict(case)
            c["A"] = A[:i] + A[i + 1:]
            yield c
    if case["kind"] == "ieq" and len(case["hs"]) > 1:
        for h in case["hs"]:
            c = dict(case)
            c["hs"] = [h]
            yield c


# ------------------------------------------------------------------ classes N / O helpers
def fresh(x):
    """an equal but NOT identical object: strings and big ints are rebuilt at run time, tuples re-made"""
    if isinstance(x, bool):
        return x
    if isinstance(x, str):
        return (x + "_")[:-1]
    if isinstance(x, int):
        return int(str(x))
    if isinstance(x, tuple):
        return tuple(fresh(e) for e in x)
    if isinstance(x, list):
        return [fresh(e) for e in x]
    return x


def container(rng, items, allowed):
    """the items in one of the allowed container kinds (one-shot iterators included)"""
    import numpy as np
    import pandas as pd
    kind = rng.choice(allowed)
    items = list(items)
    if kind == "list":
        return kind, items
    if kind == "tuple":
        return kind, tuple(items)
    if kind == "set":
        return kind, set(items)
    if kind == "frozenset":
        return kind, frozenset(items)
    if kind == "gen":
        return kind, (x for x in items)
    if kind == "iter":
        return kind, iter(items)
    if kind == "map":
        return kind, map(lambda x: x, items)
    if kind == "filter":
        return kind, filter(lambda x: True, items)
    if kind == "dictkeys":
        return kind, dict.fromkeys(items).keys()
    if kind == "dict":
        return kind, dict.fromkeys(items)
    if kind == "nparray":
        return kind, np.array(items)
    if kind == "pdindex":
        return kind, pd.Index(items)
    raise ValueError(kind)


EVENT_FORMS = ["list", "tuple", "set", "frozenset", "gen", "iter", "map", "filter", "dictkeys", "dict"]

# ------------------------------------------------------------------ (a) closure
NAMEPOOL = ["X", "Y", "Z", "W", "V", "x1", "x10", "x", "alpha", "b", "Ab", "q_0", "u v", "G", "G2", "X1"]


def canon_a(e1, e2, e3):
    return (frozenset((frozenset(e1), frozenset(e2))), frozenset(e3))


def brute_closure(A):
    """independent semi-graphoid closure of well-formed triples: ordered triples of frozensets, textbook rules"""
    S = set()
    for e1, e2, e3 in A:
        S.add((frozenset(e1), frozenset(e2), frozenset(e3)))
    while True:
        new = set()
        for (x, y, z) in S:
            new.add((y, x, z))
            for r in range(1, len(y)):
                for sub in itertools.combinations(sorted(y), r):
                    ys = frozenset(sub)
                    w = y - ys
                    new.add((x, ys, z))          # decomposition
                    new.add((x, ys, z | w))      # weak union
        for (x, w, yz) in S:
            for (x2, y, z) in S:
                if x2 == x and y | z == yz and not (y & z):
                    new.add((x, w | y, z))       # contraction
        if new <= S:
            return {canon_a(*t) for t in S}
        S |= new


def run_clo(case, drv):
    from pgmpy.independencies import Independencies, IndependenceAssertion
    rng = random.Random(case["qseed"])
    n = case["n"]
    names = rng.sample(NAMEPOOL, n)
    idx = {nm: i for i, nm in enumerate(names)}
    A = case["A"]

    def mk(a):
        forms = []
        for e in a:
            ev = [fresh(names[i]) for i in e]
            forms.append(ev[0] if len(ev) == 1 and rng.random() < 0.5 else container(rng, ev, EVENT_FORMS)[1])
        return IndependenceAssertion(*forms)

    def canon_impl(ind):
        return {canon_a([idx[v] for v in a.event1], [idx[v] for v in a.event2], [idx[v] for v in a.event3])
                for a in ind.get_assertions()}

    def canon_m(lst):
        return {canon_a(*t) for t in lst}

    def show(s):
        return sorted([sorted(map(sorted, k[0])), sorted(k[1])] for k in s)

    wf = all(not (set(a[0]) & set(a[1]) or set(a[0]) & set(a[2]) or set(a[1]) & set(a[2])) for a in A)
    tags = ["closure n=%d |A|=%d%s" % (n, len(A), "" if wf else " overlapping")]
    ind = Independencies(*[mk(a) for a in A])
    clo_obj = ind.closure()
    got = canon_impl(clo_obj)
    coded, fixed = drv.call("c18_closure", [A])
    coded, fixed = canon_m(coded), canon_m(fixed)
    key = common.canon_key(["clo", n, show(canon_m(A))])
    if got != coded:
        return bad("impl!=model:closure", {"A": A, "impl_only": show(got - coded), "model_only": show(coded - got)}, key=key)
    if len(clo_obj.get_assertions()) != len(coded):
        return bad("impl!=model:closure-duplicates", {"A": A}, key=key)
    if wf:
        bf = brute_closure(A)
        if bf != fixed:
            return bad("model-fixed!=bruteforce:closure", {"A": A, "fixed_only": show(fixed - bf), "bf_only": show(bf - fixed)}, key=key)
    # equality / hash / contains on members
    if A:
        a = rng.choice(A)
        b = rng.choice(A)
        b2 = [b[1], b[0], b[2]] if rng.random() < 0.5 else b
        ia, ib = mk(a), mk(b2)
        meq, mh, mc = drv.call("c18_aeq", [a, b2, A])
        if (ia == ib) != bool(meq) or (ia != ib) == bool(meq):
            return bad("impl!=model:assertion-eq", {"a": a, "b": b2, "impl": ia == ib, "model": meq}, key=key)
        if meq and hash(ia) != hash(ib):
            return bad("impl!=spec:equal-assertions-hash-differently", {"a": a, "b": b2}, key=key)
        if bool(mh) != bool(meq):
            return bad("model:hash-key!=eq", {"a": a, "b": b2}, key=key)
        if (ia in ind) != bool(mc) or not mc:
            return bad("impl!=model:contains", {"a": a, "A": A}, key=key)
        if len({ia, ib}) != (1 if meq else 2):
            return bad("impl!=spec:set-of-assertions", {"a": a, "b": b2}, key=key)
    # entails / is_equivalent against a second set: members of the (repaired) closure, random ones, or both
    pool = [[sorted(next(iter(k[0]))) if len(k[0]) == 1 else sorted(sorted(k[0], key=sorted)[0]),
             sorted(next(iter(k[0]))) if len(k[0]) == 1 else sorted(sorted(k[0], key=sorted)[1]),
             sorted(k[1])] for k in sorted(fixed | coded, key=lambda k: (sorted(map(sorted, k[0])), sorted(k[1])))]
    B = []
    for _ in range(rng.randint(1, 3)):
        if pool and rng.random() < 0.75:
            B.append(rng.choice(pool))
        else:
            B.append(rand_assertion(rng, n))
    # queries that need a premise sharing no variable with them: every closure member t that is lost when the premises
    # variable-disjoint from t are dropped (plus the case's explicit queries)
    queries = [[b] for b in case.get("B", [])]
    if case.get("disjoint"):
        cand = []
        for t in pool:
            tv = set(t[0]) | set(t[1]) | set(t[2])
            Ar = [a for a in A if tv & (set(a[0]) | set(a[1]) | set(a[2]))]
            if len(Ar) < len(A) and canon_a(*t) in coded and canon_a(*t) not in canon_m(drv.call("c18_closure", [Ar])[0]):
                cand.append(t)
        rng.shuffle(cand)
        queries += [[t] for t in cand[:3]]
        tags.append("entails query needs a variable-disjoint premise: %d" % min(len(cand), 3))
    for Bq in queries:
        eq_, _, _, _ = drv.call("c18_entails", [A, Bq])
        _, _, qq_, _ = drv.call("c18_entails", [A, A + Bq])
        inclo = all(canon_a(*t) in got for t in Bq)
        ie_ = ind.entails(Independencies(*[mk(b) for b in Bq]))
        iq_ = ind.is_equivalent(Independencies(*[mk(b) for b in A + Bq]))
        if ie_ is not bool(eq_) or iq_ is not bool(qq_) or ie_ is not inclo:
            return bad("impl!=model:entails-disjoint-premise", {"A": A, "B": Bq, "impl": [ie_, iq_], "model": [eq_, qq_],
                                                               "in_closure()": inclo}, key=key)
    indB = Independencies(*[mk(b) for b in B])
    e, ef, q, qf = drv.call("c18_entails", [A, B])
    ie = ind.entails(indB)
    iq = ind.is_equivalent(indB)
    if ie != bool(e) or iq != bool(q):
        return bad("impl!=model:entails", {"A": A, "B": B, "impl": [ie, iq], "model": [e, q]}, key=key)
    if ind.entails("nope") is not False:
        return bad("impl!=model:entails-non-independencies", {}, key=key)
    tags.append("entails=%s equivalent=%s" % (bool(e), bool(q)))
    # the specification: repaired closure (proved = derivability)
    if coded != fixed or e != ef or q != qf:
        extra = coded - fixed
        missing = fixed - coded
        cls = ("unsound" if extra else "") + ("+" if extra and missing else "") + ("incomplete" if missing else "")
        if not cls:
            cls = "entails-only"
        return bad("impl!=spec:closure", {"A": A, "class": cls, "not_derivable_but_returned": show(extra)[:4],
                                           "derivable_but_missing": show(missing)[:4],
                                           "entails": {"B": B, "impl": [ie, iq], "spec": [bool(ef), bool(qf)]}},
                   finding=F_CLOSURE, key=key, nontrivial=bool(A), tags=tags + ["finding:" + cls])
    return ok(nontrivial=bool(A), key=key, tags=tags + ["|closure|=%d" % (len(coded) // 10 * 10)])


# ------------------------------------------------------------------ (b) is_iequivalent
_DAGS = {}
_DAGOBJ = {}


def dags(n):
    if n not in _DAGS:
        _DAGS[n] = common.all_dags(n)
    return _DAGS[n]


def py_vstructs(edges):
    es = set(map(tuple, edges))
    pa = {}
    for u, v in es:
        pa.setdefault(v, set()).add(u)
    out = set()
    for c, ps in pa.items():
        for a, b in itertools.combinations(sorted(ps, key=repr), 2):
            if (a, b) not in es and (b, a) not in es:
                out.add((frozenset((a, b)), c))
    return out


def py_skeleton(edges):
    return {frozenset(e) for e in edges}


def mk_dag(names, edges, extra=(), rng=None, latents=()):
    """every DAG object gets its own equal-but-not-identical name objects; with rng the nodes / edges arrive in a
    random container kind (one-shot iterators included), sometimes through the constructor"""
    from pgmpy.base import DAG
    nm = [fresh(x) for x in names]
    es = [(nm[u], nm[v]) for u, v in edges]
    if rng is None:
        g = DAG()
        g.add_nodes_from(nm)
        g.add_nodes_from(extra)
        g.add_edges_from(es)
        return g
    kinds = ["list", "tuple", "set", "gen", "iter", "dictkeys", "filter"]
    if rng.random() < 0.4:
        g = DAG(container(rng, es, kinds)[1], latents={nm[v] for v in latents})
        g.add_nodes_from(container(rng, nm, kinds)[1])
    else:
        g = DAG(latents={nm[v] for v in latents})
        g.add_nodes_from(container(rng, nm, kinds)[1])
        g.add_edges_from(container(rng, es, kinds)[1])
    g.add_nodes_from(extra)
    return g


def cmp_ieq(drv, g, h, eg, eh, where):
    hn, he = list(h.nodes()), list(h.edges())
    got = g.is_iequivalent(h)
    if list(h.nodes()) != hn or list(h.edges()) != he:
        return bad("impl!=spec:is_iequivalent-mutates-argument", dict(where))
    # get_immoralities(): the parent pairs of the v-structures; the returned set belongs to the caller
    exp_im = {frozenset(k[0]) for k in py_vstructs([(a, b) for a, b in g.edges()])}
    im = g.get_immoralities()   # mixed-type parent names are legal (fixed 2fa299f); compared as unordered pairs
    if {frozenset(t) for t in im} != exp_im or any(len(t) != 2 for t in im):
        return bad("impl!=model:get_immoralities", dict(where, impl=sorted(map(str, im))))
    im.add(("junk", "junk2"))
    im2 = g.get_immoralities()
    if im2 is im or {frozenset(t) for t in im2} != exp_im:
        return bad("impl!=spec:get_immoralities-result-aliased", dict(where))
    m, vg, vh = drv.call("c18_iequiv", [[list(e) for e in eg], [list(e) for e in eh]])
    spec = py_skeleton(eg) == py_skeleton(eh) and py_vstructs(eg) == py_vstructs(eh)
    if {(frozenset((a, b)), c) for a, b, c in vg} != py_vstructs(eg):
        return bad("model!=spec:vstructs", dict(where, model=vg))
    if got is not bool(m):
        return bad("impl!=model:is_iequivalent", dict(where, impl=got, model=m, spec=spec))
    if got != spec:
        return bad("impl!=spec:is_iequivalent", dict(where, impl=got, spec=spec))
    return None


def run_ieq(case, drv):
    n = case["n"]
    D = dags(n)
    names = ["n%d" % i for i in range(n)]
    eg = D[case["g"]]
    g = mk_dag(names, eg)
    neq = 0
    for hi in case["hs"]:
        eh = D[hi]
        if (n, hi) not in _DAGOBJ:
            _DAGOBJ[(n, hi)] = mk_dag(names, eh)
        h = _DAGOBJ[(n, hi)]
        b = cmp_ieq(drv, g, h, eg, eh, {"n": n, "g": eg, "h": eh})
        if b:
            return b
        neq += py_skeleton(eg) == py_skeleton(eh) and py_vstructs(eg) == py_vstructs(eh)
    try:
        g.is_iequivalent("x")
        return bad("impl!=model:is_iequivalent-type", {})
    except TypeError:
        pass
    return ok(nontrivial=len(eg) > 0, key=common.canon_key(["ieq", n, sorted(map(tuple, eg)), sorted(case["hs"])]),
              tags=["iequiv exhaustive n=%d" % n, "equivalent-pairs=%d" % min(neq, 9)])


def reverse_some(rng, n, edges, k):
    """reverse up to k random edges keeping acyclicity"""
    es = [tuple(e) for e in edges]
    for _ in range(k):
        if not es:
            break
        i = rng.randrange(len(es))
        u, v = es[i]
        cand = es[:i] + [(v, u)] + es[i + 1:]
        # acyclic?
        adj = {}
        for a, b in cand:
            adj.setdefault(a, []).append(b)
        seen, stack, okk = set(), [u], True
        while stack:
            x = stack.pop()
            for y in adj.get(x, []):
                if y == v:
                    okk = False
                if y not in seen:
                    seen.add(y)
                    stack.append(y)
        if okk:
            es = cand
    return es


def run_ieqx(case, drv):
    n = case["n"]
    names = ["n%d" % i for i in range(n)]
    eg = [tuple(e) for e in case["g"]]
    eh = [tuple(e) for e in case["h"]]
    b = cmp_ieq(drv, mk_dag(names, eg), mk_dag(names, eh), eg, eh, {"n": n, "g": eg, "h": eh})
    if b:
        return b
    return ok(nontrivial=True, key=common.canon_key(["ieqx", sorted(eg), sorted(eh)]), tags=["iequiv explicit pair"])


def run_ieqr(case, drv):
    rng = random.Random(case["qseed"])
    n = case["n"]
    if case["style"] == "substr":
        names = rng.sample(["x", "x1", "x10", "x11", "G", "G2", "G20", "1", "10", "a", "ab", "abc", "n", "node"], n)
    elif case["style"] == "int":
        names = rng.sample(range(0, n + 4), n) if rng.random() < 0.5 else rng.sample(range(257, 257 + 4 * n), n)
    else:
        names = common.node_names(rng, n, case["style"])
    eg = [tuple(e) for e in case["edges"]]
    tags = ["iequiv random n=%d style=%s" % (n, case["style"])]
    for t in range(6):
        mode = rng.choice(["reverse1", "reverse2", "drop", "same", "isolated"])
        eh = list(eg)
        extra = ()
        if mode == "reverse1":
            eh = reverse_some(rng, n, eg, 1)
        elif mode == "reverse2":
            eh = reverse_some(rng, n, eg, 3)
        elif mode == "drop" and eg:
            eh = list(eg)
            eh.pop(rng.randrange(len(eh)))
        elif mode == "isolated":
            extra = ["__iso%d" % t]
        rng.shuffle(eh)
        lat = rng.sample(range(n), rng.randint(0, 2)) if rng.random() < 0.3 else []   # latents never matter here
        g = mk_dag(names, eg, rng=rng, latents=lat)
        h = mk_dag(names, eh, extra, rng=rng)
        b = cmp_ieq(drv, g, h, eg, eh, {"n": n, "g": eg, "h": eh, "mode": mode})
        if b:
            return b
        b = cmp_ieq(drv, h, g, eh, eg, {"n": n, "g": eh, "h": eg, "mode": mode + "-sym"})
        if b:
            return b
        tags.append("pair=%s equivalent=%s" % (mode, g.is_iequivalent(h)))
    return ok(nontrivial=len(eg) > 0, key=common.canon_key(["ieqr", n, sorted(eg), case["qseed"]]), tags=tags)


# ------------------------------------------------------------------ (c) joint tables
JNAMES = ["a", "b", "c", "d", "x1", "x10", "x", "Z", "long name", "G", "G2", "name"]
SHAPES = ["product", "condind", "xor", "context", "generic", "zeros", "perturbed", "two-dependent", "chain"]


def norm_dyadic(ws, bits):
    """scale positive integer weights to dyadic probabilities with denominator 2^bits summing to 1"""
    den = 1 << bits
    tot = sum(ws)
    cells = [w * den // tot for w in ws]
    rest = den - sum(cells)
    i = 0
    while rest > 0:
        if ws[i % len(ws)] > 0:
            cells[i % len(ws)] += 1
            rest -= 1
        i += 1
    return [Fraction(c, den) for c in cells]


def make_table(rng, shape):
    """-> (cards, cells) cells: dict assignment tuple -> Fraction, all dyadic with small denominators"""
    if shape == "two-dependent":
        cards = [2, 2]
        p = common.rand_column(rng, 4, zeros=True)
        return cards, {a: p[i] for i, a in enumerate(itertools.product(*map(range, cards)))}
    nv = rng.choice((2, 3, 3, 3, 4))
    cards = [rng.choice((2, 2, 3)) for _ in range(nv)]
    if shape in ("xor",):
        nv, cards = 3, [2, 2, 2]
    asg = list(itertools.product(*map(range, cards)))
    if shape == "product":
        cols = [common.rand_column(rng, c, zeros=rng.random() < 0.2)[:] for c in cards]
        cols = [[Fraction(int(x * 16 + Fraction(1, 2)) or 0, 16) for x in col] for col in cols]
        cols = [common.rand_column(random.Random(rng.random()), c, zeros=False) for c in cards]
        cols = [[Fraction(max(1, round(x * 8)), 8) for x in col] for col in cols]
        cols = [[x / sum(col) for x in col] for col in cols]
        if any(x.denominator & (x.denominator - 1) for col in cols for x in col):
            cols = [[Fraction(1, c) if c == 2 else Fraction((2, 1, 1)[s], 4) for s in range(c)] for c in cards]
        cells = {}
        for a in asg:
            p = Fraction(1)
            for i, s in enumerate(a):
                p *= cols[i][s]
            cells[a] = p
        return cards, cells
    if shape in ("condind", "chain") and nv >= 3:
        # P(v0) P(v1|v0) P(v2|v0) [P(v3|v2)]: v1 _|_ v2 | v0
        def col(c):
            return [Fraction(k, 4) for k in rng.choice({2: [(1, 3), (2, 2), (3, 1)], 3: [(1, 1, 2), (2, 1, 1), (1, 2, 1)]}[c])]
        p0 = col(cards[0])
        c1 = {s: col(cards[1]) for s in range(cards[0])}
        par2 = 0 if shape == "condind" else 1
        c2 = {s: col(cards[2]) for s in range(cards[par2])}
        c3 = {s: col(cards[3]) for s in range(cards[2])} if nv == 4 else None
        cells = {}
        for a in asg:
            p = p0[a[0]] * c1[a[0]][a[1]] * c2[a[par2]][a[2]]
            if nv == 4:
                p *= c3[a[2]][a[3]]
            cells[a] = p
        return cards, cells
    if shape == "xor":
        cells = {a: (Fraction(1, 4) if a[2] == a[0] ^ a[1] else Fraction(0)) for a in asg}
        return cards, cells
    if shape == "context" and nv >= 3:
        # v1 _|_ v2 in the context v0 = 0 only
        cells = {}
        p0 = [Fraction(1, 2), Fraction(1, 2)] if cards[0] == 2 else [Fraction(1, 2), Fraction(1, 4), Fraction(1, 4)]
        rest = list(itertools.product(*map(range, cards[1:])))
        for s0 in range(cards[0]):
            if s0 == 0:
                u = Fraction(1, len(rest))
                if u.denominator & (u.denominator - 1):
                    w = norm_dyadic([1] * len(rest), 6)
                else:
                    w = [u] * len(rest)
                if len(set(w)) > 1:  # not a product: fall back to generic
                    w = norm_dyadic([rng.randint(1, 5) for _ in rest], 6)
            else:
                w = norm_dyadic([rng.randint(0, 5) + (i == 0) for i in range(len(rest))], 6)
            for r, x in zip(rest, w):
                cells[(s0,) + r] = p0[s0] * x
        return cards, cells
    ws = [rng.randint(1, 9) for _ in asg]
    if shape == "zeros":
        for i in rng.sample(range(len(asg)), max(1, len(asg) // 3)):
            ws[i] = 0
        if rng.random() < 0.5:  # a whole state of variable 0 gets probability zero
            for i, a in enumerate(asg):
                if a[0] == cards[0] - 1:
                    ws[i] = 0
        if sum(ws) == 0:
            ws[0] = 1
    cells = dict(zip(asg, norm_dyadic(ws, 7)))
    if shape == "perturbed":
        # uniform plus a tiny dyadic perturbation (exact independence fails, allclose accepts)
        m = len(asg)
        if m & (m - 1) == 0:
            eps = Fraction(1, 1 << 22)
            cells = {a: Fraction(1, m) for a in asg}
            cells[asg[0]] += eps
            cells[asg[-1]] -= eps
    return cards, cells


def run_jpd(case, drv):
    import numpy as np
    from pgmpy.factors.discrete import JointProbabilityDistribution as JPD
    rng = random.Random(case["qseed"])
    if "cells" in case:  # corpus: explicit table
        cards = case["cards"]
        cells = dict(zip(itertools.product(*map(range, cards)), map(Fraction, case["cells"])))
    else:
        cards, cells = make_table(rng, case["shape"])
    nv = len(cards)
    names = rng.sample(JNAMES, nv)
    asg = list(itertools.product(*map(range, cards)))
    assert sum(cells.values()) == 1
    vals = np.array([float(cells[a]) for a in asg])
    assert all(Fraction(float(cells[a])) == cells[a] for a in asg)
    jpd = JPD(names, cards, vals)
    V = list(range(nv))
    rows = [[list(a), cells[a]] for a in asg]
    J = [V, cards, rows]
    tags = ["jpd shape=%s vars=%d" % (case["shape"], nv)]
    key = common.canon_key(["jpd", cards, [str(cells[a]) for a in asg], case["qseed"]])
    nontriv = len(set(cells.values())) > 1

    # ---- check_independence, the three event3 modes
    for _ in range(8):
        perm = V[:]
        rng.shuffle(perm)
        k1 = 1 if nv < 4 or rng.random() < 0.6 else 2
        k2 = 1 if nv - k1 < 2 or rng.random() < 0.6 else min(2, nv - k1)
        e1, e2 = perm[:k1], perm[k1:k1 + k2]
        rest = perm[k1 + k2:]
        zs = rest[:rng.randint(0, len(rest))]
        ctx = [[v, rng.randrange(cards[v])] for v in zs]
        r = drv.call("c18_checkind", [J[0], J[1], J[2], e1, e2, zs, ctx, ATOL, RTOL])
        m_ex, m_tol, c_ex, c_tol, x_ex, x_tol = r
        n1 = [names[v] for v in e1]
        n2 = [names[v] for v in e2]
        got = jpd.check_independence(n1, n2)
        if got is not bool(m_tol):
            return bad("impl!=model:check_independence-marginal", {"cards": cards, "cells": [str(cells[a]) for a in asg],
                                                                     "e1": e1, "e2": e2, "impl": got, "model": m_tol, "exact": m_ex}, key=key)
        got = jpd.check_independence(n1, set(n2) if rng.random() < 0.3 else n2, [names[v] for v in zs], condition_random_variable=True)
        if got is not bool(c_tol):
            return bad("impl!=model:check_independence-cond-rv", {"cards": cards, "cells": [str(cells[a]) for a in asg],
                                                                    "e1": e1, "e2": e2, "Z": zs, "impl": got, "model": c_tol, "exact": c_ex}, key=key)
        try:
            got = jpd.check_independence(n1, n2, [(names[v], s) for v, s in ctx])
        except ValueError:
            got = None
        exp = None if x_tol == [] else bool(x_tol[0])
        if got is not exp:
            return bad("impl!=model:check_independence-context", {"cards": cards, "cells": [str(cells[a]) for a in asg],
                                                                    "e1": e1, "e2": e2, "ctx": ctx, "impl": got, "model": x_tol, "exact": x_ex}, key=key)
        if n1 != [names[v] for v in e1] or n2 != [names[v] for v in e2]:
            return bad("impl!=spec:check_independence-mutates-argument", {"e1": e1, "e2": e2}, key=key)
        tags.append("check mode=rv |Z|=%d -> %s" % (len(zs), bool(c_tol)))
        tags.append("check mode=context -> %s" % exp)
        if m_ex != m_tol or c_ex != c_tol or x_ex != x_tol:
            tags.append("exact-verdict!=allclose-verdict")
        # independent python recomputation of the specification for the rv mode (single pair)
        if k1 == 1 and k2 == 1:
            spec = py_indep(cards, cells, e1[0], e2[0], zs)
            if spec != bool(c_ex):
                return bad("model!=spec:check_independence", {"cards": cards, "cells": [str(cells[a]) for a in asg],
                                                               "x": e1[0], "y": e2[0], "Z": zs, "model": c_ex, "spec": spec}, key=key)
    # argument validation
    for args in ((names[0], [names[-1]]), ([names[0]], names[-1]), ([names[0]], [names[-1]], "zz")):
        try:
            jpd.check_independence(*args)
            return bad("impl!=model:check_independence-accepts-string-event", {"args": list(map(str, args))}, key=key)
        except TypeError:
            pass

    # ---- get_independencies
    zs = rng.sample(V, rng.randint(0, max(0, nv - 2)))
    ctx = [[v, rng.randrange(cards[v])] for v in zs]
    g_ex, g_tol = drv.call("c18_getind", [J[0], J[1], J[2], ctx, ATOL, RTOL])
    try:
        ind = jpd.get_independencies([(names[v], s) for v, s in ctx] or None)
        got = {frozenset((names.index(next(iter(a.event1))), names.index(next(iter(a.event2))))) for a in ind.get_assertions()}
        if any(a.event3 or len(a.event1) != 1 or len(a.event2) != 1 for a in ind.get_assertions()):
            return bad("impl!=model:get_independencies-shape", {"impl": str(ind)}, key=key)
    except ValueError:
        got = None
    exp = None if g_tol == [] else {frozenset(p) for p in g_tol[0]}
    if got != exp:
        return bad("impl!=model:get_independencies", {"cards": cards, "cells": [str(cells[a]) for a in asg], "ctx": ctx,
                                                      "impl": None if got is None else sorted(map(sorted, got)), "model": g_tol}, key=key)
    tags.append("get_independencies ctx=%d -> %s" % (len(ctx), "error" if exp is None else len(exp)))

    # ---- is_imap on the graphs of this table's minimal_imap results and on random DAGs (positive tables only)
    positive = all(v > 0 for v in cells.values())
    if positive:
        for rep in range(2):
            _, edges = common.rand_dag(rng, nv)
            use_torch = case.get("torch", False) and rep == 0
            b = check_is_imap(drv, jpd, J, names, cards, cells, asg, edges, key, rng=rng, torch=use_torch)
            if use_torch:
                tags.append("is_imap backend=torch")
            if b:
                return b
            tags.append("is_imap")

    # ---- minimal_imap: every order
    orders = list(itertools.permutations(V))
    if len(orders) > 24:
        orders = rng.sample(orders, 24)
    finding = None
    for order in orders:
        es_ex, es_tol, fact = drv.call("c18_minimap", [J[0], J[1], J[2], list(order), ATOL, RTOL])
        G = jpd.minimal_imap([names[v] for v in order])
        got = sorted((names.index(u), names.index(v)) for u, v in G.edges())
        if got != sorted({tuple(e) for e in es_tol}):
            return bad("impl!=model:minimal_imap", {"cards": cards, "cells": [str(cells[a]) for a in asg], "order": list(order),
                                                     "impl": got, "model": sorted(map(tuple, es_tol))}, key=key)
        if sorted({tuple(e) for e in es_tol}) != sorted({tuple(e) for e in es_ex}):
            tags.append("minimal_imap exact!=allclose")
            continue
        if not py_factorizes(cards, cells, got) == bool(fact):
            return bad("model!=spec:factorizes", {"cards": cards, "cells": [str(cells[a]) for a in asg], "edges": got}, key=key)
        if not fact and finding is None:
            # diagnose: class A = some variable has NO qualifying proper subset of its predecessors (it needs all of
            # them as parents, which the loop never tries); class B = qualifying subsets exist but the pairwise test /
            # the union of all qualifying subsets is not a valid parent set
            cls = None
            for i in range(1, len(order)):
                v = order[i]
                if not any(b == v for a, b in got):
                    m_ex = drv.call("c18_checkind", [J[0], J[1], J[2], [v], list(order[:i]), [], [], ATOL, RTOL])[0]
                    if not m_ex:
                        cls = F_IMAP_A
                        break
            finding = (cls or F_IMAP_B, list(order), got)
        tags.append("minimal_imap order-len=%d imap=%s" % (len(order), bool(fact)))
    if finding:
        return bad("impl!=spec:minimal_imap-not-an-imap",
                   {"cards": cards, "cells": [str(cells[a]) for a in asg], "order": finding[1], "edges": finding[2],
                    "why": "the joint does not factorise along the returned graph: it encodes an independence that does not hold"},
                   finding=finding[0], key=key, nontrivial=nontriv, tags=tags + ["finding:" + finding[0]])
    return ok(nontrivial=nontriv, key=key, tags=tags)


def py_marg(cards, cells, S, s):
    return sum((p for a, p in cells.items() if all(a[v] == x for v, x in zip(S, s))), Fraction(0))


def py_indep(cards, cells, x, y, Z):
    for z in itertools.product(*[range(cards[v]) for v in Z]):
        for sx in range(cards[x]):
            for sy in range(cards[y]):
                l = py_marg(cards, cells, list(Z) + [x, y], list(z) + [sx, sy]) * py_marg(cards, cells, Z, z)
                r = py_marg(cards, cells, list(Z) + [x], list(z) + [sx]) * py_marg(cards, cells, list(Z) + [y], list(z) + [sy])
                if l != r:
                    return False
    return True


def py_factorizes(cards, cells, edges):
    pa = {v: sorted(u for u, w in edges if w == v) for v in range(len(cards))}
    for a, p in cells.items():
        l, r = p, Fraction(1)
        for v in range(len(cards)):
            l *= py_marg(cards, cells, pa[v], [a[u] for u in pa[v]])
            r *= py_marg(cards, cells, [v] + pa[v], [a[v]] + [a[u] for u in pa[v]])
        if l != r:
            return False
    return True


def check_is_imap(drv, jpd, J, names, cards, cells, asg, edges, key, rng=None, torch=False):
    """BN over `edges` whose CPDs are the joint's own conditionals: is_imap must say whether the joint factorises.
    Session part: one CPD is then replaced in place (add_cpds of an existing variable) and is_imap asked again on the
    same objects; CPDs are added in a random order; optionally under the torch backend."""
    from pgmpy.models import BayesianNetwork
    from pgmpy.factors.discrete import TabularCPD
    import numpy as np
    rng = rng or random.Random(0)
    nv = len(cards)
    bn = BayesianNetwork()
    bn.add_nodes_from(names)
    bn.add_edges_from([(names[u], names[v]) for u, v in edges])
    tabs, cols_of, pas = {}, {}, {}
    for v in range(nv):
        pa = sorted(u for u, w in edges if w == v)
        rng.shuffle(pa)
        cols = list(itertools.product(*[range(cards[u]) for u in pa]))
        tabs[v] = [[py_marg(cards, cells, [v] + pa, [s] + list(c)) / py_marg(cards, cells, pa, list(c)) for c in cols]
                   for s in range(cards[v])]
        cols_of[v], pas[v] = cols, pa

    def cpd(v):
        return TabularCPD(names[v], cards[v], [[float(x) for x in row] for row in tabs[v]],
                          evidence=[names[u] for u in pas[v]] or None, evidence_card=[cards[u] for u in pas[v]] or None)

    def verdicts():
        prod = {a: Fraction(1) for a in asg}
        for v in range(nv):
            for a in asg:
                prod[a] *= tabs[v][a[v]][cols_of[v].index(tuple(a[u] for u in pas[v]))]
        return (all(prod[a] == cells[a] for a in asg),
                all(abs(prod[a] - cells[a]) <= ATOL + RTOL * abs(cells[a]) for a in asg))

    order = list(range(nv))
    rng.shuffle(order)
    m = bool(drv.call("c18_factorizes", [J[0], J[1], J[2], [list(e) for e in edges]]))
    before = np.array(jpd.values, dtype=float).copy()
    if torch:
        from pgmpy import config
        config.set_backend("torch")
    try:
        if torch:
            from pgmpy.factors.discrete import JointProbabilityDistribution as JPD
            jq = JPD(list(names), list(cards), [float(cells[a]) for a in asg])
        else:
            jq = jpd
        for v in order:
            bn.add_cpds(cpd(v))
        for stage in ("own-conditionals", "one-cpd-replaced"):
            exact, tol = verdicts()
            if stage == "own-conditionals" and m != exact:
                return bad("model!=spec:factorizes", {"cards": cards, "cells": [str(cells[a]) for a in asg], "edges": edges}, key=key)
            g1 = jq.is_imap(bn)
            g2 = bn.is_imap(jq)
            if g1 is not tol or g2 is not tol:
                return bad("impl!=model:is_imap", {"cards": cards, "cells": [str(cells[a]) for a in asg], "edges": edges,
                                                    "stage": stage, "torch": torch, "cpd_order": order,
                                                    "impl": [g1, g2], "expected": tol, "exact": exact}, key=key)
            # replace the CPD of one variable by a different (uniform-ish) one, on the same network object
            v = rng.randrange(nv)
            w_ = [Fraction(1, cards[v])] * cards[v] if cards[v] != 3 else [Fraction(1, 2), Fraction(1, 4), Fraction(1, 4)]
            if rng.random() < 0.5:   # typed with three decimals: the column sums to 0.999, not 1
                w_ = [Fraction(x) for x in ({1: [0.999], 2: [0.5, 0.499], 3: [0.333, 0.333, 0.333]}[cards[v]])]
            tabs[v] = [[w_[s_]] * len(cols_of[v]) for s_ in range(cards[v])]
            bn.add_cpds(cpd(v))
            if len(bn.get_cpds()) != nv:
                return bad("impl!=model:is_imap-add_cpds-does-not-replace", {"edges": edges}, key=key)
        for bad_arg, f in (("jpd.is_imap(non-network)", lambda: jq.is_imap(jq)), ("bn.is_imap(non-joint)", lambda: bn.is_imap(bn))):
            try:
                f()
                return bad("impl!=model:is_imap-accepts-wrong-type", {"call": bad_arg}, key=key)
            except TypeError:
                pass
    finally:
        if torch:
            config.set_backend("numpy")
    if not np.array_equal(np.array(jpd.values, dtype=float), before):
        return bad("impl!=spec:is_imap-mutated-the-joint", {"edges": edges}, key=key)
    return None


# ------------------------------------------------------------------ (d) sessions on one object
def run_ses(case, drv):
    """one Independencies object (and one `other` object) through a random sequence of queries and
    add_assertions; after EVERY step the answer must be the as-coded model's answer on the CURRENT assertion
    list.  Deviations explained by the contraction side condition are remembered and reported (as the known
    finding) only if nothing else disagrees."""
    from pgmpy.independencies import Independencies, IndependenceAssertion
    rng = random.Random(case["qseed"])
    n = case["n"]
    names = rng.sample(NAMEPOOL, n)
    idx = {nm: i for i, nm in enumerate(names)}
    key = common.canon_key(["ses", n, case["steps"], case["qseed"]])

    def mk(a):
        return IndependenceAssertion(*[container(rng, [fresh(names[i]) for i in e], EVENT_FORMS)[1] for e in a])

    def canon_impl(lst):
        return sorted((sorted(map(sorted, k[0])), sorted(k[1])) for k in
                      (canon_a([idx[v] for v in a.event1], [idx[v] for v in a.event2], [idx[v] for v in a.event3])
                       for a in lst))

    def canon_m(lst):
        return sorted((sorted(map(sorted, k[0])), sorted(k[1])) for k in (canon_a(*t) for t in lst))

    def cset(lst):
        return {canon_a(*t) for t in lst}

    cur = [rand_assertion(rng, n) for _ in range(rng.randint(0, 3))]
    oth = [rand_assertion(rng, n) for _ in range(rng.randint(1, 2))]
    obj = Independencies(*[mk(a) for a in cur])
    other = Independencies(*[mk(a) for a in oth])
    trace = []
    finding = [None]
    tags = ["session n=%d steps=%d" % (n, case["steps"])]

    def where(**kw):
        d = {"n": n, "trace": trace, "current": cur, "other": oth}
        d.update(kw)
        return d

    def q_closure(o, lst, who):
        c = o.closure()
        coded, fixed = drv.call("c18_closure", [lst])
        if canon_impl(c.get_assertions()) != canon_m(coded) and cset(coded) != \
                {canon_a([idx[v] for v in a.event1], [idx[v] for v in a.event2], [idx[v] for v in a.event3])
                 for a in c.get_assertions()}:
            return None, bad("impl!=model:session-closure", where(who=who, impl=canon_impl(c.get_assertions()),
                                                                  model=canon_m(coded)), key=key)
        if len(c.get_assertions()) != len(coded):
            return None, bad("impl!=model:session-closure-duplicates", where(who=who), key=key)
        if cset(coded) != cset(fixed):
            finding[0] = finding[0] or "closure"
        return (c, coded, fixed), None

    def q_entails(o, lst, o2, lst2, who):
        e, ef, q, qf = drv.call("c18_entails", [lst, lst2])
        ie = o.entails(o2)
        if ie is not bool(e):
            return bad("impl!=model:session-entails", where(who=who, impl=ie, model=bool(e)), key=key)
        iq = o.is_equivalent(o2)
        if iq is not bool(q):
            return bad("impl!=model:session-is_equivalent", where(who=who, impl=iq, model=bool(q)), key=key)
        if e != ef or q != qf:
            finding[0] = finding[0] or "entails"
        return None

    def pool_for(lst):
        coded, fixed = drv.call("c18_closure", [lst])
        return [t for t in (coded + fixed)]

    ops = ["closure", "entails", "equiv-same", "contains", "add", "add-other", "get", "reduce", "alias", "reject"]
    # every session has at least one  query -> add -> query  sequence
    plan = [rng.choice(ops) for _ in range(case["steps"])]
    plan = [rng.choice(["closure", "entails", "equiv-same"])] + ["add"] + plan
    for op in plan:
        trace.append(op)
        if op == "closure":
            _, b = q_closure(obj, cur, "self")
            if b:
                return b
        elif op == "entails":
            # other := consequences of the current set (so entailment should mostly hold) or random ones
            pool = pool_for(cur)
            B = [rng.choice(pool) if pool and rng.random() < 0.8 else rand_assertion(rng, n)
                 for _ in range(rng.randint(1, 3))]
            ob = Independencies(*[mk(b) for b in B])
            trace[-1] = ["entails", B]
            b = q_entails(obj, cur, ob, B, "self-vs-fresh") or q_entails(obj, cur, other, oth, "self-vs-other") \
                or q_entails(other, oth, obj, cur, "other-vs-self")
            if b:
                return b
        elif op == "equiv-same":
            twin = Independencies(*[mk(a) for a in reversed(cur)])
            b = q_entails(obj, cur, twin, list(reversed(cur)), "self-vs-twin") or \
                q_entails(twin, list(reversed(cur)), obj, cur, "twin-vs-self")
            if b:
                return b
            if obj.is_equivalent(twin) is not True and finding[0] is None:
                return bad("impl!=spec:session-not-equivalent-to-itself", where(), key=key)
            if (obj == twin) is not True or (obj != twin) is not False:
                return bad("impl!=model:session-eq", where(), key=key)
        elif op == "contains":
            a = rng.choice(cur) if cur and rng.random() < 0.6 else rand_assertion(rng, n)
            trace[-1] = ["contains", a]
            m = drv.call("c18_aeq", [a, a, cur])[2]
            if (mk(a) in obj) is not bool(m) or obj.contains(mk([a[1], a[0], a[2]])) is not bool(m):
                return bad("impl!=model:session-contains", where(a=a, model=bool(m)), key=key)
        elif op in ("add", "add-other"):
            new = [rand_assertion(rng, n) for _ in range(rng.randint(1, 2))]
            trace[-1] = [op, new]
            tgt, lst = (obj, cur) if op == "add" else (other, oth)
            form = rng.choice(["objects", "lists", "tuples"])
            if form == "objects":
                tgt.add_assertions(*[mk(a) for a in new])
            elif form == "lists":
                tgt.add_assertions(*[[[names[i] for i in e] for e in a] for a in new])
            else:
                tgt.add_assertions(*[tuple(tuple(names[i] for i in e) for e in a) if a[2] else
                                     (tuple(names[i] for i in a[0]), tuple(names[i] for i in a[1])) for a in new])
            lst.extend(new)
        elif op == "reject":
            # a multi-argument call whose LATER argument is invalid: the earlier ones are in, nothing else changes
            good = rand_assertion(rng, n)
            gl = [[names[i] for i in e] for e in good]
            how = rng.choice(["short", "empty-event2", "contains-non-assertion", "constructor"])
            trace[-1] = ["reject", how, good]
            try:
                if how == "short":
                    obj.add_assertions(gl, [names[0]])
                    return bad("impl!=model:session-accepts-one-event-assertion", where(), key=key)
                elif how == "empty-event2":
                    obj.add_assertions(gl, [names[0], []])
                    return bad("impl!=model:session-accepts-empty-event2", where(), key=key)
                elif how == "contains-non-assertion":
                    obj.contains(gl)
                    return bad("impl!=model:session-contains-accepts-list", where(), key=key)
                else:
                    for args in ((names[0],), ([], names[0]), (names[0], [], names[1])):
                        try:
                            IndependenceAssertion(*args)
                            return bad("impl!=model:assertion-constructor-accepts", where(args=list(map(str, args))), key=key)
                        except ValueError:
                            pass
            except (IndexError, ValueError) as ex:
                if how not in ("short", "empty-event2") or not isinstance(ex, IndexError if how == "short" else ValueError):
                    raise
                cur.append(good)
            except TypeError:
                if how != "contains-non-assertion":
                    raise
            if gl != [[names[i] for i in e] for e in good]:
                return bad("impl!=spec:session-add_assertions-mutates-argument", where(), key=key)
        elif op == "get":
            if canon_impl(obj.get_assertions()) != canon_m(cur) or canon_impl(other.get_assertions()) != canon_m(oth):
                return bad("impl!=model:session-get_assertions", where(impl=canon_impl(obj.get_assertions())), key=key)
            if cur and obj.get_all_variables() != frozenset(names[i] for a in cur for e in a for i in e):
                return bad("impl!=model:session-get_all_variables", where(), key=key)
        elif op == "reduce":
            if obj.reduce() is not None:
                return bad("impl!=model:session-reduce-returns", where(), key=key)
        elif op == "alias":
            # the object handed out by closure() (and its list) belongs to the caller: mutating it must not change
            # later answers of the object it came from
            r, b = q_closure(obj, cur, "self")
            if b:
                return b
            c = r[0]
            junk = rand_assertion(rng, n)
            c.add_assertions(mk(junk))
            c.get_assertions().append(mk(rand_assertion(rng, n)))
            if rng.random() < 0.5:
                del c.get_assertions()[: len(c.get_assertions()) // 2]
        # after EVERY step: the object's own list, its closure and an entailment query, against the model on `cur`
        if canon_impl(obj.get_assertions()) != canon_m(cur):
            return bad("impl!=model:session-state", where(impl=canon_impl(obj.get_assertions())), key=key)
        if canon_impl(other.get_assertions()) != canon_m(oth):
            return bad("impl!=spec:session-query-mutated-the-other-object", where(impl=canon_impl(other.get_assertions())), key=key)
        r, b = q_closure(obj, cur, "after-" + (op if isinstance(op, str) else op[0]))
        if b:
            return b
        probe = [rng.choice(r[1])] if r[1] else [rand_assertion(rng, n)]
        b = q_entails(obj, cur, Independencies(*[mk(t) for t in probe]), probe, "after-step-probe")
        if b:
            return b
        if cur:
            last = [cur[-1]]
            if obj.entails(Independencies(mk(cur[-1]))) is not True:
                return bad("impl!=spec:session-does-not-entail-own-member", where(member=cur[-1]), key=key)
        tags.append("session op=%s" % (op if isinstance(op, str) else op[0]))
    if finding[0]:
        return bad("impl!=spec:closure", {"session": trace, "final": cur, "class": "session-" + finding[0]},
                   finding=F_CLOSURE, key=key, nontrivial=True, tags=tags + ["finding:session"])
    return ok(nontrivial=True, key=key, tags=tags)


def jnames(rng, nv, style):
    if style == "str":
        return rng.sample(JNAMES, nv)
    if style == "substr":
        return rng.sample(["x", "x1", "x10", "x11", "G", "G2", "G20", "a", "ab", "abc", "1", "10"], nv)
    if style == "int":
        return rng.sample(range(1, nv + 12), nv)
    # no tuple names: marginal_distribution documents a tuple ARGUMENT as a collection of variables
    pool = ["y", 7, "x1", 11, "x10", 3, "G", 10]
    return rng.sample(pool, nv)


def cond_table(names_i, cards, cells, cz):
    """exact conditional table given the context cz = [(position, state)...]: (positions kept, cards, cells)"""
    keep = [v for v in range(len(cards)) if v not in [u for u, _ in cz]]
    pz = py_marg(cards, cells, [v for v, _ in cz], [x for _, x in cz])
    out = {}
    for a in itertools.product(*[range(cards[v]) for v in keep]):
        out[a] = py_marg(cards, cells, keep + [v for v, _ in cz], list(a) + [x for _, x in cz]) / pz
    return keep, [cards[v] for v in keep], out


def run_jses(case, drv):
    """one JointProbabilityDistribution object through interleaved queries, non-inplace operations (which must leave
    it unchanged), IN-PLACE marginalisation / conditioning (after which every answer is the model's on the NEW
    table), rejected calls, and mutation of returned objects and of the construction buffer"""
    import numpy as np
    from pgmpy.factors.discrete import JointProbabilityDistribution as JPD
    rng = random.Random(case["qseed"])
    shape = case["shape"]
    if shape == "single":
        cards, cells = [rng.choice((2, 3))], None
        col = common.rand_column(rng, cards[0])
        cells = {(i,): col[i] for i in range(cards[0])}
    elif shape == "card1":
        cards, cells = make_table(rng, "generic")
        k = rng.randrange(len(cards) + 1)       # insert a cardinality-1 variable
        cards = cards[:k] + [1] + cards[k:]
        cells = {a[:k] + (0,) + a[k:]: p for a, p in cells.items()}
    elif shape == "tiny":
        # product of two blocks, one cell of mass 2^-40 (exact in binary64), so marginals span 12 decimal orders
        cards = [2, 2, 2]
        e = Fraction(1, 1 << rng.choice((30, 40, 45)))
        pa = [e, 1 - e]
        pb = {0: [Fraction(1, 4), Fraction(3, 4)], 1: [Fraction(1, 2), Fraction(1, 2)]}
        dep = rng.random() < 0.5
        cells = {(a, b, c): pa[a] * Fraction(1, 2) * (pb[b if dep else 0][c]) for a in range(2) for b in range(2) for c in range(2)}
        if not all(Fraction(float(v)) == v for v in cells.values()):
            cards, cells = make_table(rng, "generic")
    elif shape == "unnormalised":
        # a valid table whose cells do not sum to exactly 1 (np.isclose accepts it): nothing may assume sum == 1
        cards, cells = make_table(rng, rng.choice(["product", "generic", "condind"]))
        k0 = rng.choice(sorted(cells))
        cells[k0] = cells[k0] + Fraction(rng.choice((1, -1)), 1 << rng.choice((21, 22, 24)))
        if cells[k0] < 0:
            cells[k0] = -cells[k0]
    else:
        cards, cells = make_table(rng, shape)
    nv = len(cards)
    names = jnames(rng, nv, case.get("style", "str"))
    strnames = all(isinstance(x, str) for x in names)
    asg = list(itertools.product(*map(range, cards)))
    vals = np.array([float(cells[a]) for a in asg])
    route = case.get("route", "list")
    if route == "list":
        jpd = JPD(list(names), list(cards), [float(x) for x in vals])
    elif route == "ndarray":
        jpd = JPD(list(names), np.array(cards), vals.reshape(cards))
    elif route == "buffer":
        buf = np.ascontiguousarray(vals.copy(), dtype=np.float64)
        jpd = JPD(list(names), list(cards), buf)
        buf[:] = -1.0                                   # the caller reuses its buffer
    else:
        j0 = JPD(list(names), list(cards), vals.copy())
        jpd = JPD(list(names), list(cards), j0.values)
        j0.values[...] = 0.0
    st = {"names": list(names), "cards": list(cards), "cells": dict(cells)}
    key = common.canon_key(["jses", cards, [str(cells[a]) for a in asg], case["qseed"], case["steps"], route, list(map(str, names))])
    trace = []
    tags = ["jpd-session vars=%d steps=%d" % (nv, case["steps"]), "jpd-session names=%s" % case.get("style", "str"),
            "jpd-session construct=%s" % route, "jpd-session shape=%s" % shape]

    def J():
        a_ = list(itertools.product(*map(range, st["cards"])))
        return [list(range(len(st["cards"]))), st["cards"], [[list(a), st["cells"][a]] for a in a_]]

    def w(**kw):
        a_ = list(itertools.product(*map(range, st["cards"])))
        d = {"names": list(map(str, names)), "cards0": cards, "cells0": [str(cells[a]) for a in asg], "route": route,
             "trace": trace, "cards_now": st["cards"], "cells_now": [str(st["cells"][a]) for a in a_]}
        d.update(kw)
        return d

    def same_state():
        if list(jpd.variables) != st["names"] or [int(c) for c in jpd.cardinality] != st["cards"]:
            return False
        if tuple(jpd.values.shape) != tuple(st["cards"]):
            return False
        for a in itertools.product(*map(range, st["cards"])):
            if not common.approx(jpd.values[a], st["cells"][a], 1e-12):
                return False
        return True

    def factor_cells(f):
        pos = [st["names"].index(v) for v in f.variables]
        return {tuple(sorted(zip(pos, a))): float(f.values[a]) for a in itertools.product(*[range(st["cards"][v]) for v in pos])}

    if not same_state():
        return bad("impl!=spec:jpd-construction-aliases-the-buffer", w(), key=key)
    ops = ["check-marg", "check-rv", "check-ctx", "getind", "marginal", "conditional", "copy", "marginal-inplace",
           "conditional-inplace", "reject", "minimal_imap", "empty-event"]
    plan = [rng.choice(["conditional", "check-ctx", "getind", "marginal"])] + [rng.choice(ops) for _ in range(case["steps"])]
    for op in plan:
        nvn = len(st["cards"])
        V = list(range(nvn))
        nm = [fresh(x) for x in st["names"]]     # equal, never identical, to the objects stored in the table
        cd = st["cards"]
        perm = V[:]
        rng.shuffle(perm)
        e1, e2, rest = perm[:1], perm[1:2], perm[2:]
        zs = rest[:rng.randint(0, len(rest))]
        ctx = [[v, rng.randrange(cd[v])] for v in zs]
        trace.append([op, e1, e2, ctx])
        if op.startswith("check") and e2:
            m_ex, m_tol, c_ex, c_tol, x_ex, x_tol = drv.call("c18_checkind", J()[:3] + [e1, e2, zs, ctx, ATOL, RTOL])
            n1, n2 = [nm[v] for v in e1], [nm[v] for v in e2]
            EV = ["list", "tuple", "set", "frozenset", "gen", "iter", "map", "filter", "dictkeys", "dict", "nparray", "pdindex"]
            if any(isinstance(x, int) for x in n1 + n2) and any(isinstance(x, str) for x in n1 + n2):
                EV = EV[:-2]                      # numpy / pandas would coerce mixed int/str names
            k1, a1 = container(rng, n1, EV)
            k2, a2 = container(rng, n2, EV)
            tags.append("jpd-session events=%s/%s" % (k1, k2))
            if op == "check-marg":
                # absent event3 in every spelling, with and without condition_random_variable (the flag is irrelevant)
                got = jpd.check_independence(a1, a2, rng.choice([None, [], ()]), rng.random() < 0.5)
                exp = bool(m_tol)
            elif op == "check-rv":
                a3 = container(rng, [nm[v] for v in zs], ["list", "tuple", "set", "frozenset", "dictkeys", "dict"])[1]
                if all(isinstance(nm[v], str) for v in zs):
                    got, exp = jpd.check_independence(a1, a2, a3, condition_random_variable=True), bool(c_tol)
                else:
                    try:
                        jpd.check_independence(a1, a2, a3, condition_random_variable=True)
                        return bad("impl!=model:session-check_independence-accepts-non-string-event3", w(), key=key)
                    except TypeError:
                        got = exp = None
            else:
                a3 = container(rng, [(nm[v], x) for v, x in ctx], ["list", "list", "tuple", "set", "frozenset", "dictkeys", "dict"])[1]
                snap = a3 if not isinstance(a3, list) else list(a3)
                try:
                    got = jpd.check_independence(a1, a2, a3)
                except ValueError:
                    got = None
                exp = None if x_tol == [] else bool(x_tol[0])
                if a3 != snap:
                    return bad("impl!=spec:session-check_independence-mutates-argument", w(), key=key)
            if got is not exp:
                return bad("impl!=model:session-check_independence", w(impl=got, model=exp), key=key)
            if (k1 == "list" and a1 != n1) or (k2 == "list" and a2 != n2) or (k1 == "set" and a1 != set(n1)) \
                    or (k2 == "dict" and list(a2) != n2):
                return bad("impl!=spec:session-check_independence-mutates-argument", w(), key=key)
        elif op == "empty-event":
            if jpd.check_independence([], [nm[0]]) is not True or jpd.check_independence([nm[0]], []) is not True:
                return bad("impl!=model:session-check_independence-empty-event", w(), key=key)
        elif op == "getind" and strnames:
            cz = [[v, x] for v, x in ctx][: max(0, nvn - 2)]
            trace[-1] = [op, cz]
            g_ex, g_tol = drv.call("c18_getind", J()[:3] + [cz, ATOL, RTOL])
            exp = None if g_tol == [] else {frozenset(p_) for p_ in g_tol[0]}
            arg = [(nm[v], x) for v, x in cz]
            for rep in range(2):        # twice: the first result is mutated in between
                try:
                    carg = container(rng, arg, ["list", "tuple", "set", "frozenset", "dictkeys", "dict"])[1] if arg else None
                    ind = jpd.get_independencies(carg)
                    got = {frozenset((nm.index(next(iter(a.event1))), nm.index(next(iter(a.event2)))))
                           for a in ind.get_assertions()}
                    ind.add_assertions([nm[0], nm[-1]] if nvn > 1 else [nm[0], "zz"])
                    ind.get_assertions().append("junk")
                except ValueError:
                    got = None
                if got != exp:
                    return bad("impl!=model:session-get_independencies",
                               w(rep=rep, impl=None if got is None else sorted(map(sorted, got)), model=g_tol), key=key)
        elif op == "marginal":
            keep = sorted(rng.sample(V, rng.randint(1, nvn)))
            trace[-1] = [op, keep]
            arg = [nm[v] for v in keep]
            form = rng.choice(["list", "tuple", "set", "dict", "single"]) if len(arg) > 1 else rng.choice(["list", "dict", "single"])
            a_ = {"list": list(arg), "tuple": tuple(arg), "set": set(arg), "dict": dict.fromkeys(arg), "single": arg[0]}[form]
            if form == "single":
                if isinstance(arg[0], tuple):
                    a_ = [arg[0]]
                keep = keep[:1]
            m = jpd.marginal_distribution(a_, inplace=False)
            got = factor_cells(m)
            for a in itertools.product(*[range(cd[v]) for v in keep]):
                e = py_marg(cd, st["cells"], keep, a)
                if not common.approx(got.get(tuple(zip(keep, a)), float("nan")), e):
                    return bad("impl!=model:session-marginal_distribution", w(keep=keep, at=list(a), model=str(e)), key=key)
            m.values[...] = 7.0
        elif op == "conditional" and nvn >= 2:
            cz = ctx[: max(0, nvn - 1)] or [[perm[-1], rng.randrange(cd[perm[-1]])]]
            trace[-1] = [op, cz]
            pz = py_marg(cd, st["cells"], [v for v, _ in cz], [x for _, x in cz])
            try:
                c = jpd.conditional_distribution(container(rng, [(nm[v], x) for v, x in cz],
                                                           ["list", "tuple", "set", "frozenset", "dictkeys", "dict"])[1], inplace=False)
            except ValueError:
                c = None
            if (c is None) != (pz == 0):
                if not (pz == 0 and c is not None and np.isnan(c.values).all()):
                    return bad("impl!=model:session-conditional_distribution-zero", w(ctx=cz, pz=str(pz)), key=key)
            if c is not None and pz != 0:
                keep, kc, kcells = cond_table(nm, cd, st["cells"], cz)
                got = factor_cells(c)
                for a in kcells:
                    if not common.approx(got.get(tuple(sorted(zip(keep, a))), float("nan")), kcells[a]):
                        return bad("impl!=model:session-conditional_distribution", w(ctx=cz, at=list(a), model=str(kcells[a])), key=key)
                c.values[...] = 0.0
        elif op == "copy":
            c = jpd.copy()
            c.values[...] = 0.0
            if nvn > 1:
                c.marginal_distribution([nm[0]])
        elif op == "marginal-inplace" and nvn >= 3:
            keep = sorted(rng.sample(V, rng.randint(2, nvn - 1)))
            trace[-1] = [op, keep]
            r = jpd.marginal_distribution([nm[v] for v in keep]) if rng.random() < 0.5 else \
                jpd.marginal_distribution(tuple(nm[v] for v in keep), inplace=True)
            if r is not None:
                return bad("impl!=model:session-inplace-returns", w(), key=key)
            newc = {a: py_marg(cd, st["cells"], keep, a) for a in itertools.product(*[cd[v] and range(cd[v]) for v in keep])}
            st.update(names=[nm[v] for v in keep], cards=[cd[v] for v in keep], cells=newc)
        elif op == "conditional-inplace" and nvn >= 3:
            cz = [[perm[-1], rng.randrange(cd[perm[-1]])]]
            if py_marg(cd, st["cells"], [cz[0][0]], [cz[0][1]]) == 0:
                continue
            trace[-1] = [op, cz]
            arg = [(nm[v], x) for v, x in cz]
            r = jpd.conditional_distribution(arg) if rng.random() < 0.5 else jpd.conditional_distribution(arg, inplace=True)
            if r is not None:
                return bad("impl!=model:session-inplace-returns", w(), key=key)
            keep, kc, kcells = cond_table(nm, cd, st["cells"], cz)
            st.update(names=[nm[v] for v in keep], cards=kc, cells=kcells)
        elif op == "reject":
            how = rng.choice(["string-event1", "string-event2", "string-event3", "non-string-rv", "bad-state", "bad-ctx-var",
                              "not-normalised", "is_imap-non-model"])
            trace[-1] = [op, how]
            try:
                if how == "string-event1":
                    jpd.check_independence("ab", [nm[0]])
                elif how == "string-event2":
                    jpd.check_independence([nm[0]], "ab", None)
                elif how == "string-event3":
                    jpd.check_independence([nm[0]], [nm[-1]], "zz")
                elif how == "non-string-rv":
                    jpd.check_independence([nm[0]], [nm[-1]], [nm[0], 5], True)
                elif how == "bad-state":
                    jpd.check_independence([nm[0]], [nm[-1]], [(nm[0], cd[0] + 3)])
                elif how == "bad-ctx-var":
                    jpd.get_independencies([("no such variable", 0)])
                elif how == "not-normalised":
                    JPD(list(nm), list(cd), [2.0 * float(x) for x in jpd.values.ravel()])
                else:
                    jpd.is_imap(jpd)
                return bad("impl!=model:session-invalid-call-accepted", w(how=how), key=key)
            except (TypeError, ValueError, IndexError, KeyError):
                pass
        elif op == "minimal_imap" and strnames and 2 <= nvn <= 3:
            order = perm[:]
            okind, oarg = container(rng, [nm[v] for v in order], ["list", "tuple", "nparray", "pdindex"])
            snap = list(oarg)
            es_ex, es_tol, fact = drv.call("c18_minimap", J()[:3] + [order, ATOL, RTOL])
            exp = sorted({tuple(e) for e in es_tol})
            for rep in range(2):
                G = jpd.minimal_imap(oarg)
                got = sorted((nm.index(u), nm.index(v)) for u, v in G.edges())
                if got != exp:
                    return bad("impl!=model:session-minimal_imap", w(order=order, rep=rep, impl=got, model=exp), key=key)
                G.add_edge("junk", nm[0])
            if list(oarg) != snap:
                return bad("impl!=spec:session-minimal_imap-mutates-order", w(), key=key)
        if not same_state():
            return bad("impl!=spec:session-query-mutated-the-table", w(variables=list(map(str, jpd.variables)),
                                                                       values=[float(x) for x in jpd.values.ravel()]), key=key)
        tags.append("jpd-session op=%s" % op)
    return ok(nontrivial=len(set(cells.values())) > 1, key=key, tags=tags)


def run_jbig(case, drv):
    """9-10 binary variables in one table (product form, one correlated pair, optionally one conditionally
    independent triple): check_independence and get_independencies against the model"""
    import numpy as np
    from pgmpy.factors.discrete import JointProbabilityDistribution as JPD
    rng = random.Random(case["qseed"])
    nv = case["nv"]
    style = case["style"]
    if style == "int":
        names = rng.sample(range(1, nv + 6), nv)
    elif style == "substr":
        names = rng.sample(["x%d" % i for i in range(1, 13)] + ["x", "G", "G1", "G10"], nv)
    else:
        names = rng.sample(["a", "b", "c", "d", "e", "f", "g", "h", "i", "j", "k", "l"], nv)
    strnames = style != "int"
    cards = [2] * nv
    marg = [[Fraction(k, 4), 1 - Fraction(k, 4)] for k in (rng.choice((1, 2, 3)) for _ in range(nv))]
    u, v = rng.sample(range(nv), 2)
    joint_uv = rng.choice([[[Fraction(3, 8), Fraction(1, 8)], [Fraction(1, 8), Fraction(3, 8)]],
                           [[Fraction(1, 2), Fraction(0)], [Fraction(1, 4), Fraction(1, 4)]]])
    cells = {}
    for a in itertools.product(*map(range, cards)):
        p_ = joint_uv[a[u]][a[v]]
        for i in range(nv):
            if i not in (u, v):
                p_ *= marg[i][a[i]]
        cells[a] = p_
    asg = list(cells)
    vals = np.array([float(cells[a]) for a in asg])
    jpd = JPD(names, cards, vals)
    J = [list(range(nv)), cards, [[list(a), cells[a]] for a in asg]]
    key = common.canon_key(["jbig", nv, style, case["qseed"]])
    w = {"names": list(map(str, names)), "dependent": [u, v], "qseed": case["qseed"]}
    for _ in range(4):
        x, y = (u, v) if rng.random() < 0.4 else rng.sample(range(nv), 2)
        rest = [i for i in range(nv) if i not in (x, y)]
        zs = rng.sample(rest, rng.randint(1, 2))
        ctx = [[z, rng.randrange(2)] for z in zs]
        m_ex, m_tol, c_ex, c_tol, x_ex, x_tol = drv.call("c18_checkind", J + [[x], [y], zs, ctx, ATOL, RTOL])
        try:
            gctx = jpd.check_independence([names[x]], [names[y]], [(names[z], s_) for z, s_ in ctx])
        except ValueError:
            gctx = None
        got = [jpd.check_independence([names[x]], [names[y]]),
               jpd.check_independence([names[x]], [names[y]], [names[z] for z in zs], True) if strnames else bool(c_tol),
               gctx]
        exp = [bool(m_tol), bool(c_tol), None if x_tol == [] else bool(x_tol[0])]
        if got != exp:
            return bad("impl!=model:big-check_independence", dict(w, x=x, y=y, Z=zs, ctx=ctx, impl=got, model=exp), key=key)
    if strnames:
        g_ex, g_tol = drv.call("c18_getind", J + [[], ATOL, RTOL])
        ind = jpd.get_independencies()
        got = {frozenset((names.index(next(iter(a.event1))), names.index(next(iter(a.event2))))) for a in ind.get_assertions()}
        if got != {frozenset(p_) for p_ in g_tol[0]}:
            return bad("impl!=model:big-get_independencies", dict(w, impl=sorted(map(sorted, got)), model=g_tol), key=key)
    if not np.array_equal(jpd.values.ravel(), vals):
        return bad("impl!=spec:big-query-mutated-the-table", w, key=key)
    return ok(nontrivial=True, key=key, tags=["jpd big vars=%d names=%s" % (nv, style)])


# ------------------------------------------------------------------ (e) graph-edit sessions
def _reach(edges, src):
    adj = {}
    for u, v in edges:
        adj.setdefault(u, []).append(v)
    seen, todo = set(), [src]
    while todo:
        x = todo.pop()
        for y in adj.get(x, []):
            if y not in seen:
                seen.add(y)
                todo.append(y)
    return seen


def run_ged(case, drv):
    """one DAG / BayesianNetwork object: d-separation queries with fixed conditioning sets, then an edit through the
    object's public (own or inherited networkx) mutators, then the same queries again, 2-4 rounds.  Every answer must
    be the answer of C08's model of active_trail_nodes (= path definition) on the CURRENT nodes and edges."""
    from pgmpy.base import DAG
    from pgmpy.models import BayesianNetwork
    rng = random.Random(case["qseed"])
    n = case["n"]
    nodes = list(range(n))
    edges = [tuple(e) for e in case["edges"]]
    if case["gadget"]:
        # collider x -> z <- y whose only link to the conditioning set {w} is z -> w
        x, y, z, w = rng.sample(nodes, 4)
        keep = [e for e in edges if z not in e and w not in e and set(e) != {x, y}]
        edges = keep + [(x, z), (y, z), (z, w)]
        # drop anything that would make a cycle (cannot: z, w only in the gadget edges) ; extra descendants of w
        for u in nodes:
            if u not in (x, y, z, w) and rng.random() < 0.3 and not any(u == a for a, b in keep if True and b in (x, y)):
                if u not in _reach(edges, u) and w not in _reach(edges, u) and x not in _reach(edges, u) and y not in _reach(edges, u):
                    edges.append((w, u))
    names = {i: "v%d" % i for i in nodes}
    idx = {v: k for k, v in names.items()}
    g = (DAG if case["cls"] == "DAG" else BayesianNetwork)()
    g.add_nodes_from([names[i] for i in nodes])
    g.add_edges_from([(names[u], names[v]) for u, v in edges])
    key = common.canon_key(["ged", n, sorted(case["edges"]), case["gadget"], case["cls"], case["rounds"], case["qseed"]])
    trace = []
    tags = ["graph-edit cls=%s n=%d rounds=%d%s" % (case["cls"], n, case["rounds"], " gadget" if case["gadget"] else "")]
    # the conditioning sets, fixed for the whole session
    Zs = [sorted(rng.sample(nodes, rng.randint(1, min(3, n - 2)))) for _ in range(rng.randint(2, 3))]
    if case["gadget"]:
        Zs.insert(0, [w])
        if rng.random() < 0.5:
            Zs.append(sorted({w, rng.choice(nodes)} - {x, y}))
    pairs_q = [tuple(rng.sample(nodes, 2)) for _ in range(4)]
    if case["gadget"]:
        pairs_q.insert(0, (x, y))
    full_ind = n <= 5 and rng.random() < 0.6

    def where(**kw):
        d = {"cls": case["cls"], "nodes": list(nodes), "edges": sorted(edges), "trace": trace, "Zs": Zs}
        d.update(kw)
        return d

    def m_atn(start, Z):
        return set(drv.call("c18_atn", [nodes, [list(e) for e in edges], start, list(Z)]))

    def query_all(stage):
        if sorted(idx[v] for v in g.nodes()) != sorted(nodes) or \
                sorted((idx[a], idx[b]) for a, b in g.edges()) != sorted(edges):
            return bad("impl!=model:graph-edit-state", where(stage=stage, impl_edges=sorted((idx[a], idx[b]) for a, b in g.edges())), key=key)
        for Z0 in Zs:
            Z = [v for v in Z0 if v in nodes]
            for start in nodes:
                if start in Z:
                    continue
                exp = m_atn(start, Z)
                zk, zarg = container(rng, [fresh(names[v]) for v in Z], ["list", "tuple", "set", "list"])
                got = {idx[v] for v in g.active_trail_nodes(fresh(names[start]), observed=zarg)[names[start]]}
                if got != exp:
                    return bad("impl!=model:graph-edit-active_trail_nodes",
                               where(stage=stage, start=start, Z=Z, impl=sorted(got), model=sorted(exp)), key=key)
            for a, b in pairs_q:
                if a in nodes and b in nodes and a not in Z and b not in Z:
                    d = g.is_dconnected(fresh(names[a]), fresh(names[b]), observed=[fresh(names[v]) for v in Z])
                    if d is not (b in m_atn(a, Z)):
                        return bad("impl!=model:graph-edit-is_dconnected",
                                   where(stage=stage, x=a, y=b, Z=Z, impl=d, model=b in m_atn(a, Z)), key=key)
        # minimal_dseparator (its ancestral graph is taken from _get_ancestors_of([x, y]))
        eset = set(edges)
        for a, b in pairs_q:
            if a in nodes and b in nodes and (a, b) not in eset and (b, a) not in eset:
                r = g.minimal_dseparator(fresh(names[a]), fresh(names[b]))
                if r is None:
                    return bad("impl!=spec:graph-edit-minimal_dseparator-none", where(stage=stage, x=a, y=b), key=key)
                sep = sorted(idx[v] for v in r)
                if b in m_atn(a, sep):
                    return bad("impl!=spec:graph-edit-minimal_dseparator-not-separating", where(stage=stage, x=a, y=b, sep=sep), key=key)
                for u in sep:
                    if b not in m_atn(a, [t for t in sep if t != u]):
                        return bad("impl!=spec:graph-edit-minimal_dseparator-not-minimal", where(stage=stage, x=a, y=b, sep=sep, drop=u), key=key)
        # I-equivalence of the edited object with the (fresh) initial graph and with a fresh copy of itself
        fresh_g = DAG()
        fresh_g.add_nodes_from([fresh(names[v]) for v in nodes])
        fresh_g.add_edges_from([(fresh(names[a]), fresh(names[c])) for a, c in edges])
        for other, oe, who in ((partner, partner_edges, "initial"), (fresh_g, list(edges), "fresh-copy")):
            m = bool(drv.call("c18_iequiv", [[list(e) for e in edges], [list(e) for e in oe]])[0])
            if g.is_iequivalent(other) is not m or other.is_iequivalent(g) is not m:
                return bad("impl!=model:graph-edit-is_iequivalent", where(stage=stage, other=who, model=m), key=key)
        if {frozenset(idx[t] for t in pr) for pr in g.get_immoralities()} != {frozenset(k[0]) for k in py_vstructs(edges)}:
            return bad("impl!=model:graph-edit-get_immoralities", where(stage=stage), key=key)
        # local independencies
        for v in nodes:
            desc = _reach(edges, v)
            pa = {a for a, b in edges if b == v}
            nd = set(nodes) - {v} - desc - pa
            li = g.local_independencies(names[v]).get_assertions()
            if nd:
                ok_ = (len(li) == 1 and {idx[t] for t in li[0].event1} == {v} and {idx[t] for t in li[0].event2} == nd
                       and {idx[t] for t in li[0].event3} == pa)
            else:
                ok_ = not li
            if not ok_:
                return bad("impl!=model:graph-edit-local_independencies", where(stage=stage, v=v, impl=str(li)), key=key)
        if full_ind and len(nodes) <= 5:
            got = {(frozenset(idx[t] for t in a.event1), frozenset(idx[t] for t in a.event2), frozenset(idx[t] for t in a.event3))
                   for a in g.get_independencies().get_assertions()}
            exp = set()
            for start in nodes:
                rest = [v for v in nodes if v != start]
                for r in range(len(rest)):
                    for Z in itertools.combinations(rest, r):
                        sepd = set(rest) - set(Z) - m_atn(start, Z)
                        if sepd:
                            exp.add((frozenset([start]), frozenset(sepd), frozenset(Z)))
            if got != exp:
                return bad("impl!=model:graph-edit-get_independencies",
                           where(stage=stage, impl_only=[list(map(sorted, t)) for t in sorted(got - exp, key=str)[:3]],
                                 model_only=[list(map(sorted, t)) for t in sorted(exp - got, key=str)[:3]]), key=key)
        return None

    partner_edges = list(edges)
    partner = DAG()
    partner.add_nodes_from([names[v] for v in nodes])
    partner.add_edges_from([(names[a], names[c]) for a, c in partner_edges])
    b = query_all("initial")
    if b:
        return b
    nxt = n
    for rd in range(case["rounds"]):
        ops = ["remove_edge"] * 4 + ["remove_edges_from"] * 2 + ["remove_node", "remove_nodes_from", "add_edge", "add_node",
                                                                   "clear-rebuild"]
        if case["cls"] == "DAG":
            ops += ["do"] * 2
        op = rng.choice(ops)
        if rd == 0 and case["gadget"]:
            op = rng.choice(["remove_edge", "remove_edge", "remove_edges_from", "do"] if case["cls"] == "DAG"
                            else ["remove_edge", "remove_edges_from"])
        if op in ("remove_edge", "remove_edges_from") and not edges:
            op = "add_node"
        if op == "remove_edge":
            e = (z, w) if rd == 0 and case["gadget"] else rng.choice(edges)
            g.remove_edge(names[e[0]], names[e[1]])
            edges.remove(e)
            trace.append([op, list(e)])
        elif op == "remove_edges_from":
            es = rng.sample(edges, min(len(edges), rng.randint(1, 2)))
            if rd == 0 and case["gadget"] and (z, w) not in es:
                es.append((z, w))
            g.remove_edges_from([(names[a], names[c]) for a, c in es] + [("nope", "nope2")])
            for e in es:
                edges.remove(e)
            trace.append([op, [list(e) for e in es]])
        elif op == "remove_node":
            v = rng.choice(nodes)
            if len(nodes) <= 3:
                continue
            g.remove_node(names[v])
            nodes.remove(v)
            edges[:] = [e for e in edges if v not in e]
            trace.append([op, v])
        elif op == "remove_nodes_from":
            if len(nodes) <= 4:
                continue
            vs = rng.sample(nodes, 2)
            g.remove_nodes_from([names[v] for v in vs])
            for v in vs:
                nodes.remove(v)
            edges[:] = [e for e in edges if e[0] not in vs and e[1] not in vs]
            trace.append([op, vs])
        elif op == "clear-rebuild":
            # networkx clear(), then a different graph on the same names through the object's own adders
            g.clear()
            _, ne = common.rand_dag(rng, len(nodes))
            ren = dict(zip(range(len(nodes)), nodes))
            edges[:] = [(ren[a], ren[c]) for a, c in ne]
            if rng.random() < 0.5:
                g.add_nodes_from([names[v] for v in nodes])
                g.add_edges_from([(names[a], names[c]) for a, c in edges])
            else:
                for v in nodes:
                    g.add_node(names[v])
                for a, c in edges:
                    g.add_edge(names[a], names[c])
            if case["cls"] == "DAG":
                g.latents = set()
            trace.append([op, [list(e) for e in edges]])
        elif op == "do":
            vs = [w] if rd == 0 and case["gadget"] else rng.sample(nodes, rng.randint(1, 2))
            r = g.do([names[v] for v in vs] if len(vs) > 1 or rng.random() < 0.5 else names[vs[0]], inplace=True)
            if r is not g:
                return bad("impl!=model:graph-edit-do-inplace-returns-copy", where(), key=key)
            edges[:] = [e for e in edges if e[1] not in vs]
            trace.append([op, vs])
        elif op == "add_edge":
            cand = [(a, c) for a in nodes for c in nodes if a != c and (a, c) not in edges and (c, a) not in edges
                    and a not in _reach(edges, c)]
            if not cand:
                continue
            e = rng.choice(cand)
            g.add_edge(names[e[0]], names[e[1]])
            edges.append(e)
            trace.append([op, list(e)])
        elif op == "add_node":
            names[nxt] = "v%d" % nxt
            idx[names[nxt]] = nxt
            g.add_node(names[nxt])
            nodes.append(nxt)
            trace.append([op, nxt])
            nxt += 1
        b = query_all("after-round-%d" % rd)
        if b:
            return b
        tags.append("graph-edit op=%s" % op)
    return ok(nontrivial=True, key=key, tags=tags)


def run_ieqc(case, drv):
    """chains and binary trees of 9..33 nodes: the root-oriented graph against re-rootings (equivalent: no collider)
    and against graphs with one edge flipped into a collider"""
    rng = random.Random(case["qseed"])
    n = case["n"]
    if case["shape"] == "chain":
        und = [(i, i + 1) for i in range(n - 1)]
    else:
        und = [((i - 1) // 2, i) for i in range(1, n)]
    nb = {}
    for a, b in und:
        nb.setdefault(a, []).append(b)
        nb.setdefault(b, []).append(a)

    def rooted(r):
        seen, todo, es = {r}, [r], []
        while todo:
            u = todo.pop()
            for v in nb.get(u, []):
                if v not in seen:
                    seen.add(v)
                    es.append((u, v))
                    todo.append(v)
        return es
    names = ["n%d" % i for i in range(n)] if rng.random() < 0.5 else list(range(300, 300 + n))
    perm = list(range(n))
    rng.shuffle(perm)
    names = [names[i] for i in perm]
    eg = rooted(0)
    for t in range(5):
        eh = rooted(rng.randrange(n))
        if t >= 3:   # flip one edge: usually creates or destroys a collider
            k = rng.randrange(len(eh))
            eh = eh[:k] + [(eh[k][1], eh[k][0])] + eh[k + 1:]
        rng.shuffle(eh)
        g = mk_dag(names, eg, rng=rng)
        h = mk_dag(names, eh, rng=rng)
        b = cmp_ieq(drv, g, h, eg, eh, {"n": n, "shape": case["shape"], "h": eh}) or \
            cmp_ieq(drv, h, g, eh, eg, {"n": n, "shape": case["shape"], "h": eh, "sym": True})
        if b:
            return b
    return ok(nontrivial=True, key=common.canon_key(["ieqc", n, case["shape"], case["qseed"]]),
              tags=["iequiv %s n=%d" % (case["shape"], n)])


def run_clo6(case, drv):
    """six variables, premises with small events.  Even cases: the two-contraction pattern  a_|_b|c, a_|_w|b,c,
    w_|_v|a,c, w_|_c|d, w_|_d|v,c  (relabelled; derives w_|_v|d, which shares no variable with the first premise it
    needs), optionally with one more premise; odd cases: a chain of contractions plus an unrelated premise.  run_clo
    then asks entails / is_equivalent for every closure member that needs a variable-disjoint premise."""
    rng = random.Random(case["qseed"])
    v = list(range(6))
    rng.shuffle(v)
    a, b, c, d, e, f = v
    if case.get("pattern", case["qseed"] % 2) == 0:
        w_, v_ = e, f
        A = [[[a], [b], [c]], [[a], [w_], sorted([b, c])], [[w_], [v_], sorted([a, c])], [[w_], [c], [d]],
             [[w_], [d], sorted([v_, c])]]
        if rng.random() < 0.4:
            A.append(rand_assertion(rng, 6))
        A = [[p[1], p[0], p[2]] if rng.random() < 0.5 else p for p in A]
    else:
        A = [[[a], [b], []], [[a], [c], [b]], [[a], [d], sorted([b, c])], [[e], [f], []]]
        if rng.random() < 0.5:
            A.append([[a], [e], sorted([b, c, d])])
        rng.shuffle(A)
        A = A[: rng.randint(3, len(A))]
    rng.shuffle(A)
    return run_clo({"kind": "clo", "n": 6, "A": A, "qseed": case["qseed"], "disjoint": True}, drv)


def run_j257(case, drv):
    """a variable with 257 states (and a binary one): product form or one moved cell"""
    import numpy as np
    from pgmpy.factors.discrete import JointProbabilityDistribution as JPD
    rng = random.Random(case["qseed"])
    big = [Fraction(1, 512)] * 256 + [Fraction(1, 2)]
    rng.shuffle(big)
    two = [Fraction(1, 4), Fraction(3, 4)]
    order_big_first = rng.random() < 0.5
    cards = [257, 2] if order_big_first else [2, 257]
    cells = {}
    for sb in range(257):
        for s2 in range(2):
            cells[(sb, s2) if order_big_first else (s2, sb)] = big[sb] * two[s2]
    dep = rng.random() < 0.5
    if dep:
        hi = rng.choice([256, 255, 128, big.index(Fraction(1, 2))])
        k0 = (hi, 0) if order_big_first else (0, hi)
        k1 = (hi, 1) if order_big_first else (1, hi)
        cells[k0] += Fraction(1, 2048)
        cells[k1] -= Fraction(1, 2048)
    names = [fresh("big"), fresh("x2")] if order_big_first else [fresh("x2"), fresh("big")]
    bi, xi = names.index("big"), names.index("x2")
    asg = list(itertools.product(*map(range, cards)))
    jpd = JPD(names, cards, np.array([float(cells[a]) for a in asg]))
    J = [[0, 1], cards, [[list(a), cells[a]] for a in asg]]
    m_ex, m_tol = drv.call("c18_checkind", J + [[bi], [xi], [], [], ATOL, RTOL])[:2]
    got = jpd.check_independence([fresh("big")], [fresh("x2")])
    g_tol = drv.call("c18_getind", J + [[], ATOL, RTOL])[1]
    gi = {frozenset((names.index(next(iter(a.event1))), names.index(next(iter(a.event2)))))
          for a in jpd.get_independencies().get_assertions()}
    key = common.canon_key(["j257", case["qseed"]])
    if got is not bool(m_tol) or gi != {frozenset(p_) for p_ in g_tol[0]} or bool(m_ex) == dep:
        return bad("impl!=model:257-states", {"qseed": case["qseed"], "dependent": dep, "impl": [got, sorted(map(sorted, gi))],
                                               "model": [m_tol, g_tol], "exact": m_ex}, key=key)
    sb = 256
    ctx = [(fresh("big"), sb)]
    pz = sum(p_ for a_, p_ in cells.items() if a_[0 if order_big_first else 1] == sb)
    c = jpd.conditional_distribution(ctx, inplace=False)
    for s2 in range(2):
        e_ = cells[(sb, s2) if order_big_first else (s2, sb)] / pz
        if not common.approx(float(c.values[s2]), e_):
            return bad("impl!=model:257-states-conditional", {"qseed": case["qseed"], "state": s2, "model": str(e_)}, key=key)
    return ok(nontrivial=True, key=key, tags=["jpd 257 states dependent=%s" % dep])


def run_case(case, drv):
    k = case["kind"]
    if k == "clo":
        return run_clo(case, drv)
    if k == "ieq":
        return run_ieq(case, drv)
    if k == "ieqx":
        return run_ieqx(case, drv)
    if k == "ieqr":
        return run_ieqr(case, drv)
    if k == "jpd":
        return run_jpd(case, drv)
    if k == "ses":
        return run_ses(case, drv)
    if k == "ged":
        return run_ged(case, drv)
    if k == "jses":
        return run_jses(case, drv)
    if k == "jbig":
        return run_jbig(case, drv)
    if k == "ieqc":
        return run_ieqc(case, drv)
    if k == "clo6":
        return run_clo6(case, drv)
    if k == "j257":
        return run_j257(case, drv)
    return bad("harness:unknown-case-kind", {"kind": k})
