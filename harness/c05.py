"""C05 correspondence: pgmpy TabularCPD / BayesianNetwork.check_model vs the Coq model (coq/C05), whose
column meaning, P-preservation, validity boundary and validation soundness are proved in coq/C05/Props.v."""
import itertools
import math
import random
from fractions import Fraction

from harness import common
from harness.common import ok, bad

PROP = "C05"
LEVEL = "proof"
HASHSEEDS = {"quick": [0, 1], "thorough": [0, 1, 2, 3]}
BUDGET_S = {"quick": 120, "thorough": 1200}
EXHAUSTIVE = {"quick": False, "thorough": False}
RULE = ("streams (all in both tiers): 'cpd' random CPDs with 0..4 parents, cardinalities 1..4 drawn so that parent "
        "cardinalities are mostly pairwise different (a transposition is invisible on square shapes); tables: dyadic with "
        "zeros / all-zero columns (0/0), normalised, 'mag' (one power-of-two scale per column from denormals 2^-1070 to "
        "2^990, no zeros), 'near' (columns differing by 2^-30..2^-40), 'skew' (p = 2^-18..2^-45 against 1-p); state names "
        "default / permuted and 1-based ints / str / mixed incl. 0 and '' / booleans / the same names shared by several "
        "variables; variable names str / int / tuple / mixed / 'tricky' (x1,x10,x,G,G2, format keywords, '', 0 vs '0'); per "
        "CPD: constructor, get_values, to_csv (labels and cells), get_evidence, get_random (layout, determinism, "
        "cardinality=None, missing cardinality), every parent permutation for reorder_parents (inplace True and False), "
        "marginalize and reduce on every subset of parents (by state name, in place and out of place), normalize, copy, "
        "to_factor, is_valid_cpd, and the independence of every derived object under every in-place operation in both "
        "directions; 'valid' column sums at 1 +- (0.01+1e-5) +- margin; 'validx' non-finite tables (a nan / +inf / -inf entry, +inf and "
        "-inf in one column, a whole nan column, normalize() of an all-zero column = 0/0), negative entries that still sum to "
        "one (valid as coded), sums at 1 +- 0.01 and at 1 +- (0.01+1e-5 -+ 1e-9) - oracle: the model's is_valid_cpd extended "
        "to non-finite entries (any non-finite entry => invalid), also after normalize in the 'cpd' and 'session' streams; "
        "the 'bn' faults include a nan entry, an infinite entry, a normalised all-zero column (all rejected) and negative "
        "entries summing to one (accepted); 'malformed' rejected calls (bad new_order, child in "
        "arguments, duplicates, unknown state names falling back to numbers, bad shapes); 'session' 6 in-place operations "
        "(reorder/marginalize/reduce/normalize/copy and calls rejected because a LATER argument is invalid) on ONE CPD object "
        "with read-only calls in between, the object compared with the model after every step; 'bn' networks correct or "
        "wrong in exactly one respect (missing CPD, wrong parent set, wrong cardinality, mismatched / partial state names, "
        "column sum off by more / less than the tolerance), incl. families with 8..9 parents, with get_state_probability "
        "queries and the brute-force joint total; 'bnsession' 5 edits on ONE network (add_cpds replacing a CPD, remove_cpds "
        "by object and by name + re-add, add_edge, remove_edge / remove_edges_from, add_node, remove_node / "
        "remove_nodes_from, add_cpds(good, invalid), reorder_parents of a CPD inside the model) with check_model, get_cpds, "
        "get_cardinality() / (node), get_state_probability compared after every edit with the model built afresh from the "
        "current state; 'wide' CPDs with 8..10 parents (9..11 axes: the iteration order of a set of small ints is sorted "
        "only below 8) reduced / marginalized over subsets that keep high-index axes, reordered, copied, normalised; 'alias' "
        "CPDs/factors constructed from C-contiguous float64 ndarrays or (torch) tensors of the configured dtype, from "
        "other.get_values(), other.values, one re-filled buffer, then the caller's container or the object is mutated and the "
        "other re-checked, plus argument purity of every list / dict / nested list / ndarray handed to the constructor, "
        "reorder_parents, marginalize, reduce, get_random, get_state_probability (deep snapshot, then the containers are "
        "edited and reused).  Every 4th case of every stream runs under the torch backend: torch.Tensor(list) goes through "
        "float32, so torch cases round every input to float32 first (the model gets that exact value; 'mag' tables are "
        "numpy-only; torch reports kernel errors as RuntimeError/TypeError where numpy raises ValueError/IndexError - "
        "treated as the same rejection).  Comparisons are RELATIVE (1e-9) to the model's exact value; an exact zero must be "
        "exact.  Round-5 classes: (N) every name / state / tuple handed to reorder_parents, marginalize, reduce, "
        "get_state_probability, get_cpds, get_cardinality is rebuilt at run time (equal, not identical; variable names "
        "'long': long strings, ints above 256, nested tuples; state ints shifted by 300 / 70000); (O) marginalize gets a "
        "list / tuple / set / ndarray of names, reduce a list / tuple of tuples, the constructor lists / tuples / ndarrays "
        "for evidence, evidence_card, values and tuples for state-name lists (reorder_parents documents a list only and "
        "rejects a tuple; a generator handed to marginalize / reduce is silently ignored on the unchanged tree - reported, "
        "not generated); (P) variables with 257 / 300 states as child or parent incl. a reduce to a state number >= 256, "
        "chains / trees with 9 and 12 nodes, CPDs with 9..11 axes; (Q) 'typed' tables with 2-3 decimals whose column sums "
        "are within 0.001..0.008 of one, in the CPD, session and network streams; (R) the streams cross inplace x "
        "show_warnings x container type x backend x state-name style x table mode at random.  'bn' cardinality faults are "
        "combined with every state-name situation (default names, names of the declared length, the parent's own list as "
        "with one shared state_names dict, the parent's own CPD carrying a list of the declared length) and state-name "
        "faults with lists of another length under a correct cardinality.  Checklist classes that cannot apply: pandas frames (no DataFrame enters or leaves the anchored API); "
        "in-place edits of an INNER state-name list (copy(), to_factor() and the constructor copy the state_names dict "
        "shallowly on the unchanged tree, and get_values()/the array returned by reorder_parents is a view of cpd.values: "
        "these are reported observations, the streams edit top-level entries and returned arrays only through the API); "
        "float/bool state names equal to ints (True == 1) are never mixed with ints in one variable; overflowing sums "
        "(> 1e308) are not generated because float overflow is not modelled.  A CPD case is non-trivial when it has >=2 "
        "parents with different cardinalities or non-default state names; a network case when it has >=1 edge; "
        "distinct = distinct canonical input")
TRUSTED_BASE = ["numpy reshape/transpose/einsum/basic slicing/allclose kernels (modelled by their documented meaning)",
                "float rounding is not modelled: dyadic inputs, outputs compared at 1e-9 relative",
                "DiscreteFactor.marginalize/reduce axis bookkeeping is modelled by the reference factor algebra "
                "(its literal form is property C04's subject)"]
ASSUMPTIONS = ["variables and state names are interned by the harness (ints k>=0 as k, other hashables as ids >= 2^20)",
               "state-name lists have the declared cardinality (pgmpy does not validate this) except in the "
               "malformed stream, state names are lists (not tuples); no float state names; booleans only in all-bool lists"]

BIG = 1 << 20
ERR = {"ValueError": 1, "KeyError": 2, "IndexError": 3, "TypeError": 4}
CM_NAMES = ["ok", "no_cpd", "parents", "no_state_names", "sum", "card", "state_names"]
CM_MSG = [("No CPD associated", 1), ("proper parents", 2), ("state names defined", 3), ("not equal to 1", 4),
          ("cardinality of", 5), ("state names of", 6)]
# |s-1| <= 0.01 + 1e-5*1 ; margins on both sides (dyadic so that float sums are exact)
TOL = Fraction(1001, 100000)


def dy(x, bits=40):
    return Fraction(round(Fraction(x) * (1 << bits)), 1 << bits)


# ------------------------------------------------------------------ generation
STYLES = ["default", "intperm", "str", "mixed", "bool", "shared"]


def rand_cards(rng, k):
    """child card + k parent cards, parents mostly pairwise different"""
    ccard = rng.choice([1, 2, 2, 3, 3, 4])
    if rng.random() < 0.8:
        pool = [1, 2, 3, 4]
        rng.shuffle(pool)
        pc = pool[:k]
    else:
        pc = [rng.choice([1, 2, 3, 4]) for _ in range(k)]
    return ccard, pc


def rand_table(rng, ccard, P, mode):
    rows = [[None] * P for _ in range(ccard)]
    for j in range(P):
        if mode == "norm":
            col = common.rand_column(rng, ccard)
        elif mode == "zerocol" and rng.random() < 0.3:
            col = [Fraction(0)] * ccard
        elif mode == "typed":   # typed with 2-3 decimals: the column sum is within 0.01 of one but not one
            dec = rng.choice([100, 1000])
            base = common.rand_column(rng, ccard)
            col = [Fraction(int(x * dec), dec) for x in base]           # truncated to 2-3 decimals
            im = max(range(ccard), key=lambda t: col[t])
            col[im] += (1 - sum(col)) + Fraction(rng.choice([-1, 1]) * rng.randint(1, 8), 1000)   # sum = 1 +- 0.001..0.008
            col = [Fraction(float(x)) for x in col]
        elif mode == "mag":     # one power-of-two scale per column (denormals ... 2^990), no zeros, integer mantissas
            e = rng.choice([-1070, -1000, -300, -60, -1, 0, 53, 60, 300, 990])
            col = [Fraction(rng.randint(1, 12)) * (Fraction(2) ** e) for _ in range(ccard)]
        elif mode == "near":    # columns that differ from each other by 2^-30 ... 2^-40 in one entry
            base = [Fraction(i + 1, 8) for i in range(ccard)]
            i = rng.randrange(ccard)
            base[i] += rng.choice([-1, 1]) * Fraction(1, 2 ** rng.randint(30, 40)) * rng.randint(0, 3)
            col = base
        elif mode == "skew":    # normalised, one state almost certain: p = 2^-e, 1 - p
            col = [Fraction(0)] * ccard
            if ccard == 1:
                col = [Fraction(1)]
            else:
                pq = Fraction(1, 2 ** rng.randint(18, 45))
                i, i2 = rng.sample(range(ccard), 2)
                col[i], col[i2] = pq, 1 - pq
        else:
            col = [Fraction(rng.choice([0, 1, 2, 3, 5, 7, 9, 12]), 2 ** rng.choice([0, 2, 3, 5])) for _ in range(ccard)]
        for i in range(ccard):
            rows[i][j] = col[i]
    return rows


def rand_state_names(rng, nvars, cards, style):
    """list (per variable index) of python state names; style default -> None"""
    if style == "default":
        return None
    out = []
    for v in range(nvars):
        c = cards[v]
        if style == "intperm":
            s = list(range(c))
            rng.shuffle(s)
            if rng.random() < 0.3:
                sh = rng.choice([1, 2, 3, 300, 70000])
                s = [x + sh for x in s]
        elif style == "str":
            s = ["s%d_%d" % (v, i) for i in range(c)]
            rng.shuffle(s)
        elif style == "bool":     # booleans where the cardinality allows, else strings
            s = rng.sample([False, True], c) if c <= 2 else ["b%d" % i for i in range(c)]
        elif style == "shared":   # the same names for different variables
            s = rng.sample(["a", "b", "c", "d"], c)
        else:  # mixed
            pool = [0, "a", 2, "b", 1, "t1", 5, "zz", 3, ""]
            rng.shuffle(pool)
            s = pool[:c]
        out.append(s)
    return out


def fr(x):
    return [x.numerator, x.denominator]


def unfr(p):
    return Fraction(p[0], p[1])


def gen_cpd(rng, kmax=4):
    k = rng.choice([0, 1, 2, 2, 3, 3, 4][: 3 + kmax])
    ccard, pc = rand_cards(rng, k)
    mode = rng.choice(["norm", "free", "free", "zerocol", "mag", "near", "skew", "typed"])
    if mode == "mag" and k > 2:
        k = 2
        pc = pc[:2]
    P = math.prod(pc)
    rows = rand_table(rng, ccard, P, mode)
    style = rng.choice(STYLES)
    vstyle = rng.choice(["str", "str", "int", "mixed", "tricky", "long"])
    sn = rand_state_names(rng, k + 1, [ccard] + pc, style)
    return {"k": k, "ccard": ccard, "pc": pc, "rows": [[fr(x) for x in r] for r in rows], "mode": mode,
            "style": style, "vstyle": vstyle, "sn": sn, "nameseed": rng.randint(0, 10 ** 9),
            "qseed": rng.randint(0, 10 ** 9)}


def gen_valid(rng):
    k = rng.randint(0, 2)
    ccard, pc = rand_cards(rng, k)
    P = math.prod(pc)
    rows = rand_table(rng, ccard, P, "norm")
    margin = rng.choice([Fraction(1, 10 ** 6), Fraction(1, 10 ** 5), Fraction(1, 10 ** 3)])
    side = rng.choice([-1, 1])
    inout = rng.choice(["in", "out"])
    j = rng.randrange(P)
    delta = dy(side * (TOL + (margin if inout == "out" else -margin)))
    i = rng.randrange(ccard)
    if rows[i][j] + delta < 0:
        i = max(range(ccard), key=lambda t: rows[t][j])
    rows[i][j] = rows[i][j] + delta
    return {"k": k, "ccard": ccard, "pc": pc, "rows": [[fr(x) for x in r] for r in rows], "mode": "bound",
            "style": "default", "vstyle": "str", "sn": None, "nameseed": rng.randint(0, 10 ** 9),
            "qseed": rng.randint(0, 10 ** 9), "bound": [inout, side, str(margin)]}


NONFINITE = {"nan": float("nan"), "inf": float("inf"), "-inf": float("-inf")}


def gen_valid_special(rng):
    """non-finite entries, negative entries that still sum to one, sums at 1 +- 0.01 and at 1 +- (tol -+ 1e-9)"""
    k = rng.randint(0, 2)
    ccard, pc = rand_cards(rng, k)
    if ccard == 1:
        ccard = 2
    P = math.prod(pc)
    rows = rand_table(rng, ccard, P, "norm")
    j = rng.randrange(P)
    what = rng.choice(["nan", "inf", "-inf", "inf-inf", "nan-all-column", "normalize-zero-column", "neg-sum1",
                       "sum=1+0.01", "sum=1-0.01", "tol-1e-9", "tol+1e-9"])
    nf, normalize, expect = [], False, None
    i = rng.randrange(ccard)
    if what in ("nan", "inf", "-inf"):
        nf, expect = [[i, j, what]], False
    elif what == "inf-inf":
        nf, expect = [[0, j, "inf"], [1, j, "-inf"]], False
    elif what == "nan-all-column":
        nf, expect = [[t, j, "nan"] for t in range(ccard)], False
    elif what == "normalize-zero-column":
        rows = rand_table(rng, ccard, P, "free")
        for t in range(ccard):
            rows[t][j] = Fraction(0)
        normalize, expect = True, False
    elif what == "neg-sum1":
        i2 = (i + 1) % ccard
        rows[i][j] -= Fraction(3, 2)
        rows[i2][j] += Fraction(3, 2)
        expect = True
    elif what in ("sum=1+0.01", "sum=1-0.01"):
        i = max(range(ccard), key=lambda t: rows[t][j])
        rows[i][j] += dy(Fraction(1, 100) if "+" in what else Fraction(-1, 100))
        expect = True
    else:
        side = rng.choice([-1, 1])
        m9 = Fraction(1, 10 ** 9)
        i = max(range(ccard), key=lambda t: rows[t][j])
        rows[i][j] += dy(side * (TOL + (m9 if what == "tol+1e-9" else -m9)))
        expect = what == "tol-1e-9"
    return {"k": k, "ccard": ccard, "pc": pc, "rows": [[fr(x) for x in r] for r in rows], "mode": "special",
            "style": "default", "vstyle": "str", "sn": None, "nameseed": rng.randint(0, 10 ** 9),
            "qseed": rng.randint(0, 10 ** 9), "special": what, "nf": nf, "normalize": normalize, "expect": expect}


FAULTS = ["none", "none", "missing_cpd", "wrong_parents", "wrong_card", "sn_mismatch", "sn_partial",
          "sum_out", "sum_in", "nan_entry", "inf_entry", "nan_normalized", "neg_sum1"]


def gen_bn(rng, nmax):
    n = rng.randint(1, nmax)
    nodes, edges = common.rand_dag(rng, n, p=rng.choice([0.3, 0.5, 0.7]))
    # cap in-degree at 3
    indeg = {}
    e2 = []
    for u, v in edges:
        if indeg.get(v, 0) < 3:
            e2.append([u, v])
            indeg[v] = indeg.get(v, 0) + 1
    edges = e2
    cards = [rng.choice([1, 2, 2, 3, 3]) for _ in range(n)]
    style = rng.choice(STYLES)
    sn = rand_state_names(rng, n, cards, style)
    fault = rng.choice(FAULTS)
    cpds = []
    order = list(range(n))
    rng.shuffle(order)
    target = rng.choice(order)
    for v in order:
        pa = [u for (u, w) in edges if w == v]
        rng.shuffle(pa)
        cpds.append({"v": v, "pa": pa, "pc": [cards[u] for u in pa], "card": cards[v], "sn_over": {}, "sn_keys": None})
    by_v = {c["v"]: c for c in cpds}
    applied = "none"
    c = by_v[target]
    if fault == "missing_cpd":
        cpds = [d for d in cpds if d["v"] != target]
        applied = fault
    elif fault == "wrong_parents":
        others = [u for u in range(n) if u != target and u not in c["pa"]]
        choices = []
        if c["pa"]:
            choices.append("drop")
        if others:
            choices.append("add")
        if c["pa"] and others:
            choices.append("swap")
        if choices:
            how = rng.choice(choices)
            if how in ("drop", "swap"):
                i = rng.randrange(len(c["pa"]))
                c["pa"].pop(i)
                c["pc"].pop(i)
            if how in ("add", "swap"):
                u = rng.choice(others)
                i = rng.randint(0, len(c["pa"]))
                c["pa"].insert(i, u)
                c["pc"].insert(i, cards[u])
            applied = fault + ":" + how
    elif fault == "wrong_card":
        if c["pa"]:
            i = rng.randrange(len(c["pa"]))
            newc = rng.choice([x for x in [1, 2, 3, 4] if x != c["pc"][i]])
            c["pc"][i] = newc
            u = c["pa"][i]
            base = list(sn[u]) if sn is not None else list(range(cards[u]))
            declared = (base + ["x%d" % t for t in range(4)])[:newc]
            how = rng.choice(["default-or-declared-length", "declared-length", "parents-own-list", "parent-carries-declared-list"])
            if how == "default-or-declared-length":
                if sn is not None:      # the child's own list for that parent has the (wrong) declared length
                    c["sn_over"][str(u)] = declared
            elif how == "declared-length":
                c["sn_over"][str(u)] = declared
            elif how == "parents-own-list":     # e.g. one shared state_names dict handed to every CPD
                c["sn_over"][str(u)] = base
            elif any(d["v"] == u for d in cpds):   # the parent's own CPD carries a list of the declared (wrong) length too
                c["sn_over"][str(u)] = declared
                by_v[u]["sn_over"][str(u)] = declared
            applied = fault + ":" + how
    elif fault == "sn_mismatch":
        cand = [i for i, u in enumerate(c["pa"]) if cards[u] >= 1]
        if cand:
            i = rng.choice(cand)
            u = c["pa"][i]
            base = list(sn[u]) if sn is not None else list(range(cards[u]))
            r_ = rng.random()
            if cards[u] >= 2 and r_ < 0.35:
                alt = base[1:] + base[:1]
            elif r_ < 0.55:
                alt = base + ["one-more"]          # same cardinality declared, a list of another length
            elif r_ < 0.7:
                alt = base[:-1]
            else:
                alt = ["m%d" % t for t in range(cards[u])]
            c["sn_over"][str(u)] = alt
            applied = fault
    elif fault == "sn_partial":
        if c["pa"]:
            c["sn_keys"] = [target] + c["pa"][:-1]
            applied = fault
    # tables
    for d in cpds:
        P = math.prod(d["pc"])
        rows = rand_table(rng, d["card"], P, rng.choice(["norm", "norm", "skew", "typed"]))
        d["rows"] = rows
    if fault in ("sum_out", "sum_in") and cpds:
        d = by_v[target]
        P = math.prod(d["pc"])
        j = rng.randrange(P)
        for t, x in enumerate(common.rand_column(rng, d["card"])):     # the faulted column starts exactly normalised
            d["rows"][t][j] = x
        margin = rng.choice([Fraction(1, 10 ** 6), Fraction(1, 10 ** 4), Fraction(1, 10 ** 2)])
        side = rng.choice([-1, 1])
        if fault == "sum_in":
            margin = min(margin, TOL / 2)
        delta = dy(side * (TOL + (margin if fault == "sum_out" else -margin)))
        i = max(range(d["card"]), key=lambda t: d["rows"][t][j])
        d["rows"][i][j] += delta
        applied = fault
    if fault in ("nan_entry", "inf_entry", "nan_normalized", "neg_sum1") and any(d["v"] == target for d in cpds):
        d = by_v[target]
        P = math.prod(d["pc"])
        j = rng.randrange(P)
        i = rng.randrange(d["card"])
        if fault == "nan_entry":
            d["nf"] = [[i, j, "nan"]]
            applied = fault
        elif fault == "inf_entry":
            d["nf"] = [[i, j, rng.choice(["inf", "-inf"])]]
            applied = fault
        elif fault == "nan_normalized":
            for t in range(d["card"]):
                d["rows"][t][j] = Fraction(0)
            d["normalize"] = True
            applied = fault
        elif d["card"] >= 2:
            d["rows"][i][j] -= Fraction(5, 4)
            d["rows"][(i + 1) % d["card"]][j] += Fraction(5, 4)
            applied = fault
    for d in cpds:
        d["rows"] = [[fr(x) for x in r] for r in d["rows"]]
    return {"n": n, "nodes": nodes, "edges": edges, "cards": cards, "style": style, "sn": sn, "fault": applied,
            "cpds": cpds, "vstyle": rng.choice(["str", "str", "int", "mixed", "tricky", "long"]), "nameseed": rng.randint(0, 10 ** 9),
            "qseed": rng.randint(0, 10 ** 9)}



def gen_wide(rng):
    """a CPD with 8..10 parents, cardinalities mostly 2 (some 1 / 3, unequal), table <= ~2000 entries"""
    while True:
        k = rng.choice([8, 8, 9, 9, 10])
        ccard = rng.choice([1, 2, 2])
        pc = [rng.choice([2, 2, 2, 2, 1, 3]) for _ in range(k)]
        if ccard * math.prod(pc) <= 2100 and len(set(pc)) > 1:
            break
    P = math.prod(pc)
    mode = rng.choice(["norm", "free"])
    rows = rand_table(rng, ccard, P, mode)
    style = rng.choice(STYLES)
    sn = rand_state_names(rng, k + 1, [ccard] + pc, style)
    return {"k": k, "ccard": ccard, "pc": pc, "rows": [[fr(x) for x in r] for r in rows], "mode": mode,
            "style": style, "vstyle": rng.choice(["str", "int", "mixed", "tricky", "long"]), "sn": sn,
            "nameseed": rng.randint(0, 10 ** 9), "qseed": rng.randint(0, 10 ** 9)}


def gen_widebn(rng):
    """a child with 8..9 parents (roots), cardinalities mostly 2; correct or wrong in one respect on the wide family"""
    k = rng.choice([8, 8, 9])
    n = k + 1
    cards = [rng.choice([2, 2, 2, 1, 3]) for _ in range(n)]
    cards[0] = rng.choice([1, 2, 2])
    while math.prod(cards) > 1600:
        cards[rng.randrange(1, n)] = 2 if rng.random() < 0.7 else 1
    nodes = list(range(n))
    rng.shuffle(nodes)
    edges = [[u, 0] for u in range(1, n)]
    rng.shuffle(edges)
    style = rng.choice(STYLES)
    sn = rand_state_names(rng, n, cards, style)
    pa = list(range(1, n))
    rng.shuffle(pa)
    cpds = [{"v": 0, "pa": pa, "pc": [cards[u] for u in pa], "card": cards[0], "sn_over": {}, "sn_keys": None}]
    for u in range(1, n):
        cpds.append({"v": u, "pa": [], "pc": [], "card": cards[u], "sn_over": {}, "sn_keys": None})
    rng.shuffle(cpds)
    c = [d for d in cpds if d["v"] == 0][0]
    fault = rng.choice(["none", "none", "wrong_parents", "wrong_card", "sn_mismatch", "missing_cpd"])
    applied = "none"
    if fault == "wrong_parents":
        i = rng.randrange(len(c["pa"]))
        c["pa"].pop(i)
        c["pc"].pop(i)
        applied = "wrong_parents:drop"
    elif fault == "wrong_card":
        i = rng.randrange(len(c["pa"]))
        u = c["pa"][i]
        newc = rng.choice([x for x in [1, 2, 3] if x != c["pc"][i]])
        c["pc"][i] = newc
        base = list(sn[u]) if sn is not None else list(range(cards[u]))
        if rng.random() < 0.5:
            c["sn_over"][str(u)] = base                                   # the parent's own list
            applied = fault + ":parents-own-list"
        else:
            if sn is not None:
                c["sn_over"][str(u)] = (base + ["x%d" % t for t in range(4)])[:newc]
            applied = fault + ":default-or-declared-length"
    elif fault == "sn_mismatch":
        u = rng.choice(c["pa"])
        c["sn_over"][str(u)] = ["m%d" % t for t in range(cards[u])]
        applied = fault
    elif fault == "missing_cpd":
        t = rng.choice(range(1, n))
        cpds = [d for d in cpds if d["v"] != t]
        applied = fault
    for d in cpds:
        d["rows"] = [[fr(x) for x in r] for r in rand_table(rng, d["card"], math.prod(d["pc"]), "norm")]
    return {"n": n, "nodes": nodes, "edges": edges, "cards": cards, "style": style, "sn": sn, "fault": applied,
            "cpds": cpds, "vstyle": rng.choice(["str", "int", "mixed", "tricky"]), "nameseed": rng.randint(0, 10 ** 9),
            "qseed": rng.randint(0, 10 ** 9)}


def gen_big(rng):
    """a variable with more than 256 states (child or parent)"""
    big = rng.choice([257, 300])
    if rng.random() < 0.5:
        ccard, pc = big, ([2] if rng.random() < 0.5 else [])
    else:
        ccard, pc = 2, [big] + ([2] if rng.random() < 0.4 else [])
    k = len(pc)
    rows = rand_table(rng, ccard, math.prod(pc), rng.choice(["norm", "free"]))
    style = rng.choice(["default", "intperm", "str"])
    sn = rand_state_names(rng, k + 1, [ccard] + pc, style)
    return {"k": k, "ccard": ccard, "pc": pc, "rows": [[fr(x) for x in r] for r in rows], "mode": "big",
            "style": style, "vstyle": rng.choice(["str", "int", "long"]), "sn": sn, "nameseed": rng.randint(0, 10 ** 9),
            "qseed": rng.randint(0, 10 ** 9)}


def gen_midbn(rng):
    """chains / trees with 9 or 12 nodes (sizes = 1 mod 8, more than 8 families), binary with one ternary node"""
    n = rng.choice([9, 9, 12])
    cards = [2] * n
    cards[rng.randrange(n)] = 3
    perm = list(range(n))
    rng.shuffle(perm)
    chain = rng.random() < 0.5
    edges = [[perm[i - 1] if chain else perm[rng.randrange(i)], perm[i]] for i in range(1, n)]
    rng.shuffle(edges)
    nodes = list(range(n))
    rng.shuffle(nodes)
    style = rng.choice(STYLES)
    sn = rand_state_names(rng, n, cards, style)
    cpds = []
    for v in rng.sample(range(n), n):
        pa = [u for (u, w) in edges if w == v]
        cpds.append({"v": v, "pa": pa, "pc": [cards[u] for u in pa], "card": cards[v], "sn_over": {}, "sn_keys": None})
    fault = rng.choice(["none", "none", "wrong_card", "sum_in"])
    applied = "none"
    withpa = [d for d in cpds if d["pa"]]
    for d in cpds:
        d["rows"] = rand_table(rng, d["card"], math.prod(d["pc"]), rng.choice(["norm", "typed"]))
    if fault == "wrong_card" and withpa:
        c = rng.choice(withpa)
        u = c["pa"][0]
        c["pc"][0] = cards[u] + 1
        c["sn_over"][str(u)] = list(sn[u]) if sn is not None else list(range(cards[u]))     # the parent's own list
        c["rows"] = rand_table(rng, c["card"], math.prod(c["pc"]), "norm")
        applied = "wrong_card:parents-own-list"
    elif fault == "sum_in":
        d = rng.choice(cpds)
        j = rng.randrange(math.prod(d["pc"]))
        for t, x in enumerate(common.rand_column(rng, d["card"])):
            d["rows"][t][j] = x
        i = max(range(d["card"]), key=lambda t: d["rows"][t][j])
        d["rows"][i][j] += dy(rng.choice([-1, 1]) * Fraction(1, 250))
        applied = "sum_in"
    for d in cpds:
        d["rows"] = [[fr(x) for x in r] for r in d["rows"]]
    return {"n": n, "nodes": nodes, "edges": edges, "cards": cards, "style": style, "sn": sn, "fault": applied,
            "cpds": cpds, "vstyle": rng.choice(["str", "int", "mixed", "tricky", "long"]), "nameseed": rng.randint(0, 10 ** 9),
            "qseed": rng.randint(0, 10 ** 9)}


def cases(tier, seed):
    rng = random.Random(seed)
    out = []
    ncpd, nvalid, nbn, nmal = (170, 100, 320, 100) if tier == "quick" else (2400, 1000, 4000, 1000)
    for _ in range(ncpd):
        c = gen_cpd(rng)
        c["kind"] = "cpd"
        out.append(c)
    for _ in range(nvalid):
        c = gen_valid(rng)
        c["kind"] = "valid"
        out.append(c)
    for _ in range(66 if tier == "quick" else 700):
        c = gen_valid_special(rng)
        c["kind"] = "validx"
        out.append(c)
    for _ in range(nbn):
        c = gen_bn(rng, 5 if tier == "quick" else 6)
        c["kind"] = "bn"
        out.append(c)
    for _ in range(nmal):
        c = gen_cpd(rng, kmax=3)
        c["kind"] = "malformed"
        out.append(c)
    nwide, nalias = (26, 90) if tier == "quick" else (300, 900)
    for _ in range(14 if tier == "quick" else 150):
        c = gen_widebn(rng)
        c["kind"] = "bn"
        out.append(c)
    for _ in range(8 if tier == "quick" else 80):
        c = gen_midbn(rng)
        c["kind"] = "bn"
        out.append(c)
    for _ in range(8 if tier == "quick" else 80):
        c = gen_big(rng)
        c["kind"] = "session"
        out.append(c)
    nsess, nbns = (110, 110) if tier == "quick" else (1200, 1200)
    for _ in range(nsess):
        c = gen_cpd(rng, kmax=4)
        c["kind"] = "session"
        out.append(c)
    for _ in range(nbns):
        while True:
            c = gen_bn(rng, 5)
            if c["fault"] == "none":
                break
        c["kind"] = "bnsession"
        out.append(c)
    for _ in range(nwide):
        c = gen_wide(rng)
        c["kind"] = "wide"
        out.append(c)
    for _ in range(nalias):
        c = gen_cpd(rng, kmax=3)
        c["kind"] = "alias"
        out.append(c)
    # backends: every stream runs under numpy and (every 4th case) under torch
    for i, c in enumerate(out):
        c["backend"] = "torch" if (i % 4 == 3 and c.get("mode") != "mag") else "numpy"
    return out


def shrink(case):
    """smaller candidates: drop a CPD-case parent that has cardinality 1 is not meaning-preserving for the table,
    so only network queries / whole cases are shrunk by the framework; nothing to enumerate here"""
    return []


# ------------------------------------------------------------------ interning
class Names:
    def __init__(self, varnames):
        self.varnames = varnames
        self.vidx = {repr(nm): i for i, nm in enumerate(varnames)}
        self.stab = {}

    def var(self, nm):
        if hasattr(nm, "item") and not hasattr(nm, "detach"):   # numpy scalar (np.str_, np.int64) from an ndarray argument
            nm = nm.item()
        return self.vidx[repr(nm)]

    def st(self, s):
        if hasattr(s, "item") and not hasattr(s, "detach"):
            s = s.item()
        if isinstance(s, int) and not isinstance(s, bool) and 0 <= s < BIG:
            return int(s)
        r = repr(s)
        if r not in self.stab:
            self.stab[r] = BIG + len(self.stab)
        return self.stab[r]


def rb(x):
    """an equal but not identical object: strings / ints / tuples rebuilt at run time (`is` instead of `==` shows)"""
    if isinstance(x, bool):
        return x
    if isinstance(x, str):
        return "".join(list(x)) if len(x) > 1 else x
    if isinstance(x, int):
        return int(str(x))
    if isinstance(x, tuple):
        return tuple(rb(y) for y in x)
    if isinstance(x, list):
        return [rb(y) for y in x]
    return x


def wrap(lst, how, names=None):
    """the same argument as another documented container type (an ndarray of names only when every variable name of
    the object is a string: numpy compares a tuple / int name with a string array elementwise)"""
    import numpy as np
    if how == "tuple":
        return tuple(lst)
    if how == "ndarray" and lst and all(isinstance(x, str) for x in (list(names) if names is not None else lst)):
        return np.array(lst)
    if how == "set":
        return set(lst)
    return list(lst)


def var_names(case, n):
    rng = random.Random(case["nameseed"])
    if case["vstyle"] == "long":     # long strings, ints above 256, tuples: never interned / cached by CPython
        pool = ["var_alpha", "var_alpha10", "node-%d" % 1000, 1000, 257, 70000, ("t", 300), ("t", "uu"), "weather_state",
                "x" * 40, 4096, ("deep", ("er", 1)), "Var_Alpha", "var alpha", 300, "300"]
        rng.shuffle(pool)
        return pool[:n]
    if case["vstyle"] == "tricky":   # substrings of each other, format keywords, falsy names, 0 vs "0"
        pool = ["x1", "x10", "x", "x11", "G", "G2", "x1_0", "variable", "state", "values", "", 0, "0", "x_1", "phi", "None"]
        rng.shuffle(pool)
        return pool[:n]
    return common.node_names(rng, n, case["vstyle"])


def ctor_args(N, v, card, rows, ev, ec, sn_py):
    """model-side constructor arguments; sn_py: dict var index -> list of python state names, or None"""
    sn = [] if not sn_py else [[u, [N.st(s) for s in lst]] for u, lst in sn_py.items()]
    return [v, card, rows, list(ev), list(ec), sn]


def make_impl(N, v, card, rows, ev, ec, sn_py, none_ev=False, cont=None):
    """cont: hand evidence / evidence_card / values / state-name lists over as tuples or ndarrays instead of lists"""
    from pgmpy.factors.discrete import TabularCPD
    import numpy as np
    vn = N.varnames
    vals = [[float(x) for x in r] for r in rows]
    kw = {}
    if sn_py:
        kw["state_names"] = {vn[u]: (tuple(lst) if cont == "tuple" else list(lst)) for u, lst in sn_py.items()}
    if none_ev and not ev:
        return TabularCPD(vn[v], card, vals, **kw)
    evl, ecl = [vn[u] for u in ev], list(ec)
    if cont == "tuple":
        evl, ecl, vals = tuple(evl), tuple(ecl), tuple(tuple(r) for r in vals)
    elif cont == "ndarray":
        evl, ecl = wrap(evl, "ndarray", vn), np.array(ecl, dtype=int)
    return TabularCPD(vn[v], card, vals, evidence=evl, evidence_card=ecl, **kw)


def make_impl_arr(N, v, card, arr, ev, ec, sn_py):
    """like make_impl, but hands the caller's ndarray itself to the constructor"""
    from pgmpy.factors.discrete import TabularCPD
    vn = N.varnames
    kw = {}
    if sn_py:
        kw["state_names"] = {vn[u]: list(lst) for u, lst in sn_py.items()}
    return TabularCPD(vn[v], card, arr, evidence=[vn[u] for u in ev], evidence_card=list(ec), **kw)



# ------------------------------------------------------------------ numerics / backends
def rel_ok(a, b, tol=1e-9):
    """impl float a vs exact value b (Fraction or float): RELATIVE to the exact value; an exact zero must be
    reproduced exactly (sums of non-negative floats)"""
    try:
        a = float(a)
    except Exception:
        return False
    if not math.isfinite(a):
        return False
    if isinstance(b, float):
        if not math.isfinite(b):
            return False
    fb = Fraction(b)
    if fb == 0:
        return a == 0.0
    return abs(Fraction(a) - fb) <= Fraction(tol) * abs(fb)


def to_np(x):
    import numpy as np
    if hasattr(x, "detach"):
        return x.detach().cpu().numpy()
    return np.asarray(x)


def shares(a, b):
    """do two arrays / tensors share memory"""
    import numpy as np
    ta, tb = hasattr(a, "detach"), hasattr(b, "detach")
    if ta and tb:
        if a.numel() == 0 or b.numel() == 0:
            return False
        return a.untyped_storage().data_ptr() == b.untyped_storage().data_ptr()
    if ta or tb:
        a = to_np(a)
        b = to_np(b)
    try:
        return bool(np.shares_memory(np.asarray(a), np.asarray(b)))
    except Exception:
        return False


def is_torch():
    from pgmpy import config
    return config.BACKEND != "numpy"


def q32(x):
    """the float32 value torch.Tensor(list) turns x into, as an exact rational"""
    import numpy as np
    return Fraction(float(np.float32(float(x))))


def case_rows(case, rows_json):
    rows = [[unfr(x) for x in r] for r in rows_json]
    if case.get("backend") == "torch":
        rows = [[q32(x) for x in r] for r in rows]
    return rows


# ------------------------------------------------------------------ canonical forms
def impl_form(N, cpd):
    """observable content of a pgmpy CPD / factor: ordered variables, cardinalities, flat values,
    state names, named-assignment table; checks name_to_no / no_to_name against state_names"""
    import numpy as np
    vs = [N.var(x) for x in cpd.variables]
    cards = [int(c) for c in cpd.cardinality]
    vals = np.asarray(to_np(cpd.values), dtype=float)
    if tuple(vals.shape) != tuple(cards):
        return None, "values shape %r != cardinality %r" % (vals.shape, cards)
    sn = {N.var(k): [N.st(s) for s in lst] for k, lst in cpd.state_names.items()}
    for k, lst in cpd.state_names.items():
        if cpd.name_to_no.get(k) != {s: i for i, s in enumerate(lst)} or \
           cpd.no_to_name.get(k) != {i: s for i, s in enumerate(lst)}:
            return None, "name_to_no / no_to_name inconsistent with state_names for %r" % (k,)
    if set(cpd.name_to_no.keys()) != set(cpd.state_names.keys()):
        return None, "name_to_no keys differ from state_names keys"
    return {"vars": vs, "cards": cards, "flat": [float(x) for x in vals.flatten()], "sn": sn}, None


def named_table(vs, cards, flat, sn):
    """{frozenset((var, state name id)) : value} ; None when some variable has no usable state names"""
    out = {}
    for n, idx in enumerate(itertools.product(*[range(c) for c in cards])):
        key = []
        for v, i in zip(vs, idx):
            if v not in sn or i >= len(sn[v]):
                return None
            key.append((v, sn[v][i]))
        out[frozenset(key)] = flat[n]
    return out


def model_form(m, opt=False):
    ch, cc, ps, pcs, vals, sn, rows = m
    dv = (lambda x: None if x == [] else common.frac(x[0])) if opt else common.frac
    return {"vars": [ch] + ps, "cards": [cc] + pcs, "flat": [dv(x) for x in vals],
            "sn": {k: lst for k, lst in sn}, "rows": [[dv(x) for x in r] for r in rows]}


def close(a, b):
    """impl float vs model Fraction-or-None (None = non-finite)"""
    if b is None:
        return not math.isfinite(a)
    return rel_ok(a, b)


def cmp_forms(what, imp, mod, rows_impl=None):
    if imp["vars"] != mod["vars"] or imp["cards"] != mod["cards"]:
        return bad("impl!=model:%s-scope" % what, {"impl": [imp["vars"], imp["cards"]], "model": [mod["vars"], mod["cards"]]})
    if imp["sn"] != mod["sn"]:
        return bad("impl!=model:%s-state_names" % what, {"impl": sorted(imp["sn"].items()), "model": sorted(mod["sn"].items())})
    if len(imp["flat"]) != len(mod["flat"]) or not all(close(a, b) for a, b in zip(imp["flat"], mod["flat"])):
        return bad("impl!=model:%s-values" % what, {"impl": imp["flat"], "model": [None if x is None else float(x) for x in mod["flat"]]})
    if rows_impl is not None:
        r = [[float(x) for x in row] for row in to_np(rows_impl)]
        m = mod["rows"]
        if len(r) != len(m) or any(len(a) != len(b) for a, b in zip(r, m)) or \
           not all(close(x, y) for a, b in zip(r, m) for x, y in zip(a, b)):
            return bad("impl!=model:%s-get_values" % what, {"impl": r, "model": [[None if x is None else float(x) for x in row] for row in m]})
    return None


def tables_equal(t1, t2):
    if t1 is None or t2 is None or set(t1) != set(t2):
        return False
    for k in t1:
        a, b = t1[k], t2[k]
        if not (math.isfinite(a) and math.isfinite(b)):
            if math.isfinite(a) != math.isfinite(b):
                return False
            continue
        if not rel_ok(a, b):
            return False
    return True


def call_impl(f):
    """run f, mapping the expected exception classes to the model's error codes"""
    try:
        return ("ok", f())
    except (ValueError, KeyError, IndexError, TypeError) as e:
        return ("err", ERR[type(e).__name__ if type(e).__name__ in ERR else
                           [c.__name__ for c in type(e).__mro__ if c.__name__ in ERR][0]])
    except RuntimeError:
        if is_torch():   # torch kernels report shape / axis problems as RuntimeError (numpy: ValueError)
            return ("err", 1)
        raise


def same_outcome(r, st, mr):
    """implementation outcome r = ('ok', x) | ('err', code) vs the model's (st, mr); under torch an index that
    is not an integer is a TypeError where numpy raises IndexError"""
    if r[0] != st:
        return False
    if st == "err" and r[1] != mr:
        return is_torch() and {r[1], mr} == {3, 4}
    return True



# ------------------------------------------------------------------ independence of derived objects
def snapshot(N, obj):
    """complete observable content of a CPD / factor (None, reason when it is internally inconsistent)"""
    f, e = impl_form(N, obj)
    if e:
        return None, e
    f["table"] = named_table(f["vars"], f["cards"], f["flat"], f["sn"])
    if f["table"] is None:
        return None, "state names do not cover the cardinalities"
    f["class"] = type(obj).__name__
    if hasattr(obj, "variable"):
        f["variable"] = [repr(obj.variable), int(obj.variable_card)]
    return f, None


def snap_equal(a, b):
    if a is None or b is None:
        return False
    for k in ("vars", "cards", "sn", "class"):
        if a[k] != b[k]:
            return False
    if a.get("variable") != b.get("variable"):
        return False
    if len(a["flat"]) != len(b["flat"]):
        return False
    for x, y in zip(a["flat"], b["flat"]):
        if (x != y) and not (x != x and y != y):
            return False
    return tables_equal(a["table"], b["table"])


def by_name_probe(N, obj, snap):
    """use the object's own name machinery: out-of-place reduce of the first non-child variable by state NAME
    must be the (column-normalised for a CPD) slice of its table; get_value by name for every cell when the
    variable names are identifiers.  Returns None or a reason."""
    import numpy as np
    vs = list(obj.variables)
    is_cpd = type(obj).__name__ == "TabularCPD"
    if len(vs) >= 2:
        for pos in sorted({1, len(vs) - 1}):
            var = vs[pos]
            u = N.var(var)
            for si, sname in enumerate(list(obj.state_names[var])):
                try:
                    r = obj.reduce([(var, sname)], inplace=False, show_warnings=False)
                except Exception as e:  # any failure of a by-name reduce on an intact object is a defect
                    return "by-name reduce raised %s: %s" % (type(e).__name__, str(e)[:80])
                rs, e = snapshot(N, r)
                if e:
                    return "by-name reduce result inconsistent: " + e
                fixed = (u, snap["sn"][u][si])
                sl = {frozenset(p for p in key if p[0] != u): val for key, val in snap["table"].items() if fixed in key}
                if is_cpd:
                    ch = snap["vars"][0]
                    dens = {}
                    for k2, v2 in sl.items():
                        pk = frozenset(p for p in k2 if p[0] != ch)
                        dens[pk] = dens.get(pk, 0.0) + v2
                    exp = {}
                    for k2, v2 in sl.items():
                        d = dens[frozenset(p for p in k2 if p[0] != ch)]
                        exp[k2] = (v2 / d) if d != 0 else float("nan")
                else:
                    exp = sl
                if set(exp) != set(rs["table"]):
                    return "by-name reduce: wrong scope/state names"
                for k2, v2 in exp.items():
                    g = rs["table"][k2]
                    if math.isfinite(v2) and not rel_ok(g, v2, 1e-8):
                        return "by-name reduce of %r=%r reads a wrong cell: got %r expected %r" % (var, sname, g, v2)
    if all(isinstance(x, str) and x.isidentifier() for x in vs):
        for idx in itertools.product(*[range(int(c)) for c in obj.cardinality]):
            kw = {v: obj.state_names[v][i] for v, i in zip(vs, idx)}
            try:
                g = float(obj.get_value(**kw))
            except Exception as e:
                return "get_value by name raised %s" % type(e).__name__
            ex = float(to_np(obj.values)[idx])
            if (g != ex) and not (g != g and ex != ex):
                return "get_value by name reads a wrong cell at %r" % (kw,)
    return None


def sharing(a, b):
    """top-level mutable parts of two objects that are the same Python object / share memory"""
    import numpy as np
    out = []
    for attr in ("variables", "cardinality", "values", "state_names", "name_to_no", "no_to_name"):
        x, y = getattr(a, attr, None), getattr(b, attr, None)
        if x is None or y is None:
            continue
        if x is y:
            out.append(attr)
        elif attr in ("values", "cardinality"):
            try:
                if shares(x, y):
                    out.append(attr + "(memory)")
            except Exception:
                pass
    return out


def inplace_ops(obj, rng):
    """[(label, thunk)] of in-place operations through the public API; each is tried on a fresh pair"""
    vs = list(obj.variables)
    ops = []
    is_cpd = type(obj).__name__ == "TabularCPD"
    parents = vs[1:]
    targets = [parents[0], parents[-1]] if len(parents) >= 2 else parents[:1]
    for var in targets:
        names = list(obj.state_names[var])
        sname = names[rng.randrange(len(names))]
        ops.append(("reduce[%d]" % vs.index(var), lambda o, var=var, sname=sname: o.reduce([(var, sname)], inplace=True, show_warnings=False)))
        ops.append(("marginalize[%d]" % vs.index(var), lambda o, var=var: o.marginalize([var], inplace=True)))
        ops.append(("maximize[%d]" % vs.index(var), lambda o, var=var: o.maximize([var], inplace=True)))
        ops.append(("del_state_names[%d]" % vs.index(var), lambda o, var=var: o.del_state_names([var])))
        ops.append(("name-table-edit[%d]" % vs.index(var), lambda o, var=var: (o.name_to_no[var].clear(), o.no_to_name[var].clear(), o.state_names[var].reverse())
                    if False else (o.name_to_no.__setitem__(var, {}), o.no_to_name.__setitem__(var, {}), o.state_names.__setitem__(var, ["q%d" % i for i in range(len(names))]))))
    ops.append(("normalize", lambda o: o.normalize(inplace=True)))
    ops.append(("values-edit", lambda o: o.values.__iadd__(1.0)))
    ops.append(("scope-edit", lambda o: (o.variables.reverse(), o.cardinality.__setitem__(0, 9))))
    if all(isinstance(x, str) and x.isidentifier() for x in vs):
        kw = {v: obj.state_names[v][0] for v in vs}
        ops.append(("set_value", lambda o: o.set_value(0.125, **kw)))
    if is_cpd and len(parents) >= 2:
        ops.append(("reorder_parents", lambda o: o.reorder_parents(list(reversed(parents)), inplace=True)))
    return ops


def derive_kinds(k, pc, esn, vn, rng):
    """[(label, function original -> derived object)] for every out-of-place result the property lists"""
    kinds = [("copy", lambda c: c.copy()), ("to_factor", lambda c: c.to_factor()),
             ("normalize(inplace=False)", lambda c: c.normalize(inplace=False)),
             ("marginalize([],inplace=False)", lambda c: c.marginalize([], inplace=False))]
    if k >= 2:
        u = rng.randrange(1, k + 1)
        s = esn[u][rng.randrange(pc[u - 1])]
        kinds.append(("marginalize(inplace=False)", lambda c, u=u: c.marginalize([vn[u]], inplace=False)))
        kinds.append(("reduce(inplace=False)", lambda c, u=u, s=s: c.reduce([(vn[u], s)], inplace=False, show_warnings=False)))
    return kinds


def run_independence(N, fresh, k, pc, esn, vn, rng, tags):
    """mutate a derived object in place -> the original must be completely unchanged (and still work by name),
    and the other way round"""
    base = fresh()
    s0, e = snapshot(N, base)
    if e:
        return bad("impl-inconsistent:fresh", e)
    r = by_name_probe(N, base, s0)
    if r:
        return bad("impl!=spec:by-name-access", {"object": "fresh CPD", "reason": r})
    for dlabel, derive in derive_kinds(k, pc, esn, vn, rng):
        proto = derive(fresh())
        for direction in ("derived-mutated", "original-mutated"):
            nops = len(inplace_ops(proto if direction == "derived-mutated" else base, random.Random(1)))
            for oi in range(nops):
                orig = fresh()
                der = derive(orig)
                sh = sharing(orig, der)
                if sh:
                    return bad("impl!=spec:derived-object-shares-state", {"derived": dlabel, "shared": sh})
                so, e1 = snapshot(N, orig)
                sd, e2 = snapshot(N, der)
                if e1 or e2:
                    return bad("impl-inconsistent:derived", {"derived": dlabel, "orig": e1, "der": e2})
                if not snap_equal(so, s0):
                    return bad("impl!=spec:out-of-place-mutates-original", {"derived": dlabel})
                mut, keep, skeep = (der, orig, so) if direction == "derived-mutated" else (orig, der, sd)
                label, op = inplace_ops(mut, random.Random(rng.random()))[oi]
                try:
                    op(mut)
                except (ValueError, KeyError, IndexError, TypeError):
                    pass  # the mutated object may refuse; the other one must be intact either way
                sk, e = snapshot(N, keep)
                if e or not snap_equal(sk, skeep):
                    return bad("impl!=spec:not-independent",
                               {"derived": dlabel, "direction": direction, "op": label, "reason": e or "content changed",
                                "state_names": str(skeep["sn"])[:200]})
                r = by_name_probe(N, keep, skeep)
                if r:
                    return bad("impl!=spec:not-independent",
                               {"derived": dlabel, "direction": direction, "op": label, "reason": r,
                                "state_names": str(skeep["sn"])[:200]})
                if type(keep).__name__ == "TabularCPD" and direction == "derived-mutated":
                    try:
                        keep.is_valid_cpd()
                        if k >= 1:
                            keep.copy().marginalize([keep.variables[1]])
                    except Exception as ex:
                        return bad("impl!=spec:not-independent", {"derived": dlabel, "direction": direction, "op": label,
                                                                   "reason": "original broken: %s" % type(ex).__name__})
        tags.append("independence:" + dlabel)
    return None



# ------------------------------------------------------------------ exported table with labels, get_random
def check_to_csv(N, cpd, k, ev, pc, ccard, esn, T0):
    """to_csv: header row i = evidence variable i and, per column, its state in the row-major configuration of the
    column; data row = child state label and the column entries"""
    import csv
    import os
    vn = N.varnames
    path = "/var/tmp/c05_csv_%d.csv" % os.getpid()
    try:
        cpd.to_csv(path)
        with open(path, newline="") as fh:
            got = list(csv.reader(fh))
    finally:
        if os.path.exists(path):
            os.remove(path)
    cfgs = list(itertools.product(*[range(c) for c in pc]))
    if len(got) != k + ccard:
        return "row count %d, expected %d" % (len(got), k + ccard)
    for t, u in enumerate(ev):
        exp = [str(vn[u])] + ["{var}({state})".format(var=vn[u], state=esn[u][cfg[t]]) for cfg in cfgs]
        if got[t] != exp:
            return "header row %d is %r, expected %r" % (t, got[t][:6], exp[:6])
    for i in range(ccard):
        row = got[k + i]
        if row[0] != "{var}({state})".format(var=vn[0], state=esn[0][i]) or len(row) != 1 + len(cfgs):
            return "data row %d label/length: %r" % (i, row[:3])
        for j, cfg in enumerate(cfgs):
            key = frozenset([(0, N.st(esn[0][i]))] + [(u, N.st(esn[u][cfg[t]])) for t, u in enumerate(ev)])
            try:
                val = float(row[1 + j])
            except ValueError:
                return "data cell %r is not a number" % (row[1 + j],)
            if not rel_ok(val, T0[key], 1e-6):
                return "data cell (%d,%d) = %r, expected %r" % (i, j, val, T0[key])
    return None


def check_get_random(N, drv, k, ev, pc, ccard, snd, seed):
    from pgmpy.factors.discrete import TabularCPD
    import numpy as np
    vn = N.varnames
    cardd = {vn[0]: ccard}
    cardd.update({vn[u]: c for u, c in zip(ev, pc)})
    snap = dict(cardd)
    sn_py = {vn[u]: list(l) for u, l in snd.items()} if snd else {}
    evl = [vn[u] for u in ev]
    c1 = TabularCPD.get_random(vn[0], evidence=evl, cardinality=cardd, state_names=sn_py, seed=seed)
    c2 = TabularCPD.get_random(vn[0], evidence=evl, cardinality=cardd, state_names=sn_py, seed=seed)
    c3 = TabularCPD.get_random(vn[0], evidence=evl, cardinality=cardd, state_names=sn_py, seed=seed + 1)
    if cardd != snap or evl != [vn[u] for u in ev]:
        return "get_random changed its arguments"
    v1, v2, v3 = (np.asarray(to_np(c.get_values()), dtype=float) for c in (c1, c2, c3))
    if not np.array_equal(v1, v2):
        return "get_random: same seed, different tables"
    if ccard > 1 and np.array_equal(v1, v3):
        return "get_random: different seeds, same table"
    if (v1 < 0).any() or not bool(c1.is_valid_cpd()) or not np.allclose(v1.sum(axis=0), 1.0, atol=1e-6):
        return "get_random: not a normalised non-negative table"
    rows = [[Fraction(float(x)) for x in r] for r in v1]
    m, mvalid = drv.call("c05_ctor", [ctor_args(N, 0, ccard, rows, ev, pc, snd)])
    f, e = impl_form(N, c1)
    if e:
        return "get_random: " + e
    b = cmp_forms("get_random", f, model_form(m), c1.get_values())
    if b:
        return "get_random: scope / cardinalities / state names / layout differ from the constructor's: %s" % b["kind"]
    d = TabularCPD.get_random(vn[0], evidence=evl, cardinality=None)
    if [int(x) for x in d.cardinality] != [2] * (k + 1) or not bool(d.is_valid_cpd()):
        return "get_random(cardinality=None): cardinalities %r" % ([int(x) for x in d.cardinality],)
    if k >= 1:
        r = call_impl(lambda: TabularCPD.get_random(vn[0], evidence=evl, cardinality={vn[0]: ccard}))
        if r != ("err", 1):
            return "get_random accepts a cardinality dict without the parents"
    return None


# ------------------------------------------------------------------ CPD cases
def sn_dict(case, k):
    if case["sn"] is None:
        return None
    return {v: case["sn"][v] for v in range(k + 1)}


def eff_sn(case, k):
    """python state names in effect (default = range(card))"""
    cards = [case["ccard"]] + case["pc"]
    if case["sn"] is None:
        return {v: list(range(cards[v])) for v in range(k + 1)}
    return {v: list(case["sn"][v]) for v in range(k + 1)}


def run_cpd(case, drv):
    import numpy as np
    k = case["k"]
    N = Names(var_names(case, k + 1))
    vn = N.varnames
    rows = case_rows(case, case["rows"])
    pc = case["pc"]
    snd = sn_dict(case, k)
    ev = list(range(1, k + 1))
    args = ctor_args(N, 0, case["ccard"], rows, ev, pc, snd)
    rng = random.Random(case["qseed"])
    tags = ["parents=%d" % k, "names=" + case["style"], "table=" + case["mode"], "varnames=" + case["vstyle"],
            "unequal-parent-cards" if len(set(pc)) == len(pc) and k >= 2 else "some-equal-parent-cards"]

    def fresh():
        return make_impl(N, 0, case["ccard"], rows, ev, pc, snd, none_ev=(case["qseed"] % 2 == 0))

    # --- constructor, get_values, is_valid_cpd, column meaning
    cpd = fresh()
    m, mvalid = drv.call("c05_ctor", [args])
    mod0 = model_form(m)
    imp0, e = impl_form(N, cpd)
    if e:
        return bad("impl-inconsistent:ctor", e)
    b = cmp_forms("ctor", imp0, mod0, cpd.get_values())
    if b:
        return b
    T0 = named_table(imp0["vars"], imp0["cards"], imp0["flat"], imp0["sn"])
    esn = eff_sn(case, k)
    # the property itself: column j <-> j-th row-major configuration of the declared evidence list
    for j, cfg in enumerate(itertools.product(*[range(c) for c in pc])):
        for i in range(case["ccard"]):
            key = frozenset([(0, N.st(esn[0][i]))] + [(u, N.st(esn[u][cfg[t]])) for t, u in enumerate(ev)])
            if not rel_ok(T0[key], rows[i][j]):
                return bad("impl!=spec:column-meaning", {"i": i, "j": j, "config": cfg, "impl": T0[key], "expected": float(rows[i][j])})
    iv = bool(cpd.is_valid_cpd())
    if iv != bool(mvalid):
        return bad("impl!=model:is_valid_cpd", {"impl": iv, "model": bool(mvalid), "rows": case["rows"]})
    tags.append("valid" if iv else "invalid")
    r_ = check_to_csv(N, cpd, k, ev, pc, case["ccard"], esn, T0)
    if r_:
        return bad("impl!=spec:to_csv", {"reason": r_})
    if case["qseed"] % 3 == 0:
        r_ = check_get_random(N, drv, k, ev, pc, case["ccard"], snd, case["qseed"] % 1000)
        if r_:
            return bad("impl!=spec:get_random", {"reason": r_})
        tags.append("get_random")
    if [N.var(x) for x in cpd.get_evidence()] != list(reversed(ev)):
        return bad("impl!=spec:get_evidence", {"impl": [N.var(x) for x in cpd.get_evidence()]})

    # --- reorder_parents: every permutation, both modes
    perms = list(itertools.permutations(ev))
    for perm in perms:
        for inplace in (True, False):
            c2 = fresh()
            r = call_impl(lambda: c2.reorder_parents(rb([vn[u] for u in perm]), inplace=inplace))
            st, mr = drv.call_e("c05_reorder", [args, list(perm), inplace])
            if not same_outcome(r, st, mr):
                return bad("impl!=model:reorder-outcome", {"perm": perm, "inplace": inplace, "impl": r[0:1] + ((r[1],) if r[0] == "err" else ()), "model": [st, mr if st == "err" else None]})
            if st == "err":
                tags.append("reorder-err")
                continue
            mc, mrows = mr
            modc = model_form(mc)
            impc, e = impl_form(N, c2)
            if e:
                return bad("impl-inconsistent:reorder", e)
            b = cmp_forms("reorder(inplace=%s)" % inplace, impc, modc, c2.get_values())
            if b:
                b["detail"]["perm"] = list(perm)
                return b
            ret = [[float(x) for x in row] for row in to_np(r[1])]
            mret = [[common.frac(x) for x in row] for row in mrows]
            if len(ret) != len(mret) or any(len(a) != len(bb) for a, bb in zip(ret, mret)) or \
               not all(rel_ok(x, y) for a, bb in zip(ret, mret) for x, y in zip(a, bb)):
                return bad("impl!=model:reorder-returned-array", {"perm": perm, "inplace": inplace, "impl": ret, "model": [[float(x) for x in row] for row in mret]})
            # the property itself
            T2 = named_table(impc["vars"], impc["cards"], impc["flat"], impc["sn"])
            if not tables_equal(T0, T2):
                return bad("impl!=spec:reorder-changes-P", {"perm": perm, "inplace": inplace})
            if impc["sn"] != imp0["sn"]:
                return bad("impl!=spec:reorder-changes-state-names", {"perm": perm, "inplace": inplace, "before": sorted(imp0["sn"].items()), "after": sorted(impc["sn"].items())})
            if inplace and impc["vars"] != [0] + list(perm):
                return bad("impl!=spec:reorder-order", {"perm": perm, "vars": impc["vars"]})
            # the returned table read with the new order has the same P
            newc = [pc[u - 1] for u in perm]
            flat = [x for row in ret for x in row]
            T3 = named_table([0] + list(perm), [case["ccard"]] + newc, flat, imp0["sn"])
            if not tables_equal(T0, T3):
                return bad("impl!=spec:reorder-returned-array-P", {"perm": perm, "inplace": inplace})
    tags.append("perms=%d" % len(perms))

    # --- marginalize / reduce on every subset of parents
    for r_ in range(0, k + 1):
        for X in itertools.combinations(ev, r_):
            X = list(X)
            rng.shuffle(X)
            for inplace in (True, False):
                c2 = fresh()
                r = call_impl(lambda: c2.marginalize(wrap(rb([vn[u] for u in X]), ["list", "tuple", "ndarray", "set"][len(X) % 4], vn), inplace=inplace))
                st, mr = drv.call_e("c05_marginalize", [args, X])
                if not same_outcome(r, st, mr):
                    return bad("impl!=model:marginalize-outcome", {"X": X, "impl": r[0], "model": [st, mr if st == "err" else None]})
                if st == "err":
                    continue
                obj = c2 if inplace else r[1]
                modc = model_form(mr, opt=True)
                impc, e = impl_form(N, obj)
                if e:
                    return bad("impl-inconsistent:marginalize", e)
                b = cmp_forms("marginalize", impc, modc, obj.get_values())
                if b:
                    b["detail"]["X"] = X
                    return b
                if not inplace:
                    impo, e = impl_form(N, c2)
                    if e or cmp_forms("x", impo, mod0):
                        return bad("impl!=spec:marginalize-out-of-place-mutates", {"X": X})
                # the property itself: normalised sum
                keep = [u for u in [0] + ev if u not in X]
                acc = {}
                for key, val in T0.items():
                    kk = frozenset(p for p in key if p[0] in keep)
                    acc[kk] = acc.get(kk, 0.0) + val
                T2 = named_table(impc["vars"], impc["cards"], impc["flat"], impc["sn"])
                dens = {}
                for k2, v2 in acc.items():
                    pk = frozenset(p for p in k2 if p[0] != 0)
                    dens[pk] = dens.get(pk, 0.0) + v2
                for kk, val in acc.items():
                    den = dens[frozenset(p for p in kk if p[0] != 0)]
                    if den != 0 and not rel_ok(T2[kk], val / den, 1e-8):
                        return bad("impl!=spec:marginalize-not-normalised-sum", {"X": X, "impl": T2[kk], "expected": val / den})
            # reduce by state name
            for rep in range(2):
                states = [rng.randrange(pc[u - 1]) for u in X]
                vals_py = rb([(vn[u], esn[u][s]) for u, s in zip(X, states)])
                if rep:
                    vals_py = tuple(vals_py)
                vals_m = [[u, N.st(esn[u][s])] for u, s in zip(X, states)]
                inplace = bool(rep)
                c2 = fresh()
                r = call_impl(lambda: c2.reduce(vals_py, inplace=inplace, show_warnings=False))
                st, mr = drv.call_e("c05_reduce", [args, vals_m])
                if not same_outcome(r, st, mr):
                    return bad("impl!=model:reduce-outcome", {"values": vals_m, "impl": r[0], "model": [st, mr if st == "err" else None]})
                if st == "err":
                    continue
                obj = c2 if inplace else r[1]
                modc = model_form(mr, opt=True)
                impc, e = impl_form(N, obj)
                if e:
                    return bad("impl-inconsistent:reduce", e)
                b = cmp_forms("reduce", impc, modc, obj.get_values())
                if b:
                    b["detail"]["values"] = vals_m
                    return b
                fixed = {(u, N.st(esn[u][s])) for u, s in zip(X, states)}
                T2 = named_table(impc["vars"], impc["cards"], impc["flat"], impc["sn"])
                sl = {frozenset(p for p in key if p[0] not in X): val for key, val in T0.items() if fixed <= key}
                dens = {}
                for k2, v2 in sl.items():
                    pk = frozenset(p for p in k2 if p[0] != 0)
                    dens[pk] = dens.get(pk, 0.0) + v2
                for kk, val in sl.items():
                    den = dens[frozenset(p for p in kk if p[0] != 0)]
                    if den != 0 and not rel_ok(T2[kk], val / den, 1e-8):
                        return bad("impl!=spec:reduce-not-normalised-slice", {"values": vals_m, "impl": T2[kk], "expected": val / den})
    tags.append("subsets=%d" % (2 ** k))

    # --- normalize (both modes), copy (+ mutate the copy), to_factor
    for inplace in (True, False):
        c2 = fresh()
        r = c2.normalize(inplace=inplace)
        obj = c2 if inplace else r
        mr = drv.call("c05_normalize", [args])
        impc, e = impl_form(N, obj)
        if e:
            return bad("impl-inconsistent:normalize", e)
        b = cmp_forms("normalize", impc, model_form(mr, opt=True), obj.get_values())
        if b:
            return b
        nv = bool(drv.call("c05_normvalid", [args]))
        if bool(obj.is_valid_cpd()) != nv:
            return bad("impl!=model:is_valid_cpd-after-normalize", {"impl": bool(obj.is_valid_cpd()), "model": nv,
                                                                     "nonfinite": any(x is None for x in model_form(mr, opt=True)["flat"])})
        gv = np.asarray(to_np(obj.get_values()), dtype=float)
        for j in range(gv.shape[1]):
            s0 = sum(rows[i][j] for i in range(case["ccard"]))
            if s0 != 0 and not rel_ok(float(gv[:, j].sum()), 1.0):
                return bad("impl!=spec:normalize-column-sum", {"j": j, "sum": float(gv[:, j].sum())})
            if s0 == 0 and np.isfinite(gv[:, j]).any():
                return bad("impl!=spec:normalize-zero-column-finite", {"j": j})
            if s0 == 0:
                tags.append("zero-column->nan")
    c2 = fresh()
    cp = c2.copy()
    st, mr = drv.call_e("c05_copy", [args])
    if st != "ok":
        return bad("impl!=model:copy-outcome", {"model": [st, mr]})
    impc, e = impl_form(N, cp)
    if e:
        return bad("impl-inconsistent:copy", e)
    b = cmp_forms("copy", impc, model_form(mr), cp.get_values())
    if b:
        return b
    if cp.variable != c2.variable or cp.variable_card != c2.variable_card:
        return bad("impl!=spec:copy-variable", {})
    cp.values += 1.0
    cp.state_names[vn[0]] = ["mut"] * case["ccard"]
    cp.variables.append("zzz")
    cp.cardinality[0] = 77
    impo, e = impl_form(N, c2)
    if e or cmp_forms("copy-independence", impo, mod0):
        return bad("impl!=spec:copy-not-independent", {"err": e})
    c2 = fresh()
    f = c2.to_factor()
    mv, mcards, mvals, msn = drv.call("c05_tofactor", [args])
    impf, e = impl_form(N, f)
    if e:
        return bad("impl-inconsistent:to_factor", e)
    modf = {"vars": mv, "cards": mcards, "flat": [common.frac(x) for x in mvals], "sn": {k_: l for k_, l in msn}}
    b = cmp_forms("to_factor", impf, modf)
    if b:
        return b
    if type(f).__name__ != "DiscreteFactor":
        return bad("impl!=spec:to_factor-type", type(f).__name__)
    f.values += 1.0
    impo, e = impl_form(N, c2)
    if e or cmp_forms("to_factor-independence", impo, mod0):
        return bad("impl!=spec:to_factor-shares-values", {})

    # --- independence of every derived object (both directions, every in-place operation)
    if case.get("indep", True):
        b = run_independence(N, fresh, k, pc, esn, vn, rng, tags)
        if b:
            return b

    # --- get_value by keyword (string variable names only)
    if all(isinstance(x, str) and x.isidentifier() for x in vn):
        cards = [case["ccard"]] + pc
        for _ in range(4):
            idx = [rng.randrange(c) for c in cards]
            q_py = {vn[v]: esn[v][i] for v, i in enumerate(idx)}
            q_m = [[v, N.st(esn[v][i])] for v, i in enumerate(idx)]
            got = float(cpd.get_value(**q_py))
            exp = common.frac(drv.call("c05_getvalue", [args, q_m]))
            if not rel_ok(got, exp):
                return bad("impl!=model:get_value", {"query": q_m, "impl": got, "model": float(exp)})
    nontriv = (k >= 2 and len(set(pc)) > 1) or case["style"] != "default"
    return ok(nontrivial=nontriv, key=common.canon_key(["cpd", case["ccard"], pc, case["rows"], case["sn"], case["vstyle"]]), tags=tags)


def run_valid(case, drv):
    k = case["k"]
    N = Names(var_names(case, k + 1))
    rows = case_rows(case, case["rows"])
    ev = list(range(1, k + 1))
    args = ctor_args(N, 0, case["ccard"], rows, ev, case["pc"], None)
    cpd = make_impl(N, 0, case["ccard"], rows, ev, case["pc"], None)
    m, mvalid = drv.call("c05_ctor", [args])
    iv = bool(cpd.is_valid_cpd())
    inout, side, margin = case["bound"]
    sums = [sum(rows[i][j] for i in range(case["ccard"])) for j in range(len(rows[0]))]
    spec = all(abs(s - 1) <= TOL for s in sums)
    if iv != bool(mvalid) or iv != spec:
        return bad("impl!=model:is_valid_cpd-boundary", {"impl": iv, "model": bool(mvalid), "spec": spec, "sums": [float(s) for s in sums], "bound": case["bound"]})
    if spec != (inout == "in"):
        return bad("harness-inconsistent:boundary", {"bound": case["bound"]})
    return ok(nontrivial=True, key=common.canon_key(["valid", case["rows"], case["pc"]]),
              tags=["boundary=%s side=%+d margin=%s" % (inout, side, margin), "verdict=%s" % iv])



def orows(rows, nf):
    """model-side table: [x] for a finite entry, [] for a non-finite one"""
    bad_ = {(i, j) for i, j, _ in nf}
    return [[[] if (i, j) in bad_ else [x] for j, x in enumerate(r)] for i, r in enumerate(rows)]


def frows(rows, nf):
    """implementation-side table: floats with the non-finite entries put in"""
    out = [[float(x) for x in r] for r in rows]
    for i, j, what in nf:
        out[i][j] = NONFINITE[what]
    return out


def make_impl_f(N, v, card, frows_, ev, ec, sn_py):
    from pgmpy.factors.discrete import TabularCPD
    vn = N.varnames
    kw = {}
    if sn_py:
        kw["state_names"] = {vn[u]: list(lst) for u, lst in sn_py.items()}
    return TabularCPD(vn[v], card, frows_, evidence=[vn[u] for u in ev], evidence_card=list(ec), **kw)


def run_validx(case, drv):
    k = case["k"]
    N = Names(var_names(case, k + 1))
    rows = case_rows(case, case["rows"])
    ev = list(range(1, k + 1))
    pc = case["pc"]
    what = case["special"]
    cpd = make_impl_f(N, 0, case["ccard"], frows(rows, case["nf"]), ev, pc, None)
    if case["normalize"]:
        cpd.normalize(inplace=True)
        mvalid = drv.call("c05_normvalid", [ctor_args(N, 0, case["ccard"], rows, ev, pc, None)])
    else:
        _, mvalid = drv.call("c05_ovalid", [[0, case["ccard"], orows(rows, case["nf"]), ev, list(pc), []]])
    iv = bool(cpd.is_valid_cpd())
    tiny_margin = what.startswith("tol")
    exp = case["expect"]
    if tiny_margin and case.get("backend") == "torch":
        exp = None      # float32 rounding of the inputs is larger than the 1e-9 margin: model and code still agree
    if iv != bool(mvalid) or (exp is not None and iv != exp):
        return bad("impl!=model:is_valid_cpd-special", {"what": what, "impl": iv, "model": bool(mvalid), "expected": exp,
                                                         "table": str(frows(rows, case["nf"]))[:300]})
    return ok(nontrivial=True, key=common.canon_key(["validx", case["rows"], case["pc"], what, case["nf"]]),
              tags=["special=" + what, "verdict=%s" % iv])


# ------------------------------------------------------------------ malformed stream
def run_malformed(case, drv):
    k = case["k"]
    N = Names(var_names(case, k + 2))
    vn = N.varnames
    rows = case_rows(case, case["rows"])
    pc = case["pc"]
    snd = sn_dict(case, k)
    ev = list(range(1, k + 1))
    args = ctor_args(N, 0, case["ccard"], rows, ev, pc, snd)
    rng = random.Random(case["qseed"])
    esn = eff_sn(case, k)
    tags = []
    extra = k + 1  # a variable that is not in the CPD

    def fresh():
        return make_impl(N, 0, case["ccard"], rows, ev, pc, snd)

    def same(r, st, mr, what, info):
        if not same_outcome(r, st, mr):
            return bad("impl!=model:%s-outcome" % what, {"info": info, "impl": [r[0], r[1] if r[0] == "err" else None], "model": [st, mr if st == "err" else None]})
        tags.append("%s:%s" % (what, "ok" if st == "ok" else "err%d" % mr))
        return None

    # reorder_parents with malformed orders
    orders = []
    if k >= 1:
        orders.append(ev[:-1])
        orders.append(ev + [extra])
        orders.append([0] + ev)
        orders.append(ev + [ev[0]])
        orders.append(list(reversed(ev)) + [0])
        orders.append(ev)
    orders.append([])
    for o in orders:
        for inplace in (True, False):
            c2 = fresh()
            r = call_impl(lambda: c2.reorder_parents([vn[u] for u in o], inplace=inplace))
            st, mr = drv.call_e("c05_reorder", [args, o, inplace])
            b = same(r, st, mr, "reorder", o)
            if b:
                return b
            if st == "ok":
                impc, e = impl_form(N, c2)
                if e:
                    return bad("impl-inconsistent:reorder", e)
                b = cmp_forms("reorder-same-order", impc, model_form(mr[0]), c2.get_values())
                if b:
                    return b
    # marginalize: child, unknown variable, duplicates
    margs = [[0], [extra]]
    if k >= 1:
        margs += [[ev[0], ev[0]], [ev[0], 0]]
    for X in margs:
        c2 = fresh()
        r = call_impl(lambda: c2.marginalize([vn[u] for u in X], inplace=False))
        st, mr = drv.call_e("c05_marginalize", [args, X])
        b = same(r, st, mr, "marginalize", X)
        if b:
            return b
    # reduce: child, unknown variable, duplicates, unknown state name (falls back to numbers)
    reds = [[(0, esn[0][0])], [(extra, 0)]]
    if k >= 1:
        u = ev[0]
        reds.append([(u, esn[u][0]), (u, esn[u][0])])
        reds.append([(u, "nosuchstate")])
        nb = lambda t: not any(isinstance(x, bool) for x in esn[t])   # 1 == True: numbers are not probed on bool names
        if nb(u):
            reds.append([(u, 1)])           # a number: name first, else state number
            reds.append([(u, 7)])
        if k >= 2 and nb(u) and nb(ev[1]):
            w = ev[1]
            reds.append([(u, esn[u][-1]), (w, 0)])
            reds.append([(u, 0), (w, pc[1] - 1)])
    for vals in reds:
        c2 = fresh()
        vals_py = [(vn[u_], s) for u_, s in vals]
        vals_m = [[u_, N.st(s)] for u_, s in vals]
        r = call_impl(lambda: c2.reduce(vals_py, inplace=False, show_warnings=False))
        st, mr = drv.call_e("c05_reduce", [args, vals_m])
        b = same(r, st, mr, "reduce", vals_m)
        if b:
            return b
        if st == "ok":
            impc, e = impl_form(N, r[1])
            if e:
                return bad("impl-inconsistent:reduce", e)
            b = cmp_forms("reduce-fallback", impc, model_form(mr, opt=True), r[1].get_values())
            if b:
                b["detail"]["values"] = vals_m
                return b
    # constructor: wrong shapes, duplicate variables, duplicate state names, evidence_card length
    ctors = []
    ctors.append((0, case["ccard"] + 1, rows, ev, pc, snd))
    if k >= 1:
        ctors.append((0, case["ccard"], rows, ev, pc[:-1], snd))
        ctors.append((0, case["ccard"], rows, ev[:-1] + [0], pc, None))
        ctors.append((0, case["ccard"], [r_[:-1] for r_ in rows] if len(rows[0]) > 1 else [r_ + [Fraction(0)] for r_ in rows], ev, pc, snd))
        if len(set(pc)) > 1:
            ctors.append((0, case["ccard"], rows, ev, list(reversed(pc)), None))
    if case["ccard"] >= 2:
        d = {v: list(l) for v, l in esn.items()}
        d[0] = [d[0][0]] * case["ccard"]
        ctors.append((0, case["ccard"], rows, ev, pc, d))
    for (v, card, rws, e_, ec, sn_) in ctors:
        r = call_impl(lambda: make_impl(N, v, card, rws, e_, ec, sn_))
        st, mr = drv.call_e("c05_ctor", [ctor_args(N, v, card, rws, e_, ec, sn_)])
        b = same(r, st, mr, "ctor", [card, e_, ec])
        if b:
            return b
        if st == "ok":
            impc, e = impl_form(N, r[1])
            if e:
                return bad("impl-inconsistent:ctor", e)
            b = cmp_forms("ctor", impc, model_form(mr[0]), r[1].get_values())
            if b:
                return b
    return ok(nontrivial=True, key=common.canon_key(["mal", case["ccard"], pc, case["rows"], case["sn"]]), tags=sorted(set(tags)))


# ------------------------------------------------------------------ Bayesian networks
def classify(msg):
    for sub, code in CM_MSG:
        if sub in msg:
            return code
    return None


def run_bn(case, drv):
    from pgmpy.models import BayesianNetwork
    n = case["n"]
    N = Names(var_names(case, n + 1))
    vn = N.varnames
    cards = case["cards"]
    sn = case["sn"]
    model = BayesianNetwork()
    for v in case["nodes"]:
        model.add_node(vn[v])
    model.add_edges_from([(vn[u], vn[v]) for u, v in case["edges"]])
    margs = []
    objs = []
    for d in case["cpds"]:
        scope = [d["v"]] + d["pa"]
        if sn is None and not d["sn_over"] and d["sn_keys"] is None:
            snd = None
        else:
            snd = {}
            for u in scope:
                if str(u) in d["sn_over"]:
                    snd[u] = d["sn_over"][str(u)]
                elif sn is not None:
                    snd[u] = sn[u]
                else:
                    snd[u] = list(range(cards[u] if u == d["v"] else d["pc"][d["pa"].index(u)]))
            if d["sn_keys"] is not None:
                snd = {u: snd[u] for u in d["sn_keys"]}
        rows = case_rows(case, d["rows"])
        nf = d.get("nf", [])
        a_ = ctor_args(N, d["v"], d["card"], rows, d["pa"], d["pc"], snd)
        obj = make_impl_f(N, d["v"], d["card"], frows(rows, nf), d["pa"], d["pc"], snd)
        if d.get("normalize"):
            obj.normalize(inplace=True)
            mo = drv.call("c05_normalize", [a_])      # [child card pars pcards vals sn rows], entries [] or [q]
            a_ = a_[:2] + [mo[6]] + a_[3:]
        else:
            a_ = a_[:2] + [orows(rows, nf)] + a_[3:]
        margs.append(a_)
        objs.append(obj)
    model.add_cpds(*objs)
    # queries
    rng = random.Random(case["qseed"])
    esn = {v: (list(sn[v]) if sn is not None else list(range(cards[v]))) for v in range(n)}
    queries = [[]]
    for _ in range(3):
        vs = rng.sample(range(n), rng.randint(1, n))
        queries.append([(v, esn[v][rng.randrange(cards[v])]) for v in vs])
    queries.append([(v, esn[v][rng.randrange(cards[v])]) for v in range(n)])
    v0 = rng.randrange(n)
    queries.append([(v0, "nosuchstate")])
    queries.append([(n, 0)])  # a variable that is not in the model
    qm = [[[v, N.st(s)] for v, s in q] for q in queries]
    code, gsp, cardl = drv.call("c05_bno", [case["nodes"], case["edges"], margs, qm])
    # check_model
    try:
        res = model.check_model()
        icode, msg = (0 if res is True else -1), ""
    except ValueError as e:
        msg = str(e.args[0]) if e.args else ""
        icode = classify(msg)
        if icode is None:
            icode = -2  # rejected, kind not recognisable from the message
    tags = ["nodes=%d" % n, "edges=%d" % len(case["edges"]), "fault=" + case["fault"], "names=" + case["style"],
            "verdict=" + CM_NAMES[code]]
    if (icode == 0) != (code == 0) or (icode > 0 and icode != code) or icode == -1:
        return bad("impl!=model:check_model", {"impl": icode, "impl_msg": msg[:120], "model": CM_NAMES[code], "fault": case["fault"]})
    if icode == -2:
        tags.append("kind-unclassified")
    # expected verdict from the injected fault class
    exp = {"none": [0], "missing_cpd": [1], "wrong_card": [5], "sn_mismatch": [6], "sn_partial": [3], "sum_out": [4],
           "sum_in": [0], "nan_entry": [4], "inf_entry": [4], "nan_normalized": [4], "neg_sum1": [0]}.get(case["fault"].split(":")[0])
    if case["fault"].startswith("wrong_parents"):
        exp = [2]
    if case["fault"] == "wrong_card:parent-carries-declared-list":
        exp = [5, 6]      # another child of that parent may be met first (its names then differ)
    if exp is not None and code not in exp:
        return bad("model!=expected-fault-class", {"fault": case["fault"], "model": CM_NAMES[code]})
    # get_cardinality
    ic = {N.var(k_): int(v_) for k_, v_ in model.get_cardinality().items()}
    if ic != {a: b_ for a, b_ in cardl}:
        return bad("impl!=model:get_cardinality", {"impl": sorted(ic.items()), "model": cardl})
    # get_state_probability
    for q, mres in zip(queries, gsp):
        try:
            p = float(model.get_state_probability({rb(vn[v]): rb(s) for v, s in q}))
            ir = (0, p)
        except ValueError:
            ir = (1, None)
        except KeyError:
            ir = (2, 2)
        if mres[0] == 0:
            if ir[0] != 0 or not rel_ok(ir[1], common.frac(mres[1])):
                return bad("impl!=model:get_state_probability", {"query": str(q), "impl": ir, "model": float(common.frac(mres[1]))})
        elif mres[0] == 1 or (mres[0] == 2 and mres[1] == 1):
            if ir[0] != 1:
                return bad("impl!=model:get_state_probability-error", {"query": str(q), "impl": ir, "model": mres})
        else:
            if ir[0] != 2:
                return bad("impl!=model:get_state_probability-error", {"query": str(q), "impl": ir, "model": mres})
    # the joint of a validated model sums to one (brute force over named states, from pgmpy's own arrays)
    if code == 0:
        total = 0.0
        for comb in itertools.product(*[esn[v] for v in range(n)]):
            pr = 1.0
            for cpd in model.cpds:
                idx = tuple(cpd.name_to_no[var][comb[N.var(var)]] for var in cpd.variables)
                pr *= float(cpd.values[idx])
            total += pr
        eps = float(TOL)
        lo, hi = (1 - eps) ** n, (1 + eps) ** n
        exact_cols = all(sum(col) == 1 for d_ in case["cpds"] for col in zip(*case_rows(case, d_["rows"])))
        if case["fault"] in ("none",) and case.get("backend") != "torch" and exact_cols and not rel_ok(total, 1.0):
            return bad("impl!=spec:joint-total", {"total": total})
        if not (lo - 1e-9 <= total <= hi + 1e-9):
            return bad("impl!=spec:joint-total-outside-tolerance", {"total": total, "bounds": [lo, hi]})
        if gsp[0][0] != 0 or not rel_ok(total, common.frac(gsp[0][1])):
            return bad("impl!=model:joint-total", {"impl": total, "model": gsp[0]})
        tags.append("joint-total-checked")
    return ok(nontrivial=len(case["edges"]) > 0,
              key=common.canon_key(["bn", case["nodes"], case["edges"], case["cpds"], case["sn"], case["fault"]]), tags=tags)



# ------------------------------------------------------------------ wide CPDs (>= 8 parents): reduce / marginalize
def normalised_slice(T0, fixed, X, child=0):
    sl = {frozenset(p for p in key if p[0] not in X): val for key, val in T0.items() if fixed <= key}
    dens = {}
    for k2, v2 in sl.items():
        pk = frozenset(p for p in k2 if p[0] != child)
        dens[pk] = dens.get(pk, 0.0) + v2
    return {k2: ((v2 / dens[frozenset(p for p in k2 if p[0] != child)]) if dens[frozenset(p for p in k2 if p[0] != child)] != 0
                 else float("nan")) for k2, v2 in sl.items()}


def run_wide(case, drv):
    k = case["k"]
    N = Names(var_names(case, k + 1))
    vn = N.varnames
    rows = case_rows(case, case["rows"])
    pc = case["pc"]
    snd = sn_dict(case, k)
    ev = list(range(1, k + 1))
    args = ctor_args(N, 0, case["ccard"], rows, ev, pc, snd)
    rng = random.Random(case["qseed"])
    esn = eff_sn(case, k)
    tags = ["wide parents=%d" % k, "names=" + case["style"]]

    def fresh():
        return make_impl(N, 0, case["ccard"], rows, ev, pc, snd)

    cpd = fresh()
    m, _ = drv.call("c05_ctor", [args])
    mod0 = model_form(m)
    imp0, e = impl_form(N, cpd)
    if e:
        return bad("impl-inconsistent:ctor", e)
    b = cmp_forms("ctor(wide)", imp0, mod0, cpd.get_values())
    if b:
        return b
    T0 = named_table(imp0["vars"], imp0["cards"], imp0["flat"], imp0["sn"])
    mv = drv.call("c05_ctor", [args])[1]
    if bool(cpd.is_valid_cpd()) != bool(mv):
        return bad("impl!=model:is_valid_cpd(wide)", {"impl": bool(cpd.is_valid_cpd()), "model": bool(mv)})
    perm = list(ev)
    rng.shuffle(perm)
    for inplace in (True, False):
        c2 = fresh()
        r = call_impl(lambda: c2.reorder_parents(rb([vn[u] for u in perm]), inplace=inplace))
        st, mr = drv.call_e("c05_reorder", [args, perm, inplace])
        if not same_outcome(r, st, mr):
            return bad("impl!=model:reorder-outcome(wide)", {"perm": perm})
        if st == "ok":
            impc, e = impl_form(N, c2)
            if e:
                return bad("impl-inconsistent:reorder(wide)", e)
            b = cmp_forms("reorder(wide,inplace=%s)" % inplace, impc, model_form(mr[0]), c2.get_values())
            if b:
                b["detail"]["perm"] = perm
                return b
            if not tables_equal(T0, named_table(impc["vars"], impc["cards"], impc["flat"], impc["sn"])):
                return bad("impl!=spec:reorder-changes-P(wide)", {"perm": perm})
            ret = [[float(x) for x in row] for row in to_np(r[1])]
            mret = [[common.frac(x) for x in row] for row in mr[1]]
            if len(ret) != len(mret) or not all(rel_ok(x, y) for a_, b_ in zip(ret, mret) for x, y in zip(a_, b_)):
                return bad("impl!=model:reorder-returned-array(wide)", {"perm": perm, "inplace": inplace})
    for label, derive, entry in (("copy", lambda c: c.copy(), "c05_copy"), ("normalize", lambda c: c.normalize(inplace=False), "c05_normalize")):
        d_ = derive(fresh())
        mr = drv.call(entry, [args])
        f_, e = impl_form(N, d_)
        if e:
            return bad("impl-inconsistent:%s(wide)" % label, e)
        b = cmp_forms(label + "(wide)", f_, model_form(mr, opt=(label == "normalize")), d_.get_values())
        if b:
            return b
    f_, e = impl_form(N, fresh().to_factor())
    if e or cmp_forms("to_factor(wide)", f_, {kk: mod0[kk] for kk in ("vars", "cards", "flat", "sn")}):
        return bad("impl!=model:to_factor(wide)", {"reason": e})
    subsets = []
    for t in range(12):
        if t % 3 != 2:   # fix most low-index parents, keep (some of) the high-index ones
            X = [u for u in ev if (u <= 6 and rng.random() < 0.85) or (u > 6 and rng.random() < 0.3)]
        else:
            X = [u for u in ev if rng.random() < 0.5]
        if not X:
            X = [rng.choice(ev)]
        rng.shuffle(X)
        subsets.append(X)
    for t, X in enumerate(subsets):
        inplace = bool(t % 2)
        states = [rng.randrange(pc[u - 1]) for u in X]
        vals_py = [(vn[u], esn[u][s_]) for u, s_ in zip(X, states)]
        vals_m = [[u, N.st(esn[u][s_])] for u, s_ in zip(X, states)]
        c2 = fresh()
        r = call_impl(lambda: c2.reduce(vals_py, inplace=inplace, show_warnings=False))
        st, mr = drv.call_e("c05_reduce", [args, vals_m])
        if not same_outcome(r, st, mr):
            return bad("impl!=model:reduce-outcome", {"values": vals_m, "impl": r[0], "model": [st, mr if st == "err" else None]})
        if st == "err":
            continue
        obj = c2 if inplace else r[1]
        impc, e = impl_form(N, obj)
        if e:
            return bad("impl-inconsistent:reduce(wide)", e)
        b = cmp_forms("reduce(wide,inplace=%s)" % inplace, impc, model_form(mr, opt=True), obj.get_values())
        if b:
            b["detail"]["values"] = vals_m
            b["detail"]["kept"] = [u for u in [0] + ev if u not in X]
            return b
        # the property itself, by named assignment
        T2 = named_table(impc["vars"], impc["cards"], impc["flat"], impc["sn"])
        fixed = {(u, N.st(esn[u][s_])) for u, s_ in zip(X, states)}
        exp = normalised_slice(T0, fixed, set(X))
        if T2 is None or set(T2) != set(exp):
            return bad("impl!=spec:reduce-scope(wide)", {"values": vals_m})
        for kk, val in exp.items():
            if math.isfinite(val) and not rel_ok(T2[kk], val, 1e-8):
                return bad("impl!=spec:reduce-not-normalised-slice(wide)", {"values": vals_m, "impl": T2[kk], "expected": val})
        if not inplace:
            impo, e = impl_form(N, c2)
            if e or cmp_forms("x", impo, mod0):
                return bad("impl!=spec:reduce-out-of-place-mutates(wide)", {"values": vals_m})
        kept = [u for u in ev if u not in X]
        tags.append("kept-axes=%d%s" % (len(kept) + 1, " incl. index>=8" if any(u >= 8 for u in kept) else ""))
    for t, X in enumerate(subsets[:4]):
        inplace = bool(t % 2)
        c2 = fresh()
        r = call_impl(lambda: c2.marginalize(wrap(rb([vn[u] for u in X]), ["list", "tuple", "ndarray", "set"][len(X) % 4], vn), inplace=inplace))
        st, mr = drv.call_e("c05_marginalize", [args, X])
        if not same_outcome(r, st, mr):
            return bad("impl!=model:marginalize-outcome", {"X": X, "impl": r[0], "model": [st, mr if st == "err" else None]})
        if st == "err":
            continue
        obj = c2 if inplace else r[1]
        impc, e = impl_form(N, obj)
        if e:
            return bad("impl-inconsistent:marginalize(wide)", e)
        b = cmp_forms("marginalize(wide)", impc, model_form(mr, opt=True), obj.get_values())
        if b:
            b["detail"]["X"] = X
            return b
    return ok(nontrivial=True, key=common.canon_key(["wide", case["ccard"], pc, case["rows"], case["sn"], case["qseed"]]),
              tags=sorted(set(tags)))


# ------------------------------------------------------------------ construction inputs are copied (value semantics)
def run_alias(case, drv):
    import numpy as np
    from pgmpy.factors.discrete import DiscreteFactor, TabularCPD
    k = case["k"]
    N = Names(var_names(case, k + 1))
    vn = N.varnames
    rows = case_rows(case, case["rows"])
    pc = case["pc"]
    snd = sn_dict(case, k)
    ev = list(range(1, k + 1))
    ccard = case["ccard"]
    args = ctor_args(N, 0, ccard, rows, ev, pc, snd)
    rng = random.Random(case["qseed"])
    esn = eff_sn(case, k)
    tags = ["alias parents=%d" % k]
    m, _ = drv.call("c05_ctor", [args])
    mod0 = model_form(m)
    base = np.array([[float(x) for x in r] for r in rows], dtype=np.float64)
    torch_be = is_torch()
    if torch_be:
        import torch
        from pgmpy import config
        tags.append("caller-side containers: torch tensors of the configured dtype")

    def container(a2):
        """the caller's array: a C-contiguous float64 ndarray, or under torch a tensor of the configured dtype"""
        a = np.array(a2, dtype=np.float64, order="C")
        if torch_be:
            return torch.tensor(a, dtype=config.get_dtype())
        return a

    def new_arr():
        return container(base)

    def same_as_model(obj, what, mod=mod0):
        f, e = impl_form(N, obj)
        if e:
            return bad("impl-inconsistent:" + what, e)
        return cmp_forms(what, f, mod, obj.get_values() if hasattr(obj, "get_values") else None)

    def scramble(a):
        a *= 0.5
        a[0, :] = 7.0
        a[-1, -1] = -3.0

    # (a) the caller's array is mutated afterwards
    arr = new_arr()
    cpd = make_impl_arr(N, 0, ccard, arr, ev, pc, snd)
    if shares(cpd.values, arr):
        return bad("impl!=spec:cpd-values-alias-constructor-argument", {"via": "2-D float64 C-contiguous ndarray"})
    scramble(arr)
    b = same_as_model(cpd, "ctor-then-caller-mutates-array")
    if b:
        return b
    # (b) in-place operations on the CPD: the caller's array and a sibling CPD built from it stay unchanged
    ops = [("normalize", lambda c: c.normalize(inplace=True)),
           ("product(2.0)", lambda c: c.product(2.0, inplace=True)),
           ("values-edit", lambda c: c.values.__imul__(0.0)),
           ("marginalize([])", lambda c: c.marginalize([], inplace=True))]
    if k >= 1:
        u = rng.choice(ev)
        s_ = esn[u][rng.randrange(pc[u - 1])]
        ops.append(("reduce", lambda c, u=u, s_=s_: c.reduce([(vn[u], s_)], inplace=True, show_warnings=False)))
        ops.append(("marginalize", lambda c, u=u: c.marginalize([vn[u]], inplace=True)))
        if k >= 2:
            ops.append(("reorder_parents", lambda c: c.reorder_parents([vn[w] for w in reversed(ev)], inplace=True)))
    if all(isinstance(x, str) and x.isidentifier() for x in vn[: k + 1]):
        kw = {vn[v]: esn[v][0] for v in range(k + 1)}
        ops.append(("set_value", lambda c: c.set_value(0.125, **kw)))
    for label, op in ops:
        arr = new_arr()
        c1 = make_impl_arr(N, 0, ccard, arr, ev, pc, snd)
        c2 = make_impl_arr(N, 0, ccard, arr, ev, pc, snd)
        if shares(c1.values, c2.values):
            return bad("impl!=spec:sibling-cpds-share-values", {"op": label})
        try:
            op(c1)
        except (ValueError, KeyError, IndexError, TypeError):
            pass
        if not np.array_equal(to_np(arr), base):
            return bad("impl!=spec:in-place-op-writes-into-caller-array", {"op": label})
        b = same_as_model(c2, "sibling-after-" + label)
        if b:
            return b
    tags.append("inplace-ops=%d" % len(ops))
    # (b') argument purity: python containers handed to the API are left alone, and can be edited / reused afterwards
    import copy as _copy
    ev_py, ec_py = [vn[u] for u in ev], list(pc)
    sn_py = {vn[u]: list(l) for u, l in snd.items()} if snd else {}
    vals_py = [[float(x) for x in r] for r in rows]
    snap = _copy.deepcopy((ev_py, ec_py, sn_py, vals_py))
    pa1 = TabularCPD(vn[0], ccard, vals_py, evidence=ev_py, evidence_card=ec_py, state_names=sn_py)
    pa2 = TabularCPD(vn[0], ccard, vals_py, evidence=ev_py, evidence_card=np.array(ec_py, dtype=int), state_names=sn_py)
    calls = []
    if k >= 1:
        no = list(reversed(ev_py))
        xs = [ev_py[0]] if k == 1 else [ev_py[1], ev_py[0]]
        vl = [(ev_py[-1], esn[ev[-1]][0])] if k == 1 else [(ev_py[-1], esn[ev[-1]][0]), (ev_py[0], esn[ev[0]][-1])]
        calls = [("reorder_parents", lambda c: c.reorder_parents(no, inplace=True), no, list(no)),
                 ("marginalize", lambda c: c.marginalize(xs, inplace=True), xs, list(xs)),
                 ("reduce", lambda c: c.reduce(vl, inplace=True, show_warnings=False), vl, list(vl)),
                 ("reduce(out of place)", lambda c: c.reduce(vl, inplace=False, show_warnings=False), vl, list(vl))]
    for label, fcall, argobj, argsnap in calls:
        c_ = TabularCPD(vn[0], ccard, vals_py, evidence=ev_py, evidence_card=ec_py, state_names=sn_py)
        try:
            fcall(c_)
        except (ValueError, KeyError, IndexError, TypeError):
            pass
        if argobj != argsnap or (ev_py, ec_py, sn_py, vals_py) != snap:
            return bad("impl!=spec:call-mutates-its-arguments", {"call": label})
    if (ev_py, ec_py, sn_py, vals_py) != snap:
        return bad("impl!=spec:constructor-mutates-its-arguments", {})
    ev_py.append("zz-added")
    ev_py.reverse()
    ec_py[:] = [c + 5 for c in ec_py]
    for key in list(sn_py):
        sn_py[key] = ["replaced"]          # top-level replacement (inner lists are not edited in place: see RULE)
    sn_py["extra"] = [1, 2, 3]
    for r_ in vals_py:
        for j in range(len(r_)):
            r_[j] = -1.0
    for c_, what in ((pa1, "cpd-after-caller-edits-argument-containers"), (pa2, "cpd(evidence_card ndarray)-after-caller-edits")):
        b = same_as_model(c_, what)
        if b:
            return b
    tags.append("argument-purity")
    # (c) one scratch buffer re-filled for several CPDs
    tables = [rows, [[x / 2 for x in r] for r in rows], [[x + Fraction(1, 4) for x in r] for r in reversed(rows)]]
    fl = q32 if torch_be else (lambda x: Fraction(float(x)))
    tables = [[[fl(x) for x in r] for r in t] for t in tables]
    buf = container(np.zeros(base.shape))
    built = []
    for t in tables:
        buf[...] = container([[float(x) for x in r] for r in t])
        built.append(make_impl_arr(N, 0, ccard, buf, ev, pc, snd))
    for t, c in zip(tables, built):
        mt, _ = drv.call("c05_ctor", [ctor_args(N, 0, ccard, t, ev, pc, snd)])
        b = same_as_model(c, "ctor-from-reused-buffer", model_form(mt))
        if b:
            return b
    # (d) a CPD built from another CPD's get_values() / a factor built from another object's values
    src = make_impl(N, 0, ccard, rows, ev, pc, snd)
    nxt = make_impl_arr(N, 0, ccard, src.get_values(), ev, pc, snd)
    if shares(nxt.values, src.values):
        return bad("impl!=spec:cpd-values-alias-constructor-argument", {"via": "other.get_values()"})
    nxt.values += 1.0
    nxt.normalize(inplace=True)
    b = same_as_model(src, "source-after-mutating-cpd-built-from-get_values")
    if b:
        return b
    nxt = make_impl_arr(N, 0, ccard, src.get_values(), ev, pc, snd)
    src.values *= 3.0
    b = same_as_model(nxt, "cpd-built-from-get_values-after-mutating-source")
    if b:
        return b
    src = make_impl(N, 0, ccard, rows, ev, pc, snd)
    kw = {"state_names": {vn[u]: list(l) for u, l in snd.items()}} if snd else {}
    fm = {"vars": mod0["vars"], "cards": mod0["cards"], "flat": mod0["flat"], "sn": mod0["sn"]}
    scope_py, cards_py = [vn[v] for v in [0] + ev], [ccard] + pc
    for via, pick in (("other.values", lambda c: c.values), ("other.values.reshape(-1)", lambda c: c.values.reshape(-1)),
                      ("other.get_values()", lambda c: c.get_values()), ("1-D array", None)):
        src = make_impl(N, 0, ccard, rows, ev, pc, snd)
        given = container(base.reshape(-1)) if pick is None else pick(src)
        f = DiscreteFactor(scope_py, cards_py, given, **kw)
        if shares(f.values, given):
            return bad("impl!=spec:factor-values-alias-constructor-argument", {"via": via})
        if pick is None:
            given[:] = -1.0
        else:
            src.values *= 3.0
        ff, e = impl_form(N, f)
        if e:
            return bad("impl-inconsistent:factor-ctor", e)
        b = cmp_forms("factor-ctor-then-argument-mutated(%s)" % via, ff, fm)
        if b:
            return b
        if pick is not None:
            src = make_impl(N, 0, ccard, rows, ev, pc, snd)
            f = DiscreteFactor(scope_py, cards_py, pick(src), **kw)
            f.values *= 0.0
            b = same_as_model(src, "source-after-mutating-factor-built-from-" + via)
            if b:
                return b
    return ok(nontrivial=True, key=common.canon_key(["alias", ccard, pc, case["rows"], case["sn"], case["vstyle"]]), tags=tags)



# ------------------------------------------------------------------ sessions on ONE CPD object
def run_session(case, drv):
    """a sequence of in-place operations on the same CPD object, read-only calls in between; after every step the
    object = the model's object (a memoised table / lookup that survives an edit shows up here)"""
    k = case["k"]
    N = Names(var_names(case, k + 2))
    vn = N.varnames
    rows = case_rows(case, case["rows"])
    pc = list(case["pc"])
    snd = sn_dict(case, k)
    ev = list(range(1, k + 1))
    args = ctor_args(N, 0, case["ccard"], rows, ev, pc, snd)
    rng = random.Random(case["qseed"])
    esn = eff_sn(case, k)
    tags = ["session parents=%d" % k]
    cur = list(ev)
    ops, mops = [], []
    if case.get("mode") == "big" and pc and pc[0] > 256 and rng.random() < 0.75:
        s_ = esn[1][rng.randint(256, pc[0] - 1)]      # a state number that does not fit in 8 bits
        ops.append(("reduce", [(1, s_)]))
        mops.append([2, [[1, N.st(s_)]]])
        cur = [u for u in cur if u != 1]
    for _ in range(6):
        kind = rng.choice(["reorder", "marginalize", "reduce", "normalize", "copy", "reduce", "marginalize", "rejected"])
        if kind == "reorder" and cur:
            o = list(cur)
            rng.shuffle(o)
            ops.append(("reorder", o))
            mops.append([0, o])
            cur = o
        elif kind == "marginalize":
            X = [u for u in cur if rng.random() < 0.4]
            rng.shuffle(X)
            ops.append(("marginalize", X))
            mops.append([1, X])
            cur = [u for u in cur if u not in X]
        elif kind == "reduce":
            X = [u for u in cur if rng.random() < 0.4]
            rng.shuffle(X)
            vals = [(u, esn[u][rng.randrange(len(esn[u]))]) for u in X]
            ops.append(("reduce", vals))
            mops.append([2, [[u, N.st(s_)] for u, s_ in vals]])
            cur = [u for u in cur if u not in X]
        elif kind == "normalize":
            ops.append(("normalize", None))
            mops.append([3])
        elif kind == "copy":
            ops.append(("copy", None))
            mops.append([4])
        else:   # a call the code rejects before touching the object: a LATER argument is invalid
            how = rng.choice(["marg-unknown", "reduce-unknown", "reduce-child", "reorder-missing"])
            if how == "marg-unknown":
                X = cur[:1] + [k + 1]
                ops.append(("marginalize", X))
                mops.append([1, X])
            elif how == "reduce-unknown":
                vals = [(u, esn[u][0]) for u in cur[:1]] + [(k + 1, 0)]
                ops.append(("reduce", vals))
                mops.append([2, [[u, N.st(s_)] for u, s_ in vals]])
            elif how == "reduce-child":
                vals = [(u, esn[u][0]) for u in cur[:1]] + [(0, esn[0][0])]
                ops.append(("reduce", vals))
                mops.append([2, [[u, N.st(s_)] for u, s_ in vals]])
            else:
                o = cur[1:] + [k + 1] if cur else [k + 1]
                ops.append(("reorder", o))
                mops.append([0, o])
    replies = drv.call("c05_session", [args, mops])
    cont = [None, "tuple", "ndarray"][case["qseed"] % 3] if k >= 1 else None
    obj = make_impl(N, 0, case["ccard"], rows, ev, pc, snd, cont=cont)
    tags.append("ctor-containers=%s" % cont)
    last = None
    for step, ((kind, a), rep) in enumerate(zip(ops, replies)):
        if kind == "reorder":
            r = call_impl(lambda: obj.reorder_parents(rb([vn[u] for u in a]), inplace=True))
        elif kind == "marginalize":
            r = call_impl(lambda: obj.marginalize(wrap(rb([vn[u] for u in a]), ["tuple", "ndarray", "set", "list"][step % 4], vn), inplace=True))
        elif kind == "reduce":
            r = call_impl(lambda: obj.reduce(wrap(rb([(vn[u], s_) for u, s_ in a]), ["tuple", "list"][step % 2]), inplace=True, show_warnings=bool(step % 2)))
        elif kind == "normalize":
            r = call_impl(lambda: obj.normalize(inplace=True))
        else:
            r = call_impl(lambda: obj.copy())
            if r[0] == "ok":
                obj = r[1]
        info = {"step": step, "ops": [[k_, str(a_)] for k_, a_ in ops[: step + 1]]}
        if rep[0] == 1:
            if r[0] != "err" or not same_outcome(r, "err", rep[1]):
                return bad("impl!=model:session-outcome", dict(info, impl=list(r[:1]) + ([r[1]] if r[0] == "err" else []), model=rep))
            tags.append("rejected-call")
            if rep[1] in (2, 3):
                break      # KeyError / IndexError arise half-way: the object is not specified afterwards
            continue       # rejected before any mutation: the object must still be the previous state (checked next step)
        if r[0] != "ok":
            return bad("impl!=model:session-outcome", dict(info, impl=["err", r[1]], model="ok"))
        mod = model_form(rep[1], opt=(rep[0] == 2))
        f, e = impl_form(N, obj)
        if e:
            return bad("impl-inconsistent:session", dict(info, reason=e))
        b = cmp_forms("session(%s)" % kind, f, mod, obj.get_values())
        if b:
            b["detail"].update(info)
            return b
        if rep[0] == 2:
            if bool(obj.is_valid_cpd()) != bool(rep[2]):
                return bad("impl!=model:session-is_valid_cpd(non-finite)", dict(info, impl=bool(obj.is_valid_cpd()), model=bool(rep[2])))
            tags.append("non-finite-end")
            break
        if bool(obj.is_valid_cpd()) != bool(rep[2]):
            return bad("impl!=model:session-is_valid_cpd", dict(info, impl=bool(obj.is_valid_cpd()), model=bool(rep[2])))
        if [N.var(x) for x in obj.get_evidence()] != list(reversed(mod["vars"][1:])):
            return bad("impl!=model:session-get_evidence", info)
        fac, e = impl_form(N, obj.to_factor())
        if e or cmp_forms("session-to_factor", fac, {kk: mod[kk] for kk in ("vars", "cards", "flat", "sn")}):
            return bad("impl!=model:session-to_factor", dict(info, reason=e))
        tags.append("op=" + kind)
        last = (mod, kind)
    else:
        # the object once more at the end (a rejected last call must have left it alone)
        if last is not None:
            f, e = impl_form(N, obj)
            if e or cmp_forms("session-end", f, last[0], obj.get_values()):
                return bad("impl!=model:session-end-state", {"reason": e, "ops": [[k_, str(a_)] for k_, a_ in ops]})
    return ok(nontrivial=k >= 1, key=common.canon_key(["session", case["ccard"], pc, case["rows"], case["sn"], case["qseed"]]),
              tags=sorted(set(tags)))


# ------------------------------------------------------------------ sessions on ONE BayesianNetwork object
def spec_snd(spec):
    return spec["snd"]


def bn_compare(model, N, nodes, edges, specs, queries, drv, what):
    """everything observable of the network against the model built afresh from the CURRENT state"""
    vn = N.varnames
    margs = [ctor_args(N, sp["v"], sp["card"], sp["rows"], sp["pa"], sp["pc"], sp["snd"]) for sp in specs]
    qm = [[[v, N.st(s_)] for v, s_ in q] for q in queries]
    code, gsp, cardl = drv.call("c05_bn", [nodes, [list(e) for e in edges], margs, qm])
    try:
        res = model.check_model()
        icode, msg = (0 if res is True else -1), ""
    except ValueError as e:
        msg = str(e.args[0]) if e.args else ""
        icode = classify(msg)
        if icode is None:
            icode = -2
    if (icode == 0) != (code == 0) or (icode > 0 and icode != code) or icode == -1:
        return bad("impl!=model:check_model(session)", {"after": what, "impl": icode, "impl_msg": msg[:120], "model": CM_NAMES[code]}), code
    if [N.var(c.variable) for c in model.get_cpds()] != [sp["v"] for sp in specs]:
        return bad("impl!=model:cpd-list(session)", {"after": what, "impl": [N.var(c.variable) for c in model.get_cpds()],
                                                      "model": [sp["v"] for sp in specs]}), code
    if [N.var(x) for x in model.nodes()] != list(nodes) or sorted((N.var(a), N.var(b_)) for a, b_ in model.edges()) != sorted(map(tuple, edges)):
        return bad("impl!=model:graph(session)", {"after": what}), code
    ic = {N.var(k_): int(v_) for k_, v_ in model.get_cardinality().items()}
    if ic != {a: b_ for a, b_ in cardl}:
        return bad("impl!=model:get_cardinality(session)", {"after": what, "impl": sorted(ic.items()), "model": cardl}), code
    for sp in specs:
        if int(model.get_cardinality(rb(vn[sp["v"]]))) != sp["card"]:
            return bad("impl!=model:get_cardinality(node)(session)", {"after": what, "node": sp["v"]}), code
        c = model.get_cpds(rb(vn[sp["v"]]))
        f, e = impl_form(N, c)
        if e:
            return bad("impl-inconsistent:cpd(session)", {"after": what, "reason": e}), code
        m, _ = drv.call("c05_ctor", [ctor_args(N, sp["v"], sp["card"], sp["rows"], sp["pa"], sp["pc"], sp["snd"])])
        b = cmp_forms("get_cpds(node) after %s" % what, f, model_form(m), c.get_values())
        if b:
            return b, code
    for q, mres in zip(queries, gsp):
        try:
            qd = {rb(vn[v]): rb(s_) for v, s_ in q}
            qsnap = dict(qd)
            pr = float(model.get_state_probability(qd))
            if qd != qsnap:
                return bad("impl!=spec:get_state_probability-mutates-argument", {"after": what}), code
            ir = (0, pr)
        except ValueError:
            ir = (1, None)
        except KeyError:
            ir = (2, 2)
        if mres[0] == 0:
            if ir[0] != 0 or not rel_ok(ir[1], common.frac(mres[1])):
                return bad("impl!=model:get_state_probability(session)", {"after": what, "query": str(q), "impl": ir, "model": float(common.frac(mres[1]))}), code
        elif mres[0] == 1 or (mres[0] == 2 and mres[1] == 1):
            if ir[0] != 1:
                return bad("impl!=model:get_state_probability-error(session)", {"after": what, "query": str(q), "impl": ir, "model": mres}), code
        elif ir[0] != 2:
            return bad("impl!=model:get_state_probability-error(session)", {"after": what, "query": str(q), "impl": ir, "model": mres}), code
    return None, code


def run_bnsession(case, drv):
    from pgmpy.models import BayesianNetwork
    n = case["n"]
    N = Names(var_names(case, n + 2))
    vn = N.varnames
    cards = list(case["cards"])
    sn = case["sn"]
    rng = random.Random(case["qseed"])
    esn = {v: (list(sn[v]) if sn is not None else list(range(cards[v]))) for v in range(n)}
    new = n                     # a node added during the session
    cards.append(2)
    esn[new] = ["n0", "n1"] if sn is not None else [0, 1]
    fl = q32 if case.get("backend") == "torch" else (lambda x: x)

    def mkspec(v, pa, mode="norm"):
        pa = list(pa)
        pcs = [cards[u] for u in pa]
        rows = [[fl(x) for x in r] for r in rand_table(rng, cards[v], math.prod(pcs), mode)]
        snd = None if sn is None else {u: list(esn[u]) for u in [v] + pa}
        return {"v": v, "pa": pa, "pc": pcs, "card": cards[v], "rows": rows, "snd": snd}

    def impl_of(sp):
        return make_impl(N, sp["v"], sp["card"], sp["rows"], sp["pa"], sp["pc"], sp["snd"])

    nodes = list(case["nodes"])
    edges = [tuple(e) for e in case["edges"]]
    model = BayesianNetwork()
    for v in nodes:
        model.add_node(vn[v])
    model.add_edges_from([(vn[u], vn[v]) for u, v in edges])
    order = list(range(n))
    rng.shuffle(order)
    specs = []
    for v in order:
        pa = [u for (u, w) in edges if w == v]
        rng.shuffle(pa)
        specs.append(mkspec(v, pa))
    model.add_cpds(*[impl_of(sp) for sp in specs])

    def queries():
        vs = [v for v in nodes]
        qs = [[], [(v, esn[v][rng.randrange(cards[v])]) for v in vs]]
        if vs:
            sub = rng.sample(vs, rng.randint(1, len(vs)))
            qs.append([(v, esn[v][rng.randrange(cards[v])]) for v in sub])
        return qs

    tags = ["bnsession nodes=%d" % n]
    b, code = bn_compare(model, N, nodes, edges, specs, queries(), drv, "build")
    if b:
        return b
    if code != 0:
        return bad("harness-inconsistent:bnsession-start", {"model": CM_NAMES[code]})

    def pos(v):
        return [i for i, sp in enumerate(specs) if sp["v"] == v][0]

    def parents_of(v):
        return [u for (u, w) in edges if w == v]

    def reach(a, b_):   # is there a directed path a ->* b_
        seen, st = set(), [a]
        while st:
            x = st.pop()
            if x == b_:
                return True
            if x in seen:
                continue
            seen.add(x)
            st.extend(w for (u, w) in edges if u == x)
        return False

    for step in range(5):
        edit = rng.choice(["replace", "replace-bad-sum", "remove-readd", "add-edge", "remove-edge", "add-node",
                           "multi-add-later-invalid", "remove-node", "reorder-in-model"])
        present = [sp["v"] for sp in specs]
        if edit in ("replace", "replace-bad-sum") and present:
            v = rng.choice(present)
            sp = mkspec(v, specs[pos(v)]["pa"], "norm" if edit == "replace" else "free")
            model.add_cpds(impl_of(sp))
            specs[pos(v)] = sp
        elif edit == "remove-readd" and present:
            v = rng.choice(present)
            old = specs.pop(pos(v))
            if isinstance(vn[v], (str, int)) and rng.random() < 0.5:
                model.remove_cpds(vn[v])
            else:
                model.remove_cpds(model.get_cpds(vn[v]))
            b, code = bn_compare(model, N, nodes, edges, specs, queries(), drv, "remove_cpds")
            if b:
                return b
            sp = mkspec(v, old["pa"])
            model.add_cpds(impl_of(sp))
            specs.append(sp)
        elif edit == "add-edge":
            cand = [(u, v) for u in nodes for v in nodes if u != v and (u, v) not in edges and (v, u) not in edges
                    and not reach(v, u) and len(parents_of(v)) < 3 and v in present]
            if not cand:
                continue
            u, v = rng.choice(cand)
            model.add_edge(vn[u], vn[v])
            edges.append((u, v))
            b, code = bn_compare(model, N, nodes, edges, specs, queries(), drv, "add_edge")
            if b:
                return b
            pa = parents_of(v)
            rng.shuffle(pa)
            sp = mkspec(v, pa)
            model.add_cpds(impl_of(sp))
            specs[pos(v)] = sp
        elif edit == "remove-edge":
            cand = [e for e in edges if e[1] in present]
            if not cand:
                continue
            u, v = rng.choice(cand)
            if rng.random() < 0.5:
                model.remove_edge(vn[u], vn[v])
            else:
                model.remove_edges_from([(vn[u], vn[v])])
            edges.remove((u, v))
            b, code = bn_compare(model, N, nodes, edges, specs, queries(), drv, "remove_edge")
            if b:
                return b
            pa = [w for w in specs[pos(v)]["pa"] if w != u]
            sp = mkspec(v, pa)
            model.add_cpds(impl_of(sp))
            specs[pos(v)] = sp
        elif edit == "add-node" and new not in nodes:
            model.add_node(vn[new])
            nodes.append(new)
            b, code = bn_compare(model, N, nodes, edges, specs, queries(), drv, "add_node")
            if b:
                return b
            sp = mkspec(new, [])
            model.add_cpds(impl_of(sp))
            specs.append(sp)
        elif edit == "multi-add-later-invalid" and present:
            v = rng.choice(present)
            sp = mkspec(v, specs[pos(v)]["pa"])
            ghost = n + 1   # a variable that is not a node of the model
            badc = make_impl(N, ghost, 2, [[Fraction(1, 2)], [Fraction(1, 2)]], [], [], None)
            r = call_impl(lambda: model.add_cpds(impl_of(sp), badc))
            if r != ("err", 1):
                return bad("impl!=spec:add_cpds-accepts-cpd-outside-model", {"outcome": list(r[:1])})
            specs[pos(v)] = sp      # the first argument was added before the second was rejected
        elif edit == "remove-node" and len(nodes) >= 2:
            v = rng.choice(nodes)
            children = [w for (u, w) in edges if u == v]
            for w in children:
                if w in present and v in specs[pos(w)]["pa"]:
                    spw = specs[pos(w)]
                    st, mr = drv.call_e("c05_marginalize", [ctor_args(N, spw["v"], spw["card"], spw["rows"], spw["pa"], spw["pc"], spw["snd"]), [v]])
                    if st != "ok":
                        return bad("harness-inconsistent:remove_node-marginalize", {"model": [st, mr]})
                    mf = model_form(mr, opt=True)
                    if any(x is None for x in mf["flat"]):
                        return ok(nontrivial=False, key=None, tags=tags + ["remove-node-nonfinite-skip"])
                    npa = [u for u in spw["pa"] if u != v]
                    nsnd = None if spw["snd"] is None else {u: l for u, l in spw["snd"].items() if u != v}
                    if spw["snd"] is None:
                        nsnd = {u: list(range(cards[u])) for u in [w] + npa}   # default names are stored explicitly after construction
                    specs[pos(w)] = {"v": w, "pa": npa, "pc": [cards[u] for u in npa], "card": spw["card"], "rows": mf["rows"], "snd": nsnd}
            if v in present:
                specs.pop(pos(v))
            if rng.random() < 0.5:
                model.remove_node(vn[v])
            else:
                model.remove_nodes_from([vn[v]])
            nodes.remove(v)
            edges = [e for e in edges if v not in e]
        elif edit == "reorder-in-model" and present:
            v = rng.choice(present)
            sp = specs[pos(v)]
            if len(sp["pa"]) >= 2:
                o = list(sp["pa"])
                rng.shuffle(o)
                st, mr = drv.call_e("c05_reorder", [ctor_args(N, sp["v"], sp["card"], sp["rows"], sp["pa"], sp["pc"], sp["snd"]), o, True])
                model.get_cpds(vn[v]).reorder_parents([vn[u] for u in o], inplace=True)
                mf = model_form(mr[0])
                snd2 = sp["snd"] if sp["snd"] is not None else {u: list(range(cards[u])) for u in [v] + o}
                specs[pos(v)] = {"v": v, "pa": o, "pc": [cards[u] for u in o], "card": sp["card"], "rows": mf["rows"], "snd": snd2}
        else:
            continue
        tags.append("edit=" + edit)
        b, code = bn_compare(model, N, nodes, edges, specs, queries(), drv, edit)
        if b:
            return b
        tags.append("verdict-after-edit=" + CM_NAMES[code])
    return ok(nontrivial=len(case["edges"]) > 0,
              key=common.canon_key(["bnsession", case["nodes"], case["edges"], case["sn"], case["qseed"]]), tags=sorted(set(tags)))


def run_case(case, drv):
    from pgmpy import config
    backend = case.get("backend", "numpy")
    if backend == "torch":
        config.set_backend("torch")
    try:
        out = run_case_(case, drv)
        if isinstance(out, dict):
            out.setdefault("tags", []).append("backend=" + backend)
        return out
    finally:
        if backend == "torch":
            config.set_backend("numpy")


def run_case_(case, drv):
    kind = case["kind"]
    if kind == "cpd":
        return run_cpd(case, drv)
    if kind == "valid":
        return run_valid(case, drv)
    if kind == "validx":
        return run_validx(case, drv)
    if kind == "malformed":
        return run_malformed(case, drv)
    if kind == "bn":
        return run_bn(case, drv)
    if kind == "wide":
        return run_wide(case, drv)
    if kind == "alias":
        return run_alias(case, drv)
    if kind == "session":
        return run_session(case, drv)
    if kind == "bnsession":
        return run_bnsession(case, drv)
    return bad("harness", "unknown kind %r" % kind)
