"""C03 correspondence: pgmpy MAP queries (VariableElimination.map_query with every elimination-order option,
BeliefPropagation.map_query, BayesianNetwork.predict, max_marginal, DiscreteFactor.assignment / argmax) vs
the Coq model (coq/C03/Model.v, proved optimal in coq/C03/Props.v) and the VERIFIED checker map_chk
(C03_map_chk: accepts exactly the brute-force maximisers), both run as extracted OCaml."""
import itertools
import random
from fractions import Fraction

from harness import common
from harness.common import ok, bad

PROP = "C03"
LEVEL = "proof"
HASHSEEDS = {"quick": [0, 1, 2, 3], "thorough": list(range(16))}
BUDGET_S = {"quick": 110, "thorough": 1100}
EXHAUSTIVE = {"quick": False, "thorough": False}
RULE = ("random Bayesian networks (random DAGs of every density, chains, forks, colliders, diamonds, isolated and "
        "disconnected parts, 'MPE trap' families where the marginal MAP differs from the projection of the most "
        "probable explanation), 1..6 (quick) / 1..7 (thorough) nodes, cardinalities 1..4 (unequal on purpose), node "
        "names str/int/tuple/mixed, state names int (permuted)/str/tuple/mixed, exact dyadic CPD columns incl. zeros, "
        "deterministic columns, uniform and deliberately TIED columns; per network several evidence sets of non-zero "
        "probability (drawn from a positive-probability joint state), all non-empty query sets disjoint from the evidence "
        "(sampled when > 12), virtual evidence; each query run through VariableElimination.map_query with "
        "elimination_order in {MinFill, MinNeighbors, MinWeight, WeightedMinFill, None, explicit random permutation}, "
        "BeliefPropagation.map_query on connected networks, max_marginal, and BayesianNetwork.predict on small frames; "
        "PARAMETER UPDATES: one BayesianNetwork object is used, then CPDs are replaced on it (add_cpds without remove, remove_cpds+add_cpds, fit on data) for 2..3 rounds, and FRESH VariableElimination and BeliefPropagation engines must answer for the parameters the model lists now; SESSIONS: one long-lived BeliefPropagation or VariableElimination engine receiving 2..6 public calls (calibrate, max_calibrate, get_clique_beliefs, query, max_marginal, map_query with hard/virtual evidence, repeated and role-re-split questions) with every map_query answer judged as a single query is; Markov networks (unary/pairwise/triangle factors, same-scope factors in different axis orders, and EQUAL duplicate factors) for the elimination engine; plus direct streams for "
        "DiscreteFactor.assignment (unequal cardinalities, out-of-range indices), argmax and argmax+assignment on one "
        "factor.  Every implementation answer must (a) assign exactly the requested variables, (b) use valid state "
        "NAMES, (c) be accepted by the extracted verified checker map_chk on the exact rational posterior (or lie within "
        "1e-9 relative of the maximum: float near-tie), (d) equal the model's answer when the maximum is unique, and for "
        "the elimination engine also under ties when the model is given the implementation's axis order.  A case is "
        "non-trivial when at least one query has a non-query non-evidence variable to sum out and >= 2 joint query states; "
        "distinct = distinct canonical (network, query stream).  "
        "FURTHER STREAMS (generalisation classes A-M of notes/GENERALISATION_CHECKLIST.md): "
        "[A] sessions on one engine (calibrate/max_calibrate/get_clique_beliefs/query/max_marginal/rejected calls between "
        "map_query calls) and on one model object: CPDs replaced by add_cpds without remove, remove_cpds+add_cpds, fit on a "
        "frame, remove_node, do(inplace=True), MarkovNetwork add_factors/remove_factors, each followed by FRESH VE and BP "
        "engines judged against the parameters the model lists NOW (networkx remove_edge/clear leave a BayesianNetwork "
        "that check_model rejects, so no MAP query exists for them); "
        "[no-variables] map_query(variables=None / [] / omitted) = MAP over exactly the unobserved variables, with hard and "
        "virtual evidence, on BayesianNetwork, MarkovNetwork, FactorGraph (BP; VE does not support it) and JunctionTree "
        "engines, every elimination_order string incl. 'greedy', plus explicit query sets on FactorGraph/JunctionTree engines; "
        "[B] deep snapshots of variables/evidence/virtual_evidence/elimination_order/predict frame before and after, and "
        "the same argument objects reused for a second call; [C] the returned dict is scribbled over and the question "
        "repeated on the same engine (distinct result objects, same answer); [D] predict frames with RangeIndex, shifted, "
        "permuted, gapped, duplicate and string index labels, int/bool/str/object/categorical columns (categories in another "
        "order, some unused), duplicate rows, shuffled column order; [E] names that are substrings of one another, names "
        "starting with the virtual-evidence prefix '__', keyword-like names, int/str/tuple mixed (tuple labels cannot be "
        "DataFrame columns: predict skipped there); [F] integer state names that are not their positions, 1-based and "
        "negative, booleans, the same names across variables (a state-name ORDER conflict between CPDs is rejected by "
        "check_model and belongs to C05: generators only build models check_model accepts); [G] joint MAP over 9-10 "
        "variables with integer names up to 12 (>= 9 axes in the final table), cardinality-1 variables, single-node and "
        "edgeless networks, isolated nodes, variables=[] and evidence={} vs None, virtual_evidence as TabularCPD or "
        "DiscreteFactor, falsy names 0 / False; [H] CPD entries 2^-20..2^-50 and columns 1/2 +- 2^-41, evidence of "
        "probability down to ~1e-60, Markov factors scaled by 2^-280..2^280 (all exact in binary floating point; the oracle "
        "is the exact rational posterior, tolerance 1e-9 RELATIVE to its maximum); NaN cannot arise for evidence of non-zero "
        "probability, which the property requires; [I] numpy and torch (float64) backends; [J] every elimination_order "
        "option, show_progress True/False, predict algo None/VE/BP (n_jobs only selects joblib's scheduler: 1 here), "
        "max_marginal defaults; [K] map_query calls that must be refused (variables overlapping evidence, a LATER virtual "
        "evidence of the wrong cardinality / on an unknown variable, an elimination order containing a query variable, an "
        "unknown evidence state) followed by a judged map_query on the same engine; [L] shuffled node/edge/CPD/factor "
        "insertion, parent, query-variable and evidence orders, explicit random elimination orders, 4/16 hash seeds; "
        "[M] tools/check.py shuffles the cases and enforces the budget floor; "
        "[N] every pgmpy model is built from run-time REBUILT copies of the names and states (strings joined from characters, "
        "tuples rebuilt, integers above 256 incl. 'bigint' variable names 1000.. and state names 300.., 70000..), so every "
        "query argument is equal to but not identical with the object stored in the model; "
        "[O] query variables as list / tuple / set / frozenset / dict-keys view for the elimination engine and list / tuple / "
        "set for BeliefPropagation (its _query documents a list and recognises exactly these three), explicit elimination "
        "orders as list / tuple / numpy object array / pandas Index (array-likes only for all-str or all-int names; one-shot "
        "iterators are not a documented form: the code tests membership before iterating); evidence is documented as a dict; "
        "[P] chains, random trees, caterpillars and binary trees of 9..14 binary nodes (8..13 cliques; sizes 9 = 1 mod 8) "
        "with one skewed prior at the far end, MAP of far nodes through fresh BP engines, BP after a public calibrate(), and VE; "
        "variables with > 256 states do not fit the exact brute-force oracle (cardinalities 1..4 here; argmax/assignment are "
        "proved for every shape); [Q] CPDs typed in thousandths whose columns sum to 0.995 / 1.005 (all columns of one CPD "
        "alike, so pruning rescales by a constant), judged against the product of the tables as given; "
        "[near ties] S -> X, S -> Y with evidence: best and runner-up posterior differing by a relative margin 1e-5 .. 2e-9 "
        "(exact rationals of the floats; the 1e-9 acceptance band is never at the knife edge), runner-up earlier and later "
        "in index order, exact ties separately, both engines; "
        "[R] virtual evidence x no-variables x every engine, virtual evidence x evidence on roots, virtual evidence x "
        "explicit order containers, torch x virtual evidence, sessions mixing max_calibrate / rejected calls / virtual "
        "evidence, predict x categorical x BP")
TRUSTED_BASE = ["numpy argmax/einsum kernels and float arithmetic (inputs are dyadic, so the engine's tables are exact)",
                "network pruning (_prune_bayesian_model) and the junction-tree calibration behind BeliefPropagation are "
                "covered here only through the checker on their final answers (their own theorems: C01, C02)",
                "pandas drop_duplicates/merge inside BayesianNetwork.predict"]
ASSUMPTIONS = ["variable and state names are interned by the harness: the model speaks variable ids and state numbers",
               "the axis order of the final table (set-iteration order in pgmpy) is an explicit parameter of the model; "
               "the harness reads it off the insertion order of the returned dict"]

HEURISTICS = ["MinFill", "MinNeighbors", "MinWeight", "WeightedMinFill"]
NEAR = 1e-9


# ------------------------------------------------------------------ names
def mk_name(spec):
    k, v = spec
    if k == "t":
        return tuple(v)
    return v


def name_specs(rng, n, style):
    """n distinct hashable names as JSON-able specs"""
    if style == "str":
        pool = ["A", "B", "C", "D", "E", "F", "G", "H", "I", "J", "K"]
        rng.shuffle(pool)
        return [["s", x] for x in pool[:n]]
    if style == "int":
        pool = list(range(0, n + 3))
        rng.shuffle(pool)
        return [["i", x] for x in pool[:n]]
    if style == "tuple":
        return [["t", ["v", i]] for i in rng.sample(range(n + 3), n)]
    if style == "bigint":
        return [["i", 1000 + 37 * i] for i in rng.sample(range(n + 4), n)]
    if style == "substr":
        # one name a substring of another, the virtual-evidence prefix "__", keyword-like names, digit strings
        pool = ["x1", "x10", "x", "x11", "G", "G2", "__x1", "__G", "x1_", "phi_x", "1", "0", "variables", "evidence"]
        head = rng.choice([["x1", "x10", "__x1"], ["G", "G2", "__G"], ["x", "x1", "x11"]])
        rest = [q for q in pool if q not in head]
        rng.shuffle(rest)
        names = (head + rest)[:n]
        rng.shuffle(names)
        return [["s", x] for x in names]
    pool = [["s", "x"], ["i", 0], ["t", ["t", 1]], ["s", "y"], ["i", 7], ["s", "zz"], ["i", 3], ["t", ["u", 2]], ["s", "w"],
            ["i", 11], ["s", "q"]]
    rng.shuffle(pool)
    return pool[:n]


def state_specs(rng, card, style):
    if style == "bool" and card == 2:
        p = [True, False]
        rng.shuffle(p)
        return [["b", x] for x in p]
    if style == "bool":
        style = "intperm"
    if style == "int":          # plain 0..card-1
        return [["i", i] for i in range(card)]
    if style == "intperm":      # permuted integers: name != number
        p = list(range(card))
        rng.shuffle(p)
        return [["i", i] for i in p]
    if style == "intoff":
        off = rng.choice([1, 5, -2, 300, 70000])
        p = [i + off for i in range(card)]
        rng.shuffle(p)
        return [["i", i] for i in p]
    if style == "str":
        pool = ["lo", "hi", "mid", "off", "a", "b", "zz", "0", "1"]
        rng.shuffle(pool)
        return [["s", x] for x in pool[:card]]
    if style == "tuple":
        return [["t", ["s", i]] for i in rng.sample(range(card + 2), card)]
    pool = [["s", "u"], ["i", 1], ["t", ["p", 0]], ["i", 0], ["s", "1"], ["t", ["q", 1]]]
    rng.shuffle(pool)
    return pool[:card]


STATE_STYLES = ["int", "intperm", "intoff", "str", "tuple", "mixed", "bool"]


# ------------------------------------------------------------------ numbers
def fr(p):
    return Fraction(p[0], p[1])


def jf(x):
    return [x.numerator, x.denominator]


def column(rng, card):
    """one CPD column of exact dyadics"""
    kind = rng.random()
    if card == 1:
        return [Fraction(1)]
    if kind < 0.15:     # deterministic
        k = rng.randrange(card)
        return [Fraction(int(i == k)) for i in range(card)]
    if kind < 0.30 and card in (2, 4):    # uniform (ties)
        return [Fraction(1, card)] * card
    if kind < 0.45:     # two tied maxima
        if card == 2:
            return [Fraction(1, 2), Fraction(1, 2)]
        if card == 3:
            c = [Fraction(3, 8), Fraction(3, 8), Fraction(1, 4)]
        else:
            c = [Fraction(3, 8), Fraction(3, 8), Fraction(1, 8), Fraction(1, 8)]
        rng.shuffle(c)
        return c
    return common.rand_column(rng, card, zeros=True)


def shape_dag(rng, n, shape):
    nodes = list(range(n))
    rng.shuffle(nodes)
    e = []
    if shape == "chain":
        e = [(nodes[i], nodes[i + 1]) for i in range(n - 1)]
    elif shape == "fork" and n >= 2:
        e = [(nodes[0], nodes[i]) for i in range(1, n)]
    elif shape == "collider" and n >= 2:
        e = [(nodes[i], nodes[0]) for i in range(1, min(n, 4))]
        e += [(nodes[0], nodes[i]) for i in range(4, n)]
    elif shape == "diamond" and n >= 4:
        a, b, c, d = nodes[:4]
        e = [(a, b), (a, c), (b, d), (c, d)] + [(d, x) for x in nodes[4:]]
    elif shape == "twoparts" and n >= 3:
        h = n // 2
        e = [(nodes[i], nodes[i + 1]) for i in range(h - 1)] + [(nodes[i], nodes[i + 1]) for i in range(h, n - 1)]
    elif shape == "empty":
        e = []
    else:
        return common.rand_dag(rng, n)
    rng.shuffle(e)
    return nodes, e


def gen_bn(rng, nmax, space_max):
    while True:
        n = rng.choice([k for k in [1, 2, 2, 3, 3, 3, 4, 4, 4, 5, 5, 5, 6, 6, 7] if k <= nmax])
        shape = rng.choice(["rand", "rand", "rand", "chain", "fork", "collider", "diamond", "twoparts", "empty"])
        nodes, edges = shape_dag(rng, n, shape)
        cards = [rng.choice([1, 2, 2, 2, 3, 3, 4]) for _ in range(n)]
        sp = 1
        for c in cards:
            sp *= c
        # bound the joint space and the CPD size
        if sp > space_max:
            continue
        parents = {v: [u for (u, w) in edges if w == v] for v in range(n)}
        if any(len(parents[v]) > 3 for v in range(n)):
            continue
        break
    for v in parents:
        rng.shuffle(parents[v])
    cpds = []
    for v in nodes:
        ncol = 1
        for p in parents[v]:
            ncol *= cards[p]
        cols = [column(rng, cards[v]) for _ in range(ncol)]
        rows = [[jf(cols[j][i]) for j in range(ncol)] for i in range(cards[v])]
        cpds.append({"v": v, "pa": parents[v], "rows": rows})
    vstyle = rng.choice(["str", "substr", "int", "bigint", "tuple", "mixed"])
    return {"kind": "bn", "n": n, "nodes": nodes, "edges": [list(e) for e in edges], "cards": cards, "cpds": cpds,
            "shape": shape, "vstyle": vstyle, "vnames": name_specs(rng, n, vstyle),
            "states": [state_specs(rng, cards[v], rng.choice(STATE_STYLES)) for v in range(n)],
            "qseed": rng.randint(0, 10 ** 9)}


def gen_trap(rng):
    """A -> B (-> C): marginal MAP of A differs from the A-component of the most probable explanation"""
    cb = rng.choice([2, 3, 4])
    p0 = Fraction(rng.choice([6, 7]), 16)             # P(A=a0) < 1/2
    flip = rng.random() < 0.5
    pa = [p0, 1 - p0]
    k = rng.randrange(cb)
    det = [Fraction(int(i == k)) for i in range(cb)]
    spread = {2: [Fraction(1, 2)] * 2, 3: [Fraction(3, 8), Fraction(3, 8), Fraction(1, 4)],
              4: [Fraction(1, 4)] * 4}[cb]
    spread = list(spread)
    rng.shuffle(spread)
    colsB = [det, spread]
    if flip:
        pa.reverse()
        colsB.reverse()
    cards = [2, cb]
    cpds = [{"v": 0, "pa": [], "rows": [[jf(pa[0])], [jf(pa[1])]]},
            {"v": 1, "pa": [0], "rows": [[jf(colsB[j][i]) for j in range(2)] for i in range(cb)]}]
    edges = [[0, 1]]
    n = 2
    if rng.random() < 0.5:
        cc = rng.choice([2, 3])
        cols = [column(rng, cc) for _ in range(cb)]
        cpds.append({"v": 2, "pa": [1], "rows": [[jf(cols[j][i]) for j in range(cb)] for i in range(cc)]})
        cards.append(cc)
        edges.append([1, 2])
        n = 3
    vstyle = rng.choice(["str", "int", "mixed"])
    return {"kind": "bn", "n": n, "nodes": list(range(n)), "edges": edges, "cards": cards, "cpds": cpds, "shape": "trap",
            "vstyle": vstyle, "vnames": name_specs(rng, n, vstyle),
            "states": [state_specs(rng, cards[v], rng.choice(STATE_STYLES)) for v in range(n)],
            "qseed": rng.randint(0, 10 ** 9)}


def gen_mn(rng, nmax):
    while True:
        n = rng.randint(1, nmax)
        cards = [rng.choice([1, 2, 2, 3, 3, 4]) for _ in range(n)]
        sp = 1
        for c in cards:
            sp *= c
        if sp <= 600:
            break
    und = [(i, j) for i in range(n) for j in range(i + 1, n) if rng.random() < rng.choice([0.3, 0.5, 0.8])]
    scopes = []
    for (i, j) in und:
        scopes.append([i, j] if rng.random() < 0.5 else [j, i])
    # a triangle factor when there is one
    for (i, j, k) in itertools.combinations(range(n), 3):
        if (i, j) in und and (j, k) in und and (i, k) in und and rng.random() < 0.5:
            s = [i, j, k]
            rng.shuffle(s)
            scopes.append(s)
            break
    covered = {v for s in scopes for v in s}
    for v in range(n):
        if v not in covered or rng.random() < 0.3:
            scopes.append([v])
    # a second factor on an existing scope (different axis order); values made distinct below
    if scopes and rng.random() < 0.3:
        s = list(rng.choice(scopes))
        rng.shuffle(s)
        scopes.append(s)
    rng.shuffle(scopes)
    facs = []
    seen = set()
    for s in scopes:
        size = 1
        for v in s:
            size *= cards[v]
        while True:
            vals = [Fraction(rng.choice([0, 1, 1, 2, 2, 3, 4, 5, 6, 8]), rng.choice([1, 2, 4, 8])) for _ in range(size)]
            if all(x == 0 for x in vals):
                continue
            key = canon_table(s, vals, cards)
            if key not in seen:
                seen.add(key)
                break
        facs.append({"vars": s, "vals": [jf(x) for x in vals]})
    # an EQUAL copy of one factor (the engine must count both: working factors are tagged by identity)
    if facs and rng.random() < 0.25:
        f = rng.choice(facs)
        facs.append({"vars": list(f["vars"]), "vals": list(f["vals"])})
    vstyle = rng.choice(["str", "substr", "int", "bigint", "tuple", "mixed"])
    return {"kind": "mn", "n": n, "edges": [list(e) for e in und], "cards": cards, "factors": facs, "vstyle": vstyle,
            "vnames": name_specs(rng, n, vstyle),
            "states": [state_specs(rng, cards[v], rng.choice(STATE_STYLES)) for v in range(n)],
            "qseed": rng.randint(0, 10 ** 9)}


def canon_table(scope, vals, cards):
    """table as a sorted tuple of (assignment in sorted-variable order, value): equal iff pgmpy's factors are equal"""
    shape = [cards[v] for v in scope]
    out = []
    for n, idx in enumerate(itertools.product(*[range(c) for c in shape])):
        a = tuple(i for _, i in sorted(zip(scope, idx)))
        out.append((a, vals[n]))
    return (tuple(sorted(scope)), tuple(sorted(out)))


def gen_prim(rng):
    k = rng.randint(0, 4)
    cards = [rng.choice([1, 2, 3, 4, 5]) for _ in range(k)]
    size = 1
    for c in cards:
        size *= c
    pool = [Fraction(rng.randint(0, 16), 16) for _ in range(rng.randint(1, 4))]
    vals = [rng.choice(pool) if rng.random() < 0.7 else Fraction(rng.randint(0, 64), 64) for _ in range(size)]
    idxs = [rng.randrange(size) for _ in range(4)] + [size - 1, 0, size, size + rng.randint(1, 5)]
    return {"kind": "prim", "cards": cards, "vals": [jf(x) for x in vals], "idxs": idxs,
            "vnames": name_specs(rng, k, rng.choice(["str", "int", "tuple", "mixed"])),
            "states": [state_specs(rng, c, rng.choice(STATE_STYLES)) for c in cards]}


def cases(tier, seed):
    rng = random.Random(seed)
    out = []
    nb, nm, nt, npr = (260, 70, 40, 120) if tier == "quick" else (3200, 800, 300, 1500)
    nmax = 6 if tier == "quick" else 7
    space = 400 if tier == "quick" else 1200
    for _ in range(nb):
        out.append(gen_bn(rng, nmax, space))
    for _ in range(nt):
        out.append(gen_trap(rng))
        out.append(gen_maxsum(rng))
    for _ in range(nm):
        out.append(gen_mn(rng, 5 if tier == "quick" else 6))
    for _ in range(npr):
        out.append(gen_prim(rng))
    ns = 420 if tier == "quick" else 4200
    for i in range(ns):
        out.append(gen_session(rng, nmax, space, "bp" if i % 3 else "ve"))
    for _ in range(8 if tier == "quick" else 80):
        out.append(gen_wide(rng))
    for i in range(20 if tier == "quick" else 200):
        out.append(gen_mid(rng, n=9 if i % 4 == 0 else None, shape="chain" if i % 4 == 0 else None))
    for _ in range(30 if tier == "quick" else 300):
        out.append(make_extreme_bn(rng, gen_bn(rng, 5, 200)))
        out.append(make_extreme_mn(rng, gen_mn(rng, 4)))
    for i in range(36 if tier == "quick" else 300):
        out.append(gen_near(rng, runner_first=(i % 3 != 2)))
    for _ in range(24 if tier == "quick" else 240):
        out.append(make_decimal_bn(rng, gen_bn(rng, 5, 200)))
    # the torch backend for a share of the single-query, primitive and session cases
    for c in out:
        if c["kind"] in ("bn", "mn", "prim", "session") and rng.random() < 0.12:
            c["torch"] = True
    # a few cases that ALWAYS reach the listed open finding "torch-backend-float32-construction" (values that float32
    # flushes to zero, maximum not at the first index): the KNOWN-FINDING line is printed on every seed, and a change
    # of that behaviour is noticed
    for _ in range(3 if tier == "quick" else 10):
        out.append(gen_f32(rng))
    na = 110 if tier == "quick" else 1300
    for i in range(na):
        if i % 3 == 2:
            c = dict(gen_mn(rng, 5))
            c["base"] = "mn"
        else:
            r = rng.random()
            c = dict(gen_trap(rng) if r < 0.15 else (gen_maxsum(rng) if r < 0.4 else gen_bn(rng, min(nmax, 5), 300)))
            c["base"] = "bn"
        c["kind"] = "all"
        out.append(c)
    nu = 160 if tier == "quick" else 1600
    for _ in range(nu):
        out.append(gen_update(rng, nmax, space))
    for _ in range(nu // 4):
        c = dict(gen_mn(rng, 5))
        c["kind"] = "update-mn"
        out.append(c)
    rng.shuffle(out)
    return out


def gen_wide(rng):
    """9..10 variables (integer names up to 12, so sets of names no longer iterate in increasing order) whose joint
    MAP is asked for: the final table has >= 9 axes"""
    n = rng.choice([9, 10])
    cards = [2] * n
    for v in rng.sample(range(n), 2):
        cards[v] = 1
    order = list(range(n))
    rng.shuffle(order)
    edges, parents = [], {v: [] for v in range(n)}
    for i, v in enumerate(order):
        for u in rng.sample(order[:i], min(i, rng.choice([0, 1, 1, 2]))):
            edges.append([u, v])
            parents[v].append(u)
    rng.shuffle(edges)
    cpds = []
    nodes = list(range(n))
    rng.shuffle(nodes)
    for v in nodes:
        ncol = 1
        for p_ in parents[v]:
            ncol *= cards[p_]
        cols = [column(rng, cards[v]) for _ in range(ncol)]
        cpds.append({"v": v, "pa": parents[v], "rows": [[jf(cols[j][i]) for j in range(ncol)] for i in range(cards[v])]})
    names = list(range(13))
    rng.shuffle(names)
    return {"kind": "wide", "n": n, "nodes": nodes, "edges": edges, "cards": cards, "cpds": cpds, "shape": "wide",
            "vstyle": "int", "vnames": [["i", x] for x in names[:n]],
            "states": [state_specs(rng, cards[v], rng.choice(["int", "intperm", "str", "bool"])) for v in range(n)],
            "qseed": rng.randint(0, 10 ** 9)}


def make_extreme_bn(rng, c):
    """replace some CPD columns by columns with entries 2^-k (k up to 50), or columns that differ from 1/2 by 2^-41"""
    c = dict(c)
    cpds = []
    for d in c["cpds"]:
        card = len(d["rows"])
        ncol = len(d["rows"][0])
        rows = [list(r) for r in d["rows"]]
        for j in range(ncol):
            r = rng.random()
            if card >= 2 and r < 0.4:
                k = rng.choice([20, 40, 50])
                i0, i1 = rng.sample(range(card), 2)
                col = [Fraction(0)] * card
                col[i0] = Fraction(1, 2 ** k)
                col[i1] = 1 - Fraction(1, 2 ** k)
                for i in range(card):
                    rows[i][j] = jf(col[i])
            elif card == 2 and r < 0.55:
                e = Fraction(1, 2 ** 41)
                col = [Fraction(1, 2) + e, Fraction(1, 2) - e]
                rng.shuffle(col)
                for i in range(card):
                    rows[i][j] = jf(col[i])
        cpds.append({"v": d["v"], "pa": d["pa"], "rows": rows})
    c["cpds"] = cpds
    c["inexact"] = True
    c["shape"] = "extreme"
    return c


def make_decimal_bn(rng, c):
    """CPDs typed with two or three decimals whose columns do NOT sum to exactly 1 (0.995 / 1.005, inside check_model's
    0.01 tolerance).  All columns of one CPD share the same sum, so pruning a barren or d-separated node only rescales the
    joint by a constant and the MAP of the product of the tables as given is well defined."""
    c = dict(c)
    cpds = []
    for d in c["cpds"]:
        card = len(d["rows"])
        ncol = len(d["rows"][0])
        if card == 1 or rng.random() < 0.3:
            cpds.append(d)
            continue
        tot = rng.choice([995, 1005, 1000, 990 + 5])      # thousandths
        rows = [[None] * ncol for _ in range(card)]
        for j in range(ncol):
            while True:
                parts = [rng.choice([0, 10, 125, 250, 330, 335, 400, 495, 500, 660, 900]) for _ in range(card - 1)]
                last = tot - sum(parts)
                if last >= 0:
                    break
            col = parts + [last]
            rng.shuffle(col)
            for i in range(card):
                rows[i][j] = jf(Fraction(float(Fraction(col[i], 1000))))      # the float pgmpy will hold, exactly
        cpds.append({"v": d["v"], "pa": d["pa"], "rows": rows})
    c["cpds"] = cpds
    c["inexact"] = True
    c["shape"] = "decimals"
    return c


def make_extreme_mn(rng, c):
    """scale the factors by powers of two between 2^-280 and 2^280 (products stay inside the float range)"""
    c = dict(c)
    facs = []
    budget = 900
    for f in c["factors"]:
        k = rng.choice([-280, -150, -60, 0, 60, 150, 280])
        if abs(k) > budget:
            k = 0
        budget -= abs(k)
        sc = Fraction(2) ** k
        facs.append({"vars": f["vars"], "vals": [jf(fr(x) * sc) for x in f["vals"]]})
    c["factors"] = facs
    c["inexact"] = True
    return c


def gen_f32(rng):
    card = rng.choice([2, 3])
    k = rng.choice([200, 280])
    nums = sorted(rng.sample([1, 2, 3, 5, 7], card))           # strictly increasing: the maximum is the LAST state
    facs = [{"vars": [0], "vals": [jf(Fraction(x, 2 ** k)) for x in nums]}]
    return {"kind": "mn", "n": 1, "edges": [], "cards": [card], "factors": facs, "vstyle": "str",
            "vnames": name_specs(rng, 1, "str"), "states": [state_specs(rng, card, rng.choice(["str", "intperm"]))],
            "qseed": rng.randint(0, 10 ** 9), "inexact": True, "torch": True, "f32": True}


def gen_mid(rng, n=None, shape=None):
    """9..14 binary nodes: chain, random tree, caterpillar, or binary tree; sticky transitions, one skewed prior at a
    far end: the junction tree has >= 8 cliques and the MAP of a node at the other end depends on the far prior"""
    n = n or rng.choice([9, 9, 10, 11, 12, 13, 14])
    shape = shape or rng.choice(["chain", "chain", "tree", "caterpillar", "bintree"])
    parent = [None] * n
    if shape == "chain":
        for i in range(1, n):
            parent[i] = i - 1
    elif shape == "tree":
        for i in range(1, n):
            parent[i] = rng.randrange(max(0, i - 3), i)
    elif shape == "bintree":
        for i in range(1, n):
            parent[i] = (i - 1) // 2
    else:                                       # caterpillar: a spine with one leg per spine node
        spine = (n + 1) // 2
        for i in range(1, spine):
            parent[i] = i - 1
        for i in range(spine, n):
            parent[i] = i - spine
    sticky = [[Fraction(15, 16), Fraction(1, 16)], [Fraction(7, 8), Fraction(1, 8)], [Fraction(3, 4), Fraction(1, 4)]]
    cpds = []
    for v in range(n):
        if parent[v] is None:
            pr = rng.choice([[Fraction(1, 8), Fraction(7, 8)], [Fraction(1, 16), Fraction(15, 16)], [Fraction(3, 16), Fraction(13, 16)]])
            pr = list(pr)
            rng.shuffle(pr)
            cpds.append({"v": v, "pa": [], "rows": [[jf(pr[0])], [jf(pr[1])]]})
        else:
            a, b_ = rng.choice(sticky)
            flip = rng.random() < 0.25          # some links invert the state
            cols = [[a, b_], [b_, a]] if not flip else [[b_, a], [a, b_]]
            cpds.append({"v": v, "pa": [parent[v]], "rows": [[jf(cols[j][i]) for j in range(2)] for i in range(2)]})
    perm = list(range(n))
    if rng.random() < 0.7:
        rng.shuffle(perm)
    edges = [[perm[parent[v]], perm[v]] for v in range(1, n)]
    if rng.random() < 0.5:
        rng.shuffle(edges)
    cpds2 = [{"v": perm[d["v"]], "pa": [perm[p_] for p_ in d["pa"]], "rows": d["rows"]} for d in cpds]
    if rng.random() < 0.5:
        rng.shuffle(cpds2)
    nodes = list(range(n))
    if rng.random() < 0.5:
        rng.shuffle(nodes)
    depth = [0] * n
    for v in range(1, n):
        depth[v] = depth[parent[v]] + 1
    far = sorted(range(n), key=lambda v: -depth[v])[:3]          # the nodes farthest from the skewed prior
    vstyle = rng.choice(["int", "int", "str", "bigint"])
    if vstyle == "int":
        names = [["i", i] for i in range(n)]
        if rng.random() < 0.5:
            rng.shuffle(names)
    elif vstyle == "str":
        names = [["s", "N%d" % i] for i in range(n)]
    else:
        names = name_specs(rng, n, "bigint")
    return {"kind": "mid", "n": n, "nodes": nodes, "edges": edges, "cards": [2] * n, "cpds": cpds2, "shape": "mid-" + shape,
            "vstyle": vstyle, "vnames": names, "far": [perm[v] for v in far], "root": perm[0],
            "states": [state_specs(rng, 2, rng.choice(["int", "intperm", "str", "bool"])) for _ in range(n)],
            "qseed": rng.randint(0, 10 ** 9)}


def gen_near(rng, eps=None, runner_first=None, cs=None):
    """S -> X, S -> Y with evidence on X and Y: two states of S whose posteriors differ by a relative margin eps in
    {1e-5 .. 2e-9} (far above double round-off, at or below np.isclose's default tolerances), the runner-up either
    EARLIER or LATER in index order; eps = 0 gives an exact tie.  All numbers are the exact rationals of the floats."""
    eps = rng.choice([1e-5, 3e-6, 1e-6, 1e-7, 1e-8, 2e-9, 0.0]) if eps is None else eps
    runner_first = (rng.random() < 0.6) if runner_first is None else runner_first
    cs = cs or rng.choice([2, 2, 3])
    a, b_ = (0, 1) if cs == 2 else tuple(sorted(rng.sample(range(3), 2)))
    win, lose = (b_, a) if runner_first else (a, b_)          # the loser comes first in index order iff runner_first
    prior = [0.5, 0.5] if cs == 2 else [0.25, 0.25, 0.25]
    if cs == 3:
        prior = [0.375 if i in (a, b_) else 0.25 for i in range(3)]
    base = rng.choice([(0.3, 0.7), (0.25, 0.5), (0.4, 0.6), (0.125, 0.75)])
    lx = [0.0625] * cs
    ly = [0.0625] * cs
    lx[win], ly[win] = base[0], base[1] * (1.0 + eps)
    lx[lose], ly[lose] = base[1], base[0]
    ex, ey = rng.randrange(2), rng.randrange(2)

    def rows(l, e):
        r = [[None] * cs, [None] * cs]
        for j in range(cs):
            r[e][j] = jf(Fraction(l[j]))
            r[1 - e][j] = jf(Fraction(1.0 - l[j]))
        return r
    cpds = [{"v": 0, "pa": [], "rows": [[jf(Fraction(x))] for x in prior]},
            {"v": 1, "pa": [0], "rows": rows(lx, ex)}, {"v": 2, "pa": [0], "rows": rows(ly, ey)}]
    rng.shuffle(cpds)
    edges = [[0, 1], [0, 2]]
    rng.shuffle(edges)
    nodes = [0, 1, 2]
    rng.shuffle(nodes)
    vstyle = rng.choice(["str", "int", "substr"])
    return {"kind": "near", "n": 3, "nodes": nodes, "edges": edges, "cards": [cs, 2, 2], "cpds": cpds, "shape": "near",
            "vstyle": vstyle, "vnames": name_specs(rng, 3, vstyle), "ev": [[1, ex], [2, ey]], "eps": eps,
            "runner_first": bool(runner_first),
            "states": [state_specs(rng, c_, rng.choice(["int", "intperm", "str"])) for c_ in [cs, 2, 2]],
            "qseed": rng.randint(0, 10 ** 9), "inexact": True}


def gen_update(rng, nmax, space):
    """a network whose CPDs are REPLACED on the same model object between rounds of queries"""
    while True:
        r = rng.random()
        c = gen_trap(rng) if r < 0.15 else (gen_maxsum(rng) if r < 0.45 else gen_bn(rng, min(nmax, 5), space))
        if c["n"] >= 1:
            break
    c = dict(c)
    if rng.random() < 0.35:     # all-string names: the variant that can also be re-fitted from a data frame
        c["vstyle"] = "str"
        c["vnames"] = name_specs(rng, c["n"], "str")
        c["states"] = [state_specs(rng, c["cards"][v], "str") for v in range(c["n"])]
    c["kind"] = "update"
    c["rounds"] = rng.randint(2, 3)
    return c


def gen_maxsum(rng):
    """tree-shaped network on which max-product and sum-product tables rank states differently: near-uniform but
    untied priors, every child CPD mixing deterministic and spread-out columns (max_c P(c|b) is 1 for some b and
    1/card for others)"""
    n = rng.randint(3, 5)
    cards = [rng.choice([2, 2, 3, 3, 4]) for _ in range(n)]
    parent = [None] + [rng.randrange(i) for i in range(1, n)]
    cpds = []
    for v in range(n):
        c = cards[v]
        if parent[v] is None:
            base = {2: [7, 9], 3: [5, 5, 6], 4: [4, 4, 3, 5]}[c]
            rng.shuffle(base)
            cpds.append({"v": v, "pa": [], "rows": [[jf(Fraction(base[i], 16))] for i in range(c)]})
            continue
        pc = cards[parent[v]]
        kinds = ["det", "spread"] + [rng.choice(["det", "spread", "rand"]) for _ in range(pc - 2)]
        rng.shuffle(kinds)
        cols = []
        for kd in kinds:
            if kd == "det":
                k = rng.randrange(c)
                cols.append([Fraction(int(i == k)) for i in range(c)])
            elif kd == "spread":
                col = {2: [Fraction(1, 2)] * 2, 3: [Fraction(3, 8), Fraction(3, 8), Fraction(1, 4)],
                       4: [Fraction(1, 4)] * 4}[c]
                col = list(col)
                rng.shuffle(col)
                cols.append(col)
            else:
                cols.append(common.rand_column(rng, c, zeros=True))
        cpds.append({"v": v, "pa": [parent[v]], "rows": [[jf(cols[j][i]) for j in range(pc)] for i in range(c)]})
    # relabel so that node ids are not in topological order
    perm = list(range(n))
    rng.shuffle(perm)
    edges = [[perm[parent[v]], perm[v]] for v in range(1, n)]
    rng.shuffle(edges)
    cards2 = [0] * n
    for v in range(n):
        cards2[perm[v]] = cards[v]
    cpds2 = [{"v": perm[d["v"]], "pa": [perm[p] for p in d["pa"]], "rows": d["rows"]} for d in cpds]
    rng.shuffle(cpds2)
    nodes = list(range(n))
    rng.shuffle(nodes)
    vstyle = rng.choice(["str", "substr", "int", "bigint", "tuple", "mixed"])
    return {"kind": "bn", "n": n, "nodes": nodes, "edges": edges, "cards": cards2, "cpds": cpds2, "shape": "maxsum",
            "vstyle": vstyle, "vnames": name_specs(rng, n, vstyle),
            "states": [state_specs(rng, cards2[v], rng.choice(STATE_STYLES)) for v in range(n)],
            "qseed": rng.randint(0, 10 ** 9)}


def gen_session(rng, nmax, space, engine):
    """a network + ONE long-lived engine + a sequence of 2..6 public calls on it"""
    while True:
        r = rng.random()
        c = gen_trap(rng) if r < 0.15 else (gen_maxsum(rng) if r < 0.6 else gen_bn(rng, nmax, space))
        if engine == "bp" and not (c["n"] >= 2 and connected(c)):
            continue
        break
    c = dict(c)
    c["kind"] = "session"
    c["engine"] = engine
    c["nsteps"] = rng.randint(2, 6)
    return c


def shrink(case):
    if case["kind"] == "session" and case["nsteps"] > 1:
        c = dict(case)
        c["nsteps"] = case["nsteps"] - 1
        yield c
    if case["kind"] == "update" and case["rounds"] > 1:
        c = dict(case)
        c["rounds"] = case["rounds"] - 1
        yield c
    if case["kind"] in ("bn", "session", "update"):
        # drop a leaf node (keeps the rest a valid network)
        n = case["n"]
        for v in range(n):
            if any(e[0] == v for e in case["edges"]) or n == 1:
                continue
            keep = [u for u in range(n) if u != v]
            ren = {u: i for i, u in enumerate(keep)}
            c = dict(case)
            c["n"] = n - 1
            c["nodes"] = [ren[u] for u in case["nodes"] if u != v]
            c["edges"] = [[ren[a], ren[b]] for a, b in case["edges"] if b != v]
            c["cards"] = [case["cards"][u] for u in keep]
            c["cpds"] = [{"v": ren[d["v"]], "pa": [ren[p] for p in d["pa"]], "rows": d["rows"]} for d in case["cpds"] if d["v"] != v]
            c["vnames"] = [case["vnames"][u] for u in keep]
            c["states"] = [case["states"][u] for u in keep]
            yield c
        for s in range(1, 6):
            c = dict(case)
            c["qseed"] = case["qseed"] + s
            yield c
    elif case["kind"] == "mn":
        for i in range(len(case["factors"])):
            rest = case["factors"][:i] + case["factors"][i + 1:]
            if {v for f in rest for v in f["vars"]} == set(range(case["n"])):
                c = dict(case)
                c["factors"] = rest
                yield c


# ------------------------------------------------------------------ building pgmpy objects
class Net:
    """names, state lists, exact factor list (model side) for a case"""

    def __init__(self, case):
        self.case = case
        self.n = case["n"] if "n" in case else len(case["cards"])
        self.cards = case["cards"]
        self.vn = [mk_name(s) for s in case["vnames"]]
        self.st = [[mk_name(s) for s in sl] for sl in case["states"]]
        self.vid = {self._k(nm): i for i, nm in enumerate(self.vn)}

    @staticmethod
    def _k(x):
        return (type(x).__name__, repr(x))

    def var_of(self, name):
        return self.vid[self._k(name)]

    def state_no(self, v, name):
        """position of a returned state name among v's states; None when it is not a state name of v"""
        for i, s in enumerate(self.st[v]):
            if type(s) is type(name) and s == name:
                return i
        for i, s in enumerate(self.st[v]):      # numpy scalars for integer / boolean names
            if isinstance(s, bool) != (isinstance(name, bool) or type(name).__name__ in ("bool_", "bool")):
                continue
            if not isinstance(s, (str, tuple)) and not isinstance(name, (str, tuple)):
                try:
                    if s == name and int(name) == s:
                        return i
                except Exception:
                    pass
        return None


def fresh(x):
    """an equal but not identical object (strings, tuples, big ints are rebuilt at run time)"""
    if isinstance(x, bool):
        return x
    if isinstance(x, str):
        return "".join(list(x)) if len(x) > 1 else x
    if isinstance(x, tuple):
        return tuple(fresh(e) for e in x)
    if isinstance(x, int):
        return int(str(x))
    return x


def build_bn(net):
    from pgmpy.models import BayesianNetwork
    from pgmpy.factors.discrete import TabularCPD
    case = net.case
    bn = BayesianNetwork()
    for v in case["nodes"]:
        bn.add_node(fresh(net.vn[v]))
    bn.add_edges_from([(fresh(net.vn[a]), fresh(net.vn[b])) for a, b in case["edges"]])
    fs = []
    for d in case["cpds"]:
        v, pa = d["v"], d["pa"]
        rows = [[float(fr(x)) for x in r] for r in d["rows"]]
        sn = {fresh(net.vn[u]): [fresh(x) for x in net.st[u]] for u in [v] + pa}
        cpd = TabularCPD(fresh(net.vn[v]), net.cards[v], rows, evidence=[fresh(net.vn[p]) for p in pa] or None,
                         evidence_card=[net.cards[p] for p in pa] or None, state_names=sn)
        bn.add_cpds(cpd)
        fs.append([[v] + pa, [fr(x) for r in d["rows"] for x in r]])
    bn.check_model()
    return bn, fs


def build_mn(net):
    from pgmpy.models import MarkovNetwork
    from pgmpy.factors.discrete import DiscreteFactor
    case = net.case
    mn = MarkovNetwork()
    for v in range(net.n):
        mn.add_node(fresh(net.vn[v]))
    mn.add_edges_from([(fresh(net.vn[a]), fresh(net.vn[b])) for a, b in case["edges"]])
    fs = []
    for f in case["factors"]:
        s = f["vars"]
        vals = [fr(x) for x in f["vals"]]
        phi = DiscreteFactor([fresh(net.vn[v]) for v in s], [net.cards[v] for v in s], [float(x) for x in vals],
                             state_names={fresh(net.vn[v]): [fresh(x) for x in net.st[v]] for v in s})
        mn.add_factors(phi)
        fs.append([list(s), vals])
    mn.check_model()
    return mn, fs


# ------------------------------------------------------------------ judging one answer
class Judge:
    """everything known about one (factor list, Q, evidence) query, with cached checker verdicts"""

    def __init__(self, drv, net, fs, Q, ev, norm):
        self.drv, self.net, self.fs, self.Q, self.ev, self.norm = drv, net, fs, list(Q), dict(ev), norm
        self.evp = sorted(ev.items())
        self.w = [common.frac(x) for x in drv.call("c03_weights", [net.cards, fs, self.Q, self.evp])]
        self.maxw = max(self.w)
        self.near = [i for i, x in enumerate(self.w) if x >= self.maxw * (1 - Fraction(1, 10 ** 9))]
        self.unique = len(self.near) == 1
        self.exact_ties = sum(1 for x in self.w if x == self.maxw)
        self.cache = {}
        others = set()
        for f in fs:
            others.update(f[0])
        self.rest = sorted(others - set(self.Q) - set(ev))
        self.model_cache = {}

    def flat(self, r):
        i = 0
        for v in self.Q:
            i = i * self.net.cards[v] + r[v]
        return i

    def model(self, axes):
        key = tuple(axes) if axes is not None else None
        if key not in self.model_cache:
            st, m = self.drv.call_e("c03_map", [self.net.cards, self.fs, self.evp, self.rest,
                                                [list(axes)] if axes is not None else [], self.norm])
            self.model_cache[key] = (st, m)
        return self.model_cache[key]

    def judge(self, res, where, strict_ties):
        """res: the dict returned by pgmpy.  -> None | bad(...)"""
        net = self.net
        info = {"where": where, "Q": self.Q, "evidence": self.evp, "result": repr(res)}
        if not isinstance(res, dict):
            return bad("impl!=spec:result-not-a-dict", info)
        try:
            got_vars = [net.var_of(k) for k in res.keys()]
        except KeyError:
            return bad("impl!=spec:unknown-variable-assigned", info)
        if sorted(got_vars) != sorted(self.Q):
            return bad("impl!=spec:wrong-variables-assigned", info)
        r = {}
        for k, val in res.items():
            v = net.var_of(k)
            s = net.state_no(v, val)
            if s is None:
                info["variable"] = v
                info["states"] = repr(net.st[v])
                return bad("impl!=spec:not-a-state-name", info)
            r[v] = s
        key = tuple(sorted(r.items()))
        if key not in self.cache:
            self.cache[key] = bool(self.drv.call("c03_chk", [net.cards, self.fs, self.Q, self.evp,
                                                             [[v, r[v]] for v in got_vars]]))
        info["result_ids"] = key
        info["weight"] = str(self.w[self.flat(r)])
        info["max_weight"] = str(self.maxw)
        if not self.cache[key]:
            if self.flat(r) in self.near:
                return "near"
            return bad("impl!=spec:not-a-maximiser", info)
        st, m = self.model(None)
        if st != "ok":
            return bad("impl!=model:model-undefined", dict(info, model=[st, m]))
        if self.unique:
            if sorted(map(tuple, m)) != list(key):
                return bad("impl!=model:unique-maximum-differs", dict(info, model=m))
        elif strict_ties:
            st, m2 = self.model(got_vars)
            if st != "ok" or [tuple(x) for x in m2] != [(v, r[v]) for v in got_vars]:
                return bad("impl!=model:tie-break-differs", dict(info, model=[st, m2], axes=got_vars))
        return None


def pos_state(rng, net, fs_cpds):
    """a full joint state of positive probability (forward sampling over the exact CPDs)"""
    case = net.case
    state = {}
    order = topo(case)
    byv = {d["v"]: d for d in case["cpds"]}
    for v in order:
        d = byv[v]
        col = 0
        for p in d["pa"]:
            col = col * net.cards[p] + state[p]
        pos = [i for i in range(net.cards[v]) if fr(d["rows"][i][col]) > 0]
        state[v] = rng.choice(pos)
    return state


def topo(case):
    n = case["n"]
    indeg = {v: 0 for v in range(n)}
    for a, b in case["edges"]:
        indeg[b] += 1
    out = []
    stack = sorted(v for v in range(n) if indeg[v] == 0)
    while stack:
        v = stack.pop()
        out.append(v)
        for a, b in case["edges"]:
            if a == v:
                indeg[b] -= 1
                if indeg[b] == 0:
                    stack.append(b)
    return out


def connected(case):
    n = case["n"]
    adj = {v: set() for v in range(n)}
    for a, b in case["edges"]:
        adj[a].add(b)
        adj[b].add(a)
    seen = {0}
    st = [0]
    while st:
        v = st.pop()
        for u in adj[v]:
            if u not in seen:
                seen.add(u)
                st.append(u)
    return len(seen) == n


# ------------------------------------------------------------------ Bayesian networks
def as_container(rng, names, tags, kinds=("list", "list", "tuple", "set", "frozenset", "keys")):
    """the query variables as a list, tuple, set, frozenset or dict-keys view (predict itself passes a set)"""
    k = rng.choice(list(kinds))
    tags.append("variables-as=" + k)
    if k == "list":
        return list(names)
    if k == "tuple":
        return tuple(names)
    if k == "set":
        return set(names)
    if k == "frozenset":
        return frozenset(names)
    return {x: None for x in names}.keys()


def as_order_container(rng, names, tags, homog):
    """an explicit elimination order as a list, a tuple, a numpy object array or a pandas Index ('list (array-like)')"""
    import numpy as np
    import pandas as pd
    k = rng.choice(["list", "tuple", "ndarray", "index"])
    if k in ("ndarray", "index") and not (homog and len(names) >= 1):
        k = "tuple"                      # array-likes only make sense for names of one plain type (all str / all int)
    tags.append("order-as=" + k)
    if k == "list":
        return list(names)
    if k == "tuple":
        return tuple(names)
    if k == "ndarray":
        a = np.empty(len(names), dtype=object)
        for i, x in enumerate(names):
            a[i] = x
        return a
    return pd.Index(list(names), dtype=object)


def purity_snapshot(variables, evidence, virt, order):
    """deep, order-sensitive picture of the caller's arguments"""
    def tab(c):
        import numpy as np
        vals = c.values
        vals = vals.detach().cpu().numpy() if hasattr(vals, "detach") else np.asarray(vals)
        return (type(c).__name__, repr(list(c.variables)), repr(list(c.cardinality)), vals.reshape(-1).tolist(),
                repr(sorted(((repr(k), repr(v)) for k, v in c.state_names.items()))))
    return repr((list(variables) if variables is not None else None,
                 list(evidence.items()) if evidence is not None else None,
                 [tab(c) for c in virt] if virt is not None else None,
                 order if (order is None or isinstance(order, str)) else list(order)))


def run_bn(case, drv):
    from pgmpy.inference import VariableElimination, BeliefPropagation
    from pgmpy.factors.discrete import TabularCPD, DiscreteFactor
    net = Net(case)
    bn, fs = build_bn(net)
    rng = random.Random(case["qseed"])
    n = net.n
    tags = ["bn n=%d" % n, "shape=" + case["shape"], "vnames=" + case["vstyle"]]
    nontrivial = False
    conn = connected(case) and n >= 2
    nq = 0
    n_ev_sets = 3 if n > 1 else 1
    for evi in range(n_ev_sets):
        full = pos_state(rng, net, fs)
        k = 0 if evi == 0 else rng.randint(0, n - 1)
        E = rng.sample(range(n), k)
        ev = {v: full[v] for v in E}
        free = [v for v in range(n) if v not in ev]
        # virtual evidence on some non-evidence variables (any variable name type)
        virt = {}
        if rng.random() < 0.35 and free:
            for v in rng.sample(free, rng.randint(1, min(2, len(free)))):
                wts = [Fraction(rng.choice([0, 1, 2, 3, 4, 6, 8]), 8) for _ in range(net.cards[v])]
                wts[full[v]] = max(wts[full[v]], Fraction(1, 8))     # keeps P(e) > 0
                virt[v] = wts
        fsq = fs + [[[v], virt[v]] for v in sorted(virt)]
        subsets = [list(c) for r in range(1, len(free) + 1) for c in itertools.combinations(free, r)]
        if len(subsets) > 12:
            subsets = rng.sample(subsets, 12)
        for Q in subsets:
            rng.shuffle(Q)
            J = Judge(drv, net, fsq, Q, ev, True)
            if J.maxw <= 0:
                return bad("harness:evidence-has-zero-mass", {"Q": Q, "ev": ev})
            qspace = len(J.w)
            if J.rest and qspace >= 2:
                nontrivial = True
            tags.append("ties=%s" % ("unique" if J.unique else ("exact" if J.exact_ties > 1 else "near")))
            tags.append("|Q|=%d |E|=%d |rest|=%d" % (len(Q), len(ev), len(J.rest)))
            evn = {net.vn[v]: net.st[v][s] for v, s in ev.items()}
            Qn = [net.vn[v] for v in Q]

            def vev():
                # TabularCPD or (equally documented) a one-variable DiscreteFactor; [] when there is none, sometimes
                out = []
                for v in sorted(virt):
                    if rng.random() < 0.7:
                        out.append(TabularCPD(net.vn[v], net.cards[v], [[float(x)] for x in virt[v]],
                                              state_names={net.vn[v]: list(net.st[v])}))
                    else:
                        out.append(DiscreteFactor([net.vn[v]], [net.cards[v]], [float(x) for x in virt[v]],
                                                  state_names={net.vn[v]: list(net.st[v])}))
                return out or None

            def evarg():
                # None and {} are both "no evidence"
                return dict(evn) if (evn or rng.random() < 0.3) else None

            # --- the elimination engine, two order options per query
            perm = list(J.rest)
            rng.shuffle(perm)
            opts = rng.sample(HEURISTICS + [None, "explicit"], 2)
            for eo in opts:
                eo_arg = [net.vn[v] for v in perm] if eo == "explicit" else eo
                ve = VariableElimination(bn)
                a_vars, a_ev, a_virt = as_container(rng, Qn, tags), evarg(), vev()
                if eo == "explicit":
                    eo_arg = as_order_container(rng, eo_arg, tags,
                                                all(type(x) is str for x in net.vn) or all(type(x) is int for x in net.vn))
                snap = purity_snapshot(a_vars, a_ev, a_virt, eo_arg)
                res = ve.map_query(variables=a_vars, evidence=a_ev, virtual_evidence=a_virt,
                                   elimination_order=eo_arg, show_progress=rng.random() < 0.1)
                if purity_snapshot(a_vars, a_ev, a_virt, eo_arg) != snap:
                    return bad("impl!=spec:argument-mutated", {"where": "VE.map_query", "before": snap,
                                                               "after": purity_snapshot(a_vars, a_ev, a_virt, eo_arg)})
                if rng.random() < 0.15:
                    # the same argument objects reused for a second call on a fresh engine
                    res2 = VariableElimination(bn).map_query(variables=a_vars, evidence=a_ev, virtual_evidence=a_virt,
                                                             elimination_order=eo_arg, show_progress=False)
                    b = J.judge(res2, "VE.map_query with reused argument objects", strict_ties=not case.get("inexact"))
                    tags.append("arguments-reused")
                    if b and b != "near":
                        return b
                nq += 1
                b = J.judge(res, "VE.map_query elimination_order=%s virt=%s" % (eo, sorted(virt)),
                            strict_ties=not case.get("inexact"))
                tags.append("VE order=%s" % eo)
                if b == "near":
                    tags.append("near-tie-accepted")
                elif b:
                    return b
            if virt:
                tags.append("virtual-evidence")
            # --- belief propagation
            if conn and rng.random() < 0.5:
                bp = BeliefPropagation(bn)
                # (BeliefPropagation._query recognises list / tuple / set only; anything else is taken for ONE variable)
                a_vars, a_ev, a_virt = as_container(rng, Qn, tags, ("list", "tuple", "set")), evarg(), vev()
                snap = purity_snapshot(a_vars, a_ev, a_virt, None)
                res = bp.map_query(variables=a_vars, evidence=a_ev, virtual_evidence=a_virt,
                                   show_progress=rng.random() < 0.1)
                if purity_snapshot(a_vars, a_ev, a_virt, None) != snap:
                    return bad("impl!=spec:argument-mutated", {"where": "BP.map_query", "before": snap,
                                                               "after": purity_snapshot(a_vars, a_ev, a_virt, None)})
                nq += 1
                b = J.judge(res, "BP.map_query virt=%s" % sorted(virt), strict_ties=False)
                tags.append("BP")
                if b == "near":
                    tags.append("near-tie-accepted")
                elif b:
                    return b
            # --- max_marginal (engine with operation=maximize on the pruned network, normalised)
            if not virt and rng.random() < 0.3:
                b = check_max_marginal_bn(drv, net, bn, Q, ev, Qn, evn, rng)
                tags.append("max_marginal")
                if b:
                    return b
    # --- predict on a small frame
    b = run_predict(case, drv, net, bn, fs, rng, tags)
    if b:
        return b
    tags.append("queries=%d" % (nq // 10 * 10))
    return ok(nontrivial=nontrivial, key=common.canon_key(["bn", case["edges"], case["cards"], case["cpds"],
                                                            case["vnames"], case["states"], case["qseed"]]), tags=tags)


def to_np(x):
    import numpy as np
    return x.detach().cpu().numpy() if hasattr(x, "detach") else np.asarray(x)


def exact_factor(net, phi):
    """a pgmpy DiscreteFactor -> [var ids, exact values]"""
    vs = [net.var_of(x) for x in phi.variables]
    vals = [Fraction(float(x)) for x in to_np(phi.values).reshape(-1)]
    return [vs, vals]


def check_max_marginal_bn(drv, net, bn, Q, ev, Qn, evn, rng):
    from pgmpy.inference import VariableElimination
    ve = VariableElimination(bn)
    red, ev2 = ve._prune_bayesian_model(list(Qn), dict(evn))
    fs2 = [exact_factor(net, c.to_factor()) for c in red.cpds]
    ev2p = sorted((net.var_of(k), net.state_no(net.var_of(k), s)) for k, s in ev2.items())
    rest = sorted({v for f in fs2 for v in f[0]} - set(Q) - {v for v, _ in ev2p})
    rng.shuffle(rest)
    eo = rng.choice(HEURISTICS + ["explicit"])
    got = VariableElimination(bn).max_marginal(variables=list(Qn), evidence=dict(evn) or None,
                                               elimination_order=[net.vn[v] for v in rest] if eo == "explicit" else eo,
                                               show_progress=False)
    st, m = drv.call_e("c03_maxmarg", [net.cards, fs2, ev2p, rest, True])
    if st != "ok":
        return bad("impl!=model:max_marginal-model-undefined", {"Q": Q, "ev": ev, "model": [st, m]})
    if not common.approx(got, common.frac(m)):
        return bad("impl!=model:max_marginal", {"Q": Q, "ev": sorted(ev.items()), "impl": float(got),
                                                "model": str(common.frac(m)), "order": eo})
    return None


def run_predict(case, drv, net, bn, fs, rng, tags):
    """BayesianNetwork.predict: every row's prediction is a MAP of the missing variables given the row"""
    import pandas as pd
    from pgmpy.inference import VariableElimination, BeliefPropagation
    n = net.n
    if n < 2 or any(isinstance(x, tuple) for x in net.vn):
        return None      # tuple column labels make pandas build a MultiIndex: predict cannot carry such names
    simple = [v for v in range(n) if all(isinstance(s, (int, str)) for s in net.st[v])]
    if not simple:
        return None
    E = rng.sample(simple, rng.randint(1, min(len(simple), n - 1)))
    if len(E) == n:
        E = E[:-1]
    missing = [v for v in range(n) if v not in E]
    rows = []
    for _ in range(rng.randint(1, 5)):
        full = pos_state(rng, net, fs)
        rows.append({v: full[v] for v in E})
    rows = rows + [dict(rows[0])]      # a duplicate row
    rng.shuffle(E)
    cols = {}
    m = len(rows)
    # the index is never data: default, shifted, permuted, gapped, duplicate labels, string labels
    ikind = rng.choice(["range", "shifted", "permuted", "gapped", "duplicates", "strings"])
    if ikind == "range":
        index = list(range(m))
    elif ikind == "shifted":
        index = list(range(5, 5 + m))
    elif ikind == "permuted":
        index = list(range(m))
        rng.shuffle(index)
    elif ikind == "gapped":
        index = [10 + 3 * i for i in range(m)]
    elif ikind == "duplicates":
        index = [i // 2 for i in range(m)]
    else:
        index = ["r%d" % (m - i) for i in range(m)]
    ckinds = []
    for v in E:
        names = [net.st[v][r[v]] for r in rows]
        homog = (all(type(x) is int for x in net.st[v]) or all(isinstance(x, str) for x in net.st[v])
                 or all(type(x) is bool for x in net.st[v]))
        if homog and rng.random() < 0.3:
            # categorical column; the categories list every state (so some are UNUSED in the frame) in another order
            cats = list(net.st[v])
            rng.shuffle(cats)
            cols[net.vn[v]] = pd.Series(pd.Categorical(names, categories=cats), index=index)
            ckinds.append("categorical")
        elif homog:
            cols[net.vn[v]] = pd.Series(names, index=index)
            ckinds.append(type(names[0]).__name__)
        else:
            cols[net.vn[v]] = pd.Series(names, dtype=object, index=index)
            ckinds.append("object")
    df = pd.DataFrame(cols, index=index)
    df_snapshot = (list(df.index), list(df.columns), [str(t) for t in df.dtypes], df.astype(object).values.tolist())
    tags.append("predict index=" + ikind)
    for ck in set(ckinds):
        tags.append("predict column=" + ck)
    algo = rng.choice([None, "ve", "bp"]) if connected(case) else rng.choice([None, "ve"])
    kw = {}
    if algo == "ve":
        kw["algo"] = VariableElimination
    elif algo == "bp":
        kw["algo"] = BeliefPropagation
    pred = bn.predict(df, n_jobs=1, **kw)
    if (list(df.index), list(df.columns), [str(t) for t in df.dtypes], df.astype(object).values.tolist()) != df_snapshot:
        return bad("impl!=spec:predict-mutated-its-frame", {"before": repr(df_snapshot), "after": repr(df)})
    tags.append("predict rows=%d algo=%s" % (len(rows), algo))
    info = {"where": "predict", "E": E, "rows": [sorted(r.items()) for r in rows]}
    try:
        cols_got = sorted(net.var_of(c) for c in pred.columns)
    except KeyError:
        return bad("impl!=spec:predict-unknown-column", dict(info, columns=repr(list(pred.columns))))
    if cols_got != sorted(missing) or len(pred) != len(rows):
        return bad("impl!=spec:predict-shape", dict(info, columns=repr(list(pred.columns)), nrows=len(pred)))
    judges = {}
    for i, r in enumerate(rows):
        key = tuple(sorted(r.items()))
        if key not in judges:
            judges[key] = Judge(drv, net, fs, missing, r, True)
        res = {c: pred.iloc[i][c] for c in pred.columns}
        res = {c: (x.item() if hasattr(x, "item") else x) for c, x in res.items()}
        b = judges[key].judge(res, "predict row %d algo=%s" % (i, algo), strict_ties=False)
        if b == "near":
            tags.append("near-tie-accepted")
        elif b:
            return b
    return None


# ------------------------------------------------------------------ Markov networks (elimination engine)
def run_mn(case, drv):
    from pgmpy.inference import VariableElimination
    net = Net(case)
    mn, fs = build_mn(net)
    rng = random.Random(case["qseed"])
    n = net.n
    tags = ["mn n=%d" % n, "factors=%d" % len(fs), "vnames=" + case["vstyle"]]
    nontrivial = False
    for evi in range(3 if n > 1 else 1):
        k = 0 if evi == 0 else rng.randint(0, n - 1)
        E = rng.sample(range(n), k)
        # evidence with non-zero mass: take it from a positive joint state if there is one
        ev = None
        for _ in range(20):
            cand = {v: rng.randrange(net.cards[v]) for v in E}
            free = [v for v in range(n) if v not in cand]
            if not free:
                continue
            J0 = Judge(drv, net, fs, free, cand, False)
            if J0.maxw > 0:
                ev = cand
                break
        if ev is None:
            continue
        free = [v for v in range(n) if v not in ev]
        subsets = [list(c) for r in range(1, len(free) + 1) for c in itertools.combinations(free, r)]
        if len(subsets) > 8:
            subsets = rng.sample(subsets, 8)
        for Q in subsets:
            rng.shuffle(Q)
            J = Judge(drv, net, fs, Q, ev, False)
            if J.rest and len(J.w) >= 2:
                nontrivial = True
            tags.append("ties=%s" % ("unique" if J.unique else ("exact" if J.exact_ties > 1 else "near")))
            evn = {net.vn[v]: net.st[v][s] for v, s in ev.items()}
            Qn = [net.vn[v] for v in Q]
            perm = list(J.rest)
            rng.shuffle(perm)
            eo = rng.choice(["MinFill", None, "explicit"])
            ve = VariableElimination(mn)
            res = ve.map_query(variables=list(Qn), evidence=dict(evn) or None,
                               elimination_order=[net.vn[v] for v in perm] if eo == "explicit" else eo, show_progress=False)
            tags.append("MN VE order=%s" % eo)
            b = J.judge(res, "MN VE.map_query order=%s" % eo, strict_ties=not case.get("inexact"))
            if b == "near":
                tags.append("near-tie-accepted")
            elif b:
                return b
            if rng.random() < 0.4:
                got = VariableElimination(mn).max_marginal(variables=list(Qn), evidence=dict(evn) or None,
                                                           elimination_order=[net.vn[v] for v in perm], show_progress=False)
                st, m = drv.call_e("c03_maxmarg", [net.cards, fs, sorted(ev.items()), perm, False])
                tags.append("MN max_marginal")
                if st != "ok" or not common.approx(got, common.frac(m)):
                    return bad("impl!=model:max_marginal", {"Q": Q, "ev": sorted(ev.items()), "impl": float(got),
                                                            "model": [st, str(m)]})
    return ok(nontrivial=nontrivial, key=common.canon_key(["mn", case["edges"], case["cards"], case["factors"],
                                                            case["vnames"], case["states"], case["qseed"]]), tags=tags)


# ------------------------------------------------------------------ primitives
def run_prim(case, drv):
    import numpy as np
    from pgmpy.factors.discrete import DiscreteFactor
    from pgmpy.utils import compat_fns
    net = Net(case)
    cards = case["cards"]
    k = len(cards)
    vals = [fr(x) for x in case["vals"]]
    tags = ["prim axes=%d" % k, "unequal-cards" if len(set(cards)) > 1 else "equal-cards"]
    if k == 0:
        return ok(nontrivial=False, key=common.canon_key(["prim", cards, case["vals"]]), tags=tags)
    phi = DiscreteFactor([net.vn[v] for v in range(k)], cards, [float(x) for x in vals],
                         state_names={net.vn[v]: list(net.st[v]) for v in range(k)})
    # argmax of the C-order table
    am = int(compat_fns.argmax(phi.values))
    mm = drv.call("c03_argmax", vals)
    if am != mm:
        return bad("impl!=model:argmax", {"cards": cards, "impl": am, "model": mm})
    # assignment for in-range and out-of-range indices
    for n in case["idxs"]:
        st, m = drv.call_e("c03_assignment", [cards, n])
        try:
            got = phi.assignment([n])[0]
            err = None
        except IndexError:
            got, err = None, "index"
        if err:
            if st != "err":
                return bad("impl!=model:assignment-raises", {"cards": cards, "n": n, "model": m})
            tags.append("assignment IndexError")
            continue
        if st != "ok":
            return bad("impl!=model:assignment-accepts", {"cards": cards, "n": n, "impl": repr(got)})
        if [net.var_of(a) for a, _ in got] != list(range(k)):
            return bad("impl!=model:assignment-variables", {"cards": cards, "n": n, "impl": repr(got)})
        dec = [net.state_no(v, s) for v, (_, s) in enumerate(got)]
        if dec != m:
            return bad("impl!=model:assignment", {"cards": cards, "n": n, "impl": dec, "model": m, "raw": repr(got)})
    # the last lines of map_query on this factor
    a = compat_fns.argmax(phi.values)
    got = phi.assignment([a])[0]
    m = drv.call("c03_mapfac", [cards, [list(range(k)), vals]])
    dec = [[net.var_of(x), net.state_no(net.var_of(x), s)] for x, s in got]
    if dec != m:
        return bad("impl!=model:argmax+assignment", {"cards": cards, "impl": dec, "model": m})
    return ok(nontrivial=len(set(cards)) > 1 and len(vals) > 1, key=common.canon_key(["prim", cards, case["vals"], case["idxs"]]),
              tags=tags)


# ------------------------------------------------------------------ sessions: one engine, many calls
def run_session(case, drv):
    """ONE BeliefPropagation / VariableElimination object receives a sequence of public calls (calibrate,
    max_calibrate, get_clique_beliefs, query, max_marginal, map_query with hard/virtual evidence, repeated and
    role-re-split questions); every map_query answer is judged exactly like a single query (names, verified checker,
    unique-maximum equality): state left on the engine by earlier calls must not leak into a MAP answer."""
    from pgmpy.inference import VariableElimination, BeliefPropagation
    from pgmpy.factors.discrete import TabularCPD
    net = Net(case)
    bn, fs = build_bn(net)
    rng = random.Random(case["qseed"] + 17)
    n = net.n
    engine = case["engine"]
    eng = BeliefPropagation(bn) if engine == "bp" else VariableElimination(bn)
    tags = ["session engine=%s n=%d steps=%d" % (engine, n, case["nsteps"])]
    if engine == "bp":
        tags.append("session cliques=%d" % min(len(eng.junction_tree.nodes()), 4))
    full = pos_state(rng, net, fs)
    last = None           # previous (Q, ev, virt)
    nontrivial = False
    trace = []

    def question(after_calibration=False):
        nonlocal last
        r = rng.random()
        if after_calibration and r < 0.6:
            # one variable, no evidence: the answer is read off a single clique belief
            last = ([rng.randrange(n)], {}, {})
            return last
        if last is not None and r < 0.25:
            return last                                    # the same question again
        if last is not None and r < 0.5 and (last[1] or len(last[0]) > 1):
            Q, ev, _ = last                                # same variables, roles re-split
            pool = list(Q) + list(ev)
            rng.shuffle(pool)
            k = rng.randint(1, len(pool))
            Q2 = pool[:k]
            ev2 = {v: full[v] for v in pool[k:]}
            last = (Q2, ev2, {})
            return last
        k = 0 if rng.random() < 0.5 else rng.randint(0, n - 1)
        E = rng.sample(range(n), k)
        ev = {v: full[v] for v in E}
        free = [v for v in range(n) if v not in ev]
        # mostly small query sets, so that query + evidence do not span the whole clique tree
        Q = rng.sample(free, 1 if rng.random() < 0.5 else rng.randint(1, len(free)))
        virt = {}
        rest = [v for v in free if v not in Q]
        if rest and rng.random() < 0.3:
            v = rng.choice(rest + Q)
            wts = [Fraction(rng.choice([0, 1, 2, 3, 4, 6, 8]), 8) for _ in range(net.cards[v])]
            wts[full[v]] = max(wts[full[v]], Fraction(1, 8))
            virt[v] = wts
        last = (Q, ev, virt)
        return last

    ops_bp = ["calibrate", "max_calibrate", "max_calibrate", "beliefs", "query", "rejected", "map", "map", "map"]
    ops_ve = ["query", "max_marginal", "rejected", "map", "map", "map"]
    steps = [rng.choice(ops_bp if engine == "bp" else ops_ve) for _ in range(case["nsteps"])]
    if "map" not in steps:
        steps[-1] = "map"
    if engine == "bp" and rng.random() < 0.6:
        # the critical adjacency: beliefs left by a public (max-)calibration, then a MAP question
        if rng.random() < 0.5:
            steps = [rng.choice(["max_calibrate", "max_calibrate", "max_calibrate", "calibrate"]), "map"] * max(1, len(steps) // 2)
        else:
            i = rng.randrange(len(steps) - 1)
            steps[i] = rng.choice(["max_calibrate", "max_calibrate", "calibrate"])
            steps[i + 1] = "map"
    for op in steps:
        trace.append(op)
        if op == "calibrate":
            eng.calibrate()
            continue
        if op == "max_calibrate":
            eng.max_calibrate()
            continue
        if op == "beliefs":
            eng.get_clique_beliefs()
            continue
        Q, ev, virt = question(len(trace) > 1 and trace[-2] in ("calibrate", "max_calibrate"))
        evn = {net.vn[v]: net.st[v][s] for v, s in ev.items()}
        Qn = [net.vn[v] for v in Q]
        vev = [TabularCPD(net.vn[v], net.cards[v], [[float(x)] for x in virt[v]],
                          state_names={net.vn[v]: list(net.st[v])}) for v in sorted(virt)] or None
        trace[-1] = "%s Q=%s E=%s virt=%s" % (op, Q, sorted(ev), sorted(virt))
        if op == "rejected":
            # a call that must be refused (the invalid part comes LAST); the engine must stay usable and unchanged
            kind = rng.choice(["overlap", "bad-virtual-card", "virtual-unknown-variable", "order-has-query-variable",
                               "unknown-state"])
            okv = TabularCPD(net.vn[Q[0]], net.cards[Q[0]], [[1.0]] * net.cards[Q[0]],
                             state_names={net.vn[Q[0]]: list(net.st[Q[0]])})
            try:
                if kind == "overlap":
                    eng.map_query(variables=list(Qn), evidence={**evn, Qn[-1]: net.st[Q[-1]][0]}, show_progress=False)
                elif kind == "bad-virtual-card":
                    badv = TabularCPD(net.vn[Q[-1]], net.cards[Q[-1]] + 1, [[1.0]] * (net.cards[Q[-1]] + 1))
                    eng.map_query(variables=list(Qn), evidence=dict(evn) or None, virtual_evidence=[okv, badv],
                                  show_progress=False)
                elif kind == "virtual-unknown-variable":
                    badv = TabularCPD("no such variable", 2, [[0.5], [0.5]])
                    eng.map_query(variables=list(Qn), evidence=dict(evn) or None, virtual_evidence=[okv, badv],
                                  show_progress=False)
                elif kind == "order-has-query-variable":
                    if engine != "ve":
                        continue
                    others = [net.vn[v] for v in range(n) if v not in Q and v not in ev]
                    eng.map_query(variables=list(Qn), evidence=dict(evn) or None,
                                  elimination_order=others + [Qn[0]], show_progress=False)
                else:
                    free = [v for v in range(n) if v not in Q and v not in ev]
                    if not free:
                        continue
                    eng.map_query(variables=list(Qn), evidence={**evn, net.vn[free[0]]: ("no", "such", "state")},
                                  show_progress=False)
                return bad("impl!=spec:invalid-map-query-accepted", {"kind": kind, "trace": trace})
            except (ValueError, KeyError, IndexError, TypeError):
                tags.append("session rejected " + kind)
            continue
        if op == "query":
            kw = {} if engine == "bp" else {"elimination_order": rng.choice(["greedy", "MinFill"])}
            eng.query(variables=list(Qn), evidence=dict(evn) or None, virtual_evidence=vev,
                      joint=rng.random() < 0.5, show_progress=False, **kw)
            continue
        if op == "max_marginal":
            eng.max_marginal(variables=list(Qn), evidence=dict(evn) or None, show_progress=False)
            continue
        fsq = fs + [[[v], virt[v]] for v in sorted(virt)]
        J = Judge(drv, net, fsq, Q, ev, True)
        if J.maxw <= 0:
            return bad("harness:evidence-has-zero-mass", {"Q": Q, "ev": ev})
        if J.rest and len(J.w) >= 2:
            nontrivial = True
        kw = {}
        if engine == "ve":
            perm = list(J.rest)
            rng.shuffle(perm)
            eo = rng.choice(HEURISTICS + [None, "explicit"])
            kw["elimination_order"] = [net.vn[v] for v in perm] if eo == "explicit" else eo
        res = eng.map_query(variables=list(Qn), evidence=dict(evn) or None, virtual_evidence=vev,
                            show_progress=False, **kw)
        b = J.judge(res, "session %s: %s" % (engine, " ; ".join(trace)), strict_ties=(engine == "ve"))
        tags.append("session map after %s" % (trace[-2].split(" ")[0] if len(trace) > 1 else "nothing"))
        if b == "near":
            tags.append("near-tie-accepted")
        elif b:
            b["kind"] = b["kind"] + ":session"
            return b
        if rng.random() < 0.3 and isinstance(res, dict):
            # the returned dict belongs to the caller: scribbling over it must not reach the engine or later answers
            keep = dict(res)
            for k_ in list(res):
                res[k_] = ("scribble", k_)
            res["__extra__"] = 0
            res_b = eng.map_query(variables=list(Qn), evidence=dict(evn) or None, virtual_evidence=vev,
                                  show_progress=False, **kw)
            if res_b is res:
                return bad("impl!=spec:same-result-object-returned-twice", {"trace": trace})
            b = J.judge(res_b, "session %s: repeat after mutating the returned dict: %s" % (engine, " ; ".join(trace)),
                        strict_ties=(engine == "ve"))
            tags.append("session result-mutated-then-repeat")
            if b and b != "near":
                b["kind"] = b["kind"] + ":session"
                return b
            if (engine == "ve" or J.unique) and res_b != keep:
                return bad("impl!=spec:repeated-question-answered-differently:session",
                           {"first": repr(keep), "second": repr(res_b), "trace": trace})
    return ok(nontrivial=nontrivial, key=common.canon_key(["session", case["engine"], case["nsteps"], case["edges"],
                                                            case["cards"], case["cpds"], case["vnames"], case["states"],
                                                            case["qseed"]]), tags=tags)


# ------------------------------------------------------------------ parameter updates on one model object
def named_factor(net, cpd):
    """a TabularCPD the model currently holds -> [var ids, exact values] in the harness's state numbering"""
    return named_phi(net, cpd.to_factor())


def named_phi(net, phi):
    vs = [net.var_of(x) for x in phi.variables]
    pos = []
    for x, v in zip(phi.variables, vs):
        names = phi.state_names[x]
        if len(names) != net.cards[v]:
            raise ValueError("cardinality of %r changed" % (x,))
        pos.append([[net.state_no(v, nm) for nm in names].index(i) for i in range(net.cards[v])])
    vals = []
    pv = to_np(phi.values)
    for idx in itertools.product(*[range(net.cards[v]) for v in vs]):
        vals.append(Fraction(float(pv[tuple(p[i] for p, i in zip(pos, idx))])))
    return [vs, vals]


def run_update(case, drv):
    """ONE BayesianNetwork object: use it, then replace CPDs (add_cpds without remove = documented replacement;
    remove_cpds + add_cpds; fit on data), build FRESH engines and ask MAP questions; the answers are judged
    against the parameters the model holds NOW (its cpds list), round after round."""
    import pandas as pd
    from pgmpy.inference import VariableElimination, BeliefPropagation
    from pgmpy.factors.discrete import TabularCPD
    net = Net(case)
    bn, fs0 = build_bn(net)
    rng = random.Random(case["qseed"] + 31)
    n = net.n
    import networkx as nx
    alive = list(range(n))
    structural = False

    def conn_now():
        return len(bn.nodes()) >= 2 and nx.is_connected(bn.to_undirected())
    byv = {d["v"]: d for d in case["cpds"]}
    cur = {v: [[fr(x) for x in r] for r in byv[v]["rows"]] for v in byv}     # current exact tables (rows)
    tags = ["update n=%d rounds=%d" % (n, case["rounds"])]
    nontrivial = False
    can_fit = (all(isinstance(x, str) for x in net.vn)
               and all(isinstance(sx_, str) for sl in net.st for sx_ in sl))

    def current_fs():
        # what the model object lists now; must be one CPD per variable
        vars_ = [net.var_of(c.variable) for c in bn.cpds]
        if sorted(vars_) != sorted(alive) or sorted(net.var_of(x) for x in bn.nodes()) != sorted(alive):
            raise ValueError("model lists CPDs for %r, nodes %r, expected %r" % (vars_, list(bn.nodes()), alive))
        return [named_factor(net, c) for c in bn.cpds]

    def ask(label, nquestions):
        nonlocal nontrivial
        fs = current_fs()
        conn = conn_now()
        for _ in range(nquestions):
            J = None
            for _try in range(6):
                k = 0 if rng.random() < 0.4 else rng.randint(0, len(alive) - 1)
                E = rng.sample(alive, k)
                if structural:
                    ev = {v: rng.randrange(net.cards[v]) for v in E}     # checked for non-zero mass below
                else:
                    full = sample_pos(rng, net, cur, case)
                    ev = {v: full[v] for v in E}
                free = [v for v in alive if v not in ev]
                Q = rng.sample(free, rng.randint(1, len(free)))
                J = Judge(drv, net, fs, Q, ev, True)
                if J.maxw > 0:
                    break
                J = None
            if J is None:
                continue
            if len(J.w) >= 2:
                nontrivial = True
            evn = {net.vn[v]: net.st[v][s_] for v, s_ in ev.items()}
            Qn = [net.vn[v] for v in Q]
            engines = [("VE", lambda: VariableElimination(bn))]
            if conn:
                engines.append(("BP", lambda: BeliefPropagation(bn)))
            for nm, mk in engines:
                kw = {"elimination_order": rng.choice(HEURISTICS + [None])} if nm == "VE" else {}
                res = mk().map_query(variables=list(Qn), evidence=dict(evn) or None, show_progress=False, **kw)
                b = J.judge(res, "update %s: fresh %s engine" % (label, nm), strict_ties=False)
                if b == "near":
                    tags.append("near-tie-accepted")
                elif b:
                    b["kind"] = b["kind"] + ":after-parameter-update"
                    return b
        return None

    # round 0: the model is used (check_model done by build_bn, engines built, questions asked)
    b = ask("round 0 (original CPDs)", 2)
    if b:
        return b
    bn.get_cpds(net.vn[rng.randrange(n)])
    for rd in range(1, case["rounds"] + 1):
        mode = rng.choice(["replace"] * 6 + ["remove_add"] * 2 + (["fit"] * 2 if can_fit else [])
                          + (["remove_node", "do"] if len(alive) >= 2 else []))
        if structural:
            mode = rng.choice(["remove_node", "do"]) if len(alive) >= 2 else "do"
        tags.append("update mode=" + mode)
        if mode in ("remove_node", "do"):
            # structural edits through the model's own mutators; the oracle is whatever the model lists afterwards
            structural = True
            v = rng.choice(alive)
            if mode == "remove_node":
                bn.remove_node(net.vn[v])
                alive.remove(v)
            else:
                bn.do([net.vn[v]], inplace=True)
            if rng.random() < 0.5:
                bn.check_model()
            b = ask("round %d (%s %d)" % (rd, mode, v), 3)
            if b:
                return b
            continue
        if mode == "fit":
            # data drawn from a freshly generated parameter set; every state of every variable occurs
            newp = {v: regen_rows(rng, net, byv[v]) for v in byv}
            rows = []
            for _ in range(24):
                rows.append(sample_pos(rng, net, newp, case))
            for v in range(n):
                for s_ in range(net.cards[v]):
                    r = dict(rng.choice(rows))
                    r[v] = s_
                    rows.append(r)
            df = pd.DataFrame({net.vn[v]: pd.Series([net.st[v][r[v]] for r in rows], dtype=object) for v in range(n)})
            bn.fit(df, state_names={net.vn[v]: list(net.st[v]) for v in range(n)})
            fsn = current_fs()
            # exact current tables (rows) for sampling positive states: rebuild from the factors
            for f in fsn:
                v, pa = f[0][0], f[0][1:]
                d = byv[v]
                if sorted(pa) != sorted(d["pa"]):
                    raise ValueError("fit changed the parents of %d" % v)
                ncol = 1
                for p_ in d["pa"]:
                    ncol *= net.cards[p_]
                tab = [[None] * ncol for _ in range(net.cards[v])]
                shape = [net.cards[u] for u in f[0]]
                for k_, idx in enumerate(itertools.product(*[range(c_) for c_ in shape])):
                    a = dict(zip(f[0], idx))
                    col = 0
                    for p_ in d["pa"]:
                        col = col * net.cards[p_] + a[p_]
                    tab[a[v]][col] = f[1][k_]
                cur[v] = tab
        else:
            targets = rng.sample(range(n), rng.randint(1, min(2, n)))
            for v in targets:
                d = byv[v]
                rows = regen_rows(rng, net, d)
                sn = {net.vn[u]: list(net.st[u]) for u in [v] + d["pa"]}
                cpd = TabularCPD(net.vn[v], net.cards[v], [[float(x) for x in r] for r in rows],
                                 evidence=[net.vn[p_] for p_ in d["pa"]] or None,
                                 evidence_card=[net.cards[p_] for p_ in d["pa"]] or None, state_names=sn)
                if mode == "remove_add":
                    bn.remove_cpds(bn.cpds[[net.var_of(c.variable) for c in bn.cpds].index(v)])
                bn.add_cpds(cpd)
                cur[v] = rows
        if rng.random() < 0.5:
            bn.check_model()
        b = ask("round %d (%s)" % (rd, mode), 3)
        if b:
            return b
    return ok(nontrivial=nontrivial, key=common.canon_key(["update", case["rounds"], case["edges"], case["cards"],
                                                            case["cpds"], case["vnames"], case["states"], case["qseed"]]),
              tags=tags)


def run_update_mn(case, drv):
    """ONE MarkovNetwork object: factors are added / removed / replaced between rounds; fresh engines must answer for
    the factors the network lists now"""
    from pgmpy.inference import VariableElimination, BeliefPropagation
    from pgmpy.factors.discrete import DiscreteFactor
    net = Net(case)
    mn, fs0 = build_mn(net)
    rng = random.Random(case["qseed"] + 71)
    n = net.n
    conn = connected(case) and n >= 2
    tags = ["update-mn n=%d" % n]
    nontrivial = False

    def ask(label):
        nonlocal nontrivial
        fs = [named_phi(net, phi) for phi in mn.get_factors()]
        for _ in range(2):
            J = None
            for _try in range(6):
                E = rng.sample(range(n), 0 if rng.random() < 0.5 else rng.randint(0, n - 1))
                ev = {v: rng.randrange(net.cards[v]) for v in E}
                free = [v for v in range(n) if v not in ev]
                Q = rng.sample(free, rng.randint(1, len(free)))
                J = Judge(drv, net, fs, Q, ev, False)
                if J.maxw > 0:
                    break
                J = None
            if J is None:
                continue
            if len(J.w) >= 2:
                nontrivial = True
            evn = {net.vn[v]: net.st[v][s_] for v, s_ in ev.items()}
            Qn = [net.vn[v] for v in Q]
            engines = [("VE", lambda: VariableElimination(mn))] + ([("BP", lambda: BeliefPropagation(mn))] if conn else [])
            for nm, mk in engines:
                res = mk().map_query(variables=list(Qn), evidence=dict(evn) or None, show_progress=False)
                b = J.judge(res, "update-mn %s: fresh %s engine" % (label, nm), strict_ties=False)
                if b and b != "near":
                    b["kind"] = b["kind"] + ":after-factor-update"
                    return b
        return None

    b = ask("round 0")
    if b:
        return b
    for rd in range(1, 4):
        facs = list(mn.get_factors())
        mode = rng.choice(["add", "add", "remove", "replace"])
        covered = lambda fl: {x for f in fl for x in f.variables} == set(mn.nodes())
        victim = rng.choice(facs)
        if mode in ("remove", "replace") and not covered([f for f in facs if f is not victim]) and mode == "remove":
            mode = "replace"
        scope = list(victim.variables)
        rng.shuffle(scope)
        if mode == "add" and rng.random() < 0.5:
            scope = [rng.choice(scope)]
        vs = [net.var_of(x) for x in scope]
        size = 1
        for v in vs:
            size *= net.cards[v]
        vals = [Fraction(rng.choice([0, 1, 1, 2, 3, 4, 5, 8]), rng.choice([1, 2, 4])) for _ in range(size)]
        if all(x == 0 for x in vals):
            vals[0] = Fraction(1)
        newf = DiscreteFactor(scope, [net.cards[v] for v in vs], [float(x) for x in vals],
                              state_names={net.vn[v]: list(net.st[v]) for v in vs})
        if mode in ("remove", "replace"):
            mn.remove_factors(victim)
        if mode in ("add", "replace"):
            mn.add_factors(newf)
        tags.append("update-mn mode=" + mode)
        if rng.random() < 0.5:
            mn.check_model()
        b = ask("round %d (%s)" % (rd, mode))
        if b:
            return b
    return ok(nontrivial=nontrivial, key=common.canon_key(["update-mn", case["edges"], case["cards"], case["factors"],
                                                            case["vnames"], case["states"], case["qseed"]]), tags=tags)


def regen_rows(rng, net, d):
    v = d["v"]
    ncol = 1
    for p in d["pa"]:
        ncol *= net.cards[p]
    cols = [column(rng, net.cards[v]) for _ in range(ncol)]
    return [[cols[j][i] for j in range(ncol)] for i in range(net.cards[v])]


def sample_pos(rng, net, tables, case):
    """a joint state of positive probability under the given exact tables {v: rows}"""
    byv = {d["v"]: d for d in case["cpds"]}
    state = {}
    for v in topo(case):
        col = 0
        for p in byv[v]["pa"]:
            col = col * net.cards[p] + state[p]
        pos = [i for i in range(net.cards[v]) if tables[v][i][col] > 0]
        state[v] = rng.choice(pos)
    return state


# ------------------------------------------------------------------ map_query without variables, every engine
def build_fg(net):
    """FactorGraph with the factors themselves as factor nodes (the form FactorGraph.check_model accepts)"""
    from pgmpy.models import FactorGraph
    from pgmpy.factors.discrete import DiscreteFactor
    case = net.case
    fg = FactorGraph()
    fg.add_nodes_from([fresh(net.vn[v]) for v in range(net.n)])
    fs = []
    for f in case["factors"]:
        sc = f["vars"]
        vals = [fr(x) for x in f["vals"]]
        phi = DiscreteFactor([fresh(net.vn[v]) for v in sc], [net.cards[v] for v in sc], [float(x) for x in vals],
                             state_names={fresh(net.vn[v]): [fresh(x) for x in net.st[v]] for v in sc})
        fg.add_factors(phi)
        fg.add_node(phi)
        fg.add_edges_from([(fresh(net.vn[v]), phi) for v in sc])
        fs.append([list(sc), vals])
    fg.check_model()
    return fg, fs


def run_all(case, drv):
    """map_query(variables=None / []) = MAP over exactly the unobserved variables, with and without hard / virtual
    evidence, on BayesianNetwork, MarkovNetwork, FactorGraph (BP) and JunctionTree engines; plus explicit query sets on
    the FactorGraph / JunctionTree engines."""
    from pgmpy.inference import VariableElimination, BeliefPropagation
    from pgmpy.factors.discrete import TabularCPD, DiscreteFactor
    net = Net(case)
    isbn = case["base"] == "bn"
    if isbn:
        model, fs = build_bn(net)
    else:
        model, fs = build_mn(net)
    rng = random.Random(case["qseed"] + 53)
    n = net.n
    conn = connected(case) and n >= 2
    tags = ["all base=%s n=%d" % (case["base"], n)]
    nontrivial = False
    for rd in range(3):
        # evidence of non-zero mass
        ev = None
        for _ in range(20):
            k = 0 if rd == 0 else rng.randint(0, n - 1)
            E = rng.sample(range(n), k)
            if isbn:
                full = pos_state(rng, net, fs)
                cand = {v: full[v] for v in E}
            else:
                cand = {v: rng.randrange(net.cards[v]) for v in E}
            free = [v for v in range(n) if v not in cand]
            if not free:
                continue
            virt = {}
            if isbn and rng.random() < 0.35:
                for v in rng.sample(free, rng.randint(1, min(2, len(free)))):
                    wts = [Fraction(rng.choice([0, 1, 2, 3, 4, 6, 8]), 8) for _ in range(net.cards[v])]
                    wts[full[v]] = max(wts[full[v]], Fraction(1, 8))
                    virt[v] = wts
            fsq = fs + [[[v], virt[v]] for v in sorted(virt)]
            J = Judge(drv, net, fsq, free, cand, isbn)
            if J.maxw > 0:
                ev = cand
                break
        if ev is None:
            continue
        if len(J.w) >= 2:
            nontrivial = True
        evn = {net.vn[v]: net.st[v][s_] for v, s_ in ev.items()}

        def vev():
            out = []
            for v in sorted(virt):
                if rng.random() < 0.5:
                    out.append(TabularCPD(net.vn[v], net.cards[v], [[float(x)] for x in virt[v]],
                                          state_names={net.vn[v]: list(net.st[v])}))
                else:
                    out.append(DiscreteFactor([net.vn[v]], [net.cards[v]], [float(x) for x in virt[v]],
                                              state_names={net.vn[v]: list(net.st[v])}))
            return out or None

        engines = []
        for eo in rng.sample(HEURISTICS + [None, "greedy"], 3):
            engines.append(("VE(%s) order=%s" % (case["base"], eo), lambda: VariableElimination(model),
                            {"elimination_order": eo}, True))
        if conn:
            engines.append(("BP(%s)" % case["base"], lambda: BeliefPropagation(model), {}, False))
            if not virt:
                jt = model.to_junction_tree()
                engines.append(("BP(JunctionTree of %s)" % case["base"], lambda: BeliefPropagation(jt), {}, False))
                engines.append(("VE(JunctionTree of %s)" % case["base"], lambda: VariableElimination(jt),
                                {"elimination_order": rng.choice(["MinFill", "greedy", None])}, False))
        keys = [canon_table(f["vars"], [fr(x) for x in f["vals"]], net.cards) for f in case.get("factors", [])]
        # (a FactorGraph keeps factors as graph nodes, so it cannot hold two EQUAL factors)
        if not isbn and conn and len(set(keys)) == len(keys):
            fg, _ = build_fg(net)
            engines.append(("BP(FactorGraph)", lambda: BeliefPropagation(fg), {}, False))
        for nm, mk, kw, strict in engines:
            varg = rng.choice([None, [], "omit"])
            args = dict(kw)
            if varg != "omit":
                args["variables"] = varg
            evarg = dict(evn) if (evn or rng.random() < 0.5) else None
            vv = vev() if nm.startswith(("VE(bn", "BP(bn")) else None
            if virt and vv is None:
                continue
            snap = repr(sorted(evarg.items(), key=repr)) if evarg is not None else None
            res = mk().map_query(evidence=evarg, virtual_evidence=vv, show_progress=False, **args)
            if evarg is not None and repr(sorted(evarg.items(), key=repr)) != snap:
                return bad("impl!=spec:evidence-argument-mutated", {"where": nm, "before": snap, "after": repr(evarg)})
            tags.append("all " + nm.split(" order=")[0] + (" virt" if virt else "") + (" ev" if ev else ""))
            if "order=greedy" in nm:
                tags.append("all VE greedy")
            b = J.judge(res, "map_query without variables (%s): %s" % (varg, nm), strict_ties=strict and not virt)
            if b == "near":
                tags.append("near-tie-accepted")
            elif b:
                b["kind"] = b["kind"] + ":no-variables"
                return b
        # explicit query sets on the FactorGraph / JunctionTree engines
        if conn and not virt:
            free = [v for v in range(n) if v not in ev]
            Q = rng.sample(free, rng.randint(1, len(free)))
            JQ = Judge(drv, net, fs, Q, ev, isbn)
            Qn = [net.vn[v] for v in Q]
            more = [("BP(JunctionTree) Q", lambda: BeliefPropagation(model.to_junction_tree()), {}),
                    ("VE(JunctionTree) Q", lambda: VariableElimination(model.to_junction_tree()), {})]
            if not isbn and len(set(keys)) == len(keys):
                more.append(("BP(FactorGraph) Q", lambda: BeliefPropagation(build_fg(net)[0]), {}))
            for nm, mk, kw in more:
                res = mk().map_query(variables=list(Qn), evidence=dict(evn) or None, show_progress=False, **kw)
                tags.append("all " + nm)
                b = JQ.judge(res, nm, strict_ties=False)
                if b == "near":
                    tags.append("near-tie-accepted")
                elif b:
                    return b
    return ok(nontrivial=nontrivial, key=common.canon_key(["all", case["base"], case["edges"], case["cards"],
                                                            case.get("cpds"), case.get("factors"), case["vnames"],
                                                            case["states"], case["qseed"]]), tags=tags)


def not_float32_exact(case):
    import numpy as np
    vals = [x for d in case.get("cpds", []) for r in d["rows"] for x in r] + \
           [x for f in case.get("factors", []) for x in f["vals"]] + list(case.get("vals", []))
    for x in vals:
        q = fr(x)
        with np.errstate(all="ignore"):
            y = float(np.float32(float(q)))
        if y != y or y in (float("inf"), float("-inf")) or Fraction(y) != q:
            return True
    return False


def run_mid(case, drv):
    """mid-sized trees (>= 8 cliques): BeliefPropagation.map_query (fresh engine, and after a public calibrate()) must
    attain the exact posterior's maximum for query nodes far from the skewed prior; VariableElimination for comparison"""
    from pgmpy.inference import VariableElimination, BeliefPropagation
    net = Net(case)
    bn, fs = build_bn(net)
    rng = random.Random(case["qseed"] + 9)
    n = net.n
    tags = ["mid n=%d %s" % (n, case["shape"])]
    ncl = len(BeliefPropagation(bn).junction_tree.nodes())
    tags.append("mid cliques=%d" % ncl)
    for qi in range(3 if n <= 12 else 2):
        full = pos_state(rng, net, fs)
        if qi == 0:
            Q, E = [case["far"][0]], []
        elif qi == 1:
            Q = rng.sample(case["far"], 2)
            E = []
        else:
            Q = [rng.choice(case["far"])]
            E = [rng.choice([v for v in range(n) if v not in Q and v != case["root"]])]
        ev = {v: full[v] for v in E}
        J = Judge(drv, net, fs, Q, ev, True)
        evn = {net.vn[v]: net.st[v][s_] for v, s_ in ev.items()}
        Qn = [net.vn[v] for v in Q]
        calls = [("BP fresh", lambda: BeliefPropagation(bn).map_query(variables=list(Qn), evidence=dict(evn) or None,
                                                                      show_progress=False), False),
                 ("VE", lambda: VariableElimination(bn).map_query(variables=list(Qn), evidence=dict(evn) or None,
                                                                  elimination_order=rng.choice(HEURISTICS + [None]),
                                                                  show_progress=False), True)]
        if qi == 0:
            def after_cal():
                bp = BeliefPropagation(bn)
                bp.calibrate()
                return bp.map_query(variables=list(Qn), evidence=dict(evn) or None, show_progress=False)
            calls.append(("BP after calibrate()", after_cal, False))
        for nm, call, strict in calls:
            res = call()
            b = J.judge(res, "mid-sized %s (%d cliques): %s" % (case["shape"], ncl, nm), strict_ties=strict)
            tags.append("mid " + nm.split(" ")[0])
            if b and b != "near":
                b["kind"] = b["kind"] + ":mid-sized"
                return b
    # every single node once more through a fresh BP engine: somewhere the far prior has to arrive
    others = [v for v in range(n) if v != case["far"][0]]
    for v in rng.sample(others, min(len(others), 5 if n <= 11 else 3)):
        J = Judge(drv, net, fs, [v], {}, True)
        res = BeliefPropagation(bn).map_query(variables=[net.vn[v]], show_progress=False)
        b = J.judge(res, "mid-sized %s (%d cliques): BP fresh, single node" % (case["shape"], ncl), strict_ties=False)
        tags.append("mid BP")
        if b and b != "near":
            b["kind"] = b["kind"] + ":mid-sized"
            return b
    return ok(nontrivial=True, key=common.canon_key(["mid", case["edges"], case["cpds"], case["vnames"], case["states"],
                                                     case["qseed"]]), tags=tags)


def run_near(case, drv):
    """near-tie posteriors: the strictly larger one must win in BOTH engines, wherever it sits in index order"""
    from pgmpy.inference import VariableElimination, BeliefPropagation
    net = Net(case)
    bn, fs = build_bn(net)
    rng = random.Random(case["qseed"] + 3)
    ev_all = {v: s_ for v, s_ in case["ev"]}
    tags = ["near eps=%g runner-up-%s" % (case["eps"], "earlier" if case["runner_first"] else "later")]
    for Q, E in ([0], [1, 2]), ([0, 2], [1]), ([1, 0], [2]):
        ev = {v: ev_all[v] for v in E}
        J = Judge(drv, net, fs, Q, ev, True)
        tags.append("near ties=%s" % ("unique" if J.unique else ("exact" if J.exact_ties > 1 else "within-1e-9")))
        evn = {net.vn[v]: net.st[v][s_] for v, s_ in ev.items()}
        Qn = [net.vn[v] for v in Q]
        for nm, call in (("BP", lambda: BeliefPropagation(bn).map_query(variables=list(Qn), evidence=dict(evn),
                                                                         show_progress=False)),
                         ("VE", lambda: VariableElimination(bn).map_query(variables=list(Qn), evidence=dict(evn),
                                                                          elimination_order=rng.choice(HEURISTICS + [None]),
                                                                          show_progress=False))):
            res = call()
            b = J.judge(res, "near-tie (relative margin %g, runner-up %s in index order): %s" %
                        (case["eps"], "earlier" if case["runner_first"] else "later", nm), strict_ties=False)
            tags.append("near " + nm)
            if b and b != "near":
                b["kind"] = b["kind"] + ":near-tie"
                return b
    return ok(nontrivial=True, key=common.canon_key(["near", case["cpds"], case["ev"], case["vnames"], case["states"]]),
              tags=tags)


def run_wide(case, drv):
    from pgmpy.inference import VariableElimination, BeliefPropagation
    net = Net(case)
    bn, fs = build_bn(net)
    rng = random.Random(case["qseed"] + 5)
    n = net.n
    tags = ["wide n=%d" % n]
    conn = connected(case)
    for qi in range(3):
        full = pos_state(rng, net, fs)
        E = [] if qi < 2 else rng.sample(range(n), 1)
        ev = {v: full[v] for v in E}
        free = [v for v in range(n) if v not in ev]
        Q = list(free) if qi != 1 else rng.sample(free, n - 1)
        rng.shuffle(Q)
        J = Judge(drv, net, fs, Q, ev, True)
        evn = {net.vn[v]: net.st[v][s_] for v, s_ in ev.items()}
        Qn = [net.vn[v] for v in Q]
        calls = [("VE %s" % eo, lambda eo=eo: VariableElimination(bn).map_query(
            variables=list(Qn), evidence=dict(evn) or None, elimination_order=eo, show_progress=False), True)
            for eo in rng.sample(HEURISTICS + [None], 2)]
        if qi != 1:
            calls.append(("VE no-variables", lambda: VariableElimination(bn).map_query(
                evidence=dict(evn) or None, elimination_order=rng.choice(["greedy", "MinFill"]), show_progress=False), True))
        if conn:
            calls.append(("BP", lambda: BeliefPropagation(bn).map_query(variables=list(Qn), evidence=dict(evn) or None,
                                                                         show_progress=False), False))
        for nm, call, strict in calls:
            res = call()
            b = J.judge(res, "wide: " + nm, strict_ties=strict)
            tags.append("wide %s axes=%d" % (nm.split(" ")[0], len(Q)))
            if b and b != "near":
                return b
    return ok(nontrivial=True, key=common.canon_key(["wide", case["edges"], case["cards"], case["cpds"], case["vnames"],
                                                     case["states"], case["qseed"]]), tags=tags)


def run_case(case, drv):
    if case.get("torch"):
        import torch
        from pgmpy import config
        config.set_backend("torch", device="cpu", dtype=torch.float64)
        try:
            c2 = dict(case)
            del c2["torch"]
            out = run_case(c2, drv)
            out.setdefault("tags", []).append("backend=torch")
            if case.get("f32"):
                out["tags"].append("float32-construction finding %s" % ("NO LONGER reproduces" if out["ok"] else "reproduces"))
            if not out["ok"] and out.get("finding") is None and not_float32_exact(case):
                # diagnosed class (reported; listed or repaired by the coordinator): under the torch backend the
                # DiscreteFactor / TabularCPD constructors pass the values through torch.Tensor(values), i.e. float32,
                # whatever config dtype says; inputs that float32 cannot hold exactly (here: 2^-280.., 1-2^-40) reach
                # the engine rounded, overflowed to inf or flushed to 0.  Any other disagreement stays unlisted.
                out["finding"] = "torch-backend-float32-construction"
            return out
        finally:
            config.set_backend("numpy")
    if case["kind"] == "wide":
        return run_wide(case, drv)
    if case["kind"] == "mid":
        return run_mid(case, drv)
    if case["kind"] == "near":
        return run_near(case, drv)
    if case["kind"] == "bn":
        return run_bn(case, drv)
    if case["kind"] == "all":
        return run_all(case, drv)
    if case["kind"] == "update":
        return run_update(case, drv)
    if case["kind"] == "update-mn":
        return run_update_mn(case, drv)
    if case["kind"] == "session":
        return run_session(case, drv)
    if case["kind"] == "mn":
        return run_mn(case, drv)
    return run_prim(case, drv)
