"""C07 correspondence: pgmpy's samplers vs the draw-oracle Coq model (coq/C07/Model.v).

A recording/replaying oracle replaces numpy.random.choice inside the worker process (never in /repo):
every call's (p, size) is recorded, the answers are pre-decided by the harness PRNG, and the extracted
model is run on the same answers.  Whole frames are therefore compared deterministically."""
import itertools
import math
import random
from contextlib import contextmanager
from fractions import Fraction

from harness import common
from harness.common import ok, bad

PROP = "C07"
LEVEL = "proof"
HASHSEEDS = {"quick": [0, 1], "thorough": [0, 1, 2, 3]}
BUDGET_S = {"quick": 150, "thorough": 1200}
EXHAUSTIVE = {"quick": False, "thorough": False}
RULE = ("random discrete Bayesian networks (1-6 nodes; chains, forks, colliders, multi-parent families with a random "
        "CPD evidence order, isolated nodes; cardinalities 1-4, unequal within a family; dyadic CPD columns with exact "
        "zeros and deterministic columns; latent subsets; state names str / int 0..k-1 / permuted int / arbitrary int / "
        "tuple / mixed) x sampler kind: forward (partial_samples, include_latents), rejection (evidence drawn from a "
        "positive-probability assignment, partial_samples), likelihood weighting (weights column), Gibbs "
        "transition_models (Bayesian and Markov networks) and Gibbs.sample, simulate (do / evidence / virtual evidence / "
        "include_latents); the same kinds again with DECIMAL-ROUNDED columns (4 decimals, sum off by up to +-1e-3 in both "
        "directions, exact zeros first / last / middle, maximum anywhere; root priors reach _adjusted_weights un-normalised, "
        "|1-sum| > 1e-3 must raise ValueError <-> model error 1) so that the adjustment is not the identity; TINY kind: CPDs with "
        "near-identical but distinct columns (exact zeros next to 1e-9..1e-12, differences 1e-9..1e-12): likelihood weights, "
        "choice() p vectors and weight maps compared RELATIVELY (1e-13 / 1e-12), BayesianModelProbability.log_probability of "
        "every full assignment vs the exact value.  ORACLE kinds: numpy.random.choice is replaced in the worker by a recording oracle with "
        "pre-decided answers; every call's (p, size) and the whole returned frame must equal the extracted model's; "
        "besides, pgmpy's own weight maps (pre_compute_reduce_maps) must equal the CPD columns and transition_models the "
        "brute-force full conditional (the property predicate evaluated on the real code).  STRUCT kinds run the real "
        "RNG: exactly `size` rows, valid state names, zero-probability cells never occur, evidence/do columns fixed, "
        "LW weight = product of evidence CPD entries recomputed from the row, latent columns only on request, same "
        "seed twice => identical frames (different seeds: difference is only tallied), missingness only in "
        "missing_columns; GibbsSampling.sample leaves the caller's start_state list alone.  STRUCT_DEC kind = SUPPORTING TEST: "
        "4000 real-RNG rows on decimal-rounded networks, a state whose CPD entry is exactly 0 never appears.  CHI2 kind = SUPPORTING TEST ONLY: chi-square goodness of fit of forward_sample(4000) to the "
        "exact joint at alpha = 1e-6 (a statistical test, not a proof; listed separately in tags).  A case is "
        "non-trivial when >= 1 node has a parent and >= 1 oracle draw / table entry was compared; distinct = distinct "
        "(kind, network, options) after canonicalisation.  GENERALISATION CLASSES: A sessions = kind session (6 calls on one "
        "sampler + simulate, then replace_cpd / remove_edge+add_cpds / remove_node / do(inplace) / add_node on the same model "
        "object, new sampler + simulate compared with the model on the state read back from the object) and the continued "
        "Gibbs chain (second sample() without start_state); B purity = evidence lists, do/evidence dicts, virtual CPD lists and "
        "values, partial_samples frames, start_state lists and the model itself are compared with snapshots after every oracle "
        "call; C = a scribbled-over result does not influence the next call, CPDs built from reused float64 ndarray buffers "
        "that are overwritten afterwards; D = partial_samples with shifted / permuted / gapped / duplicate / string index, "
        "shuffled columns, int8/int32/int64, returned frames must carry index 0..size-1, log_probability frames with permuted "
        "columns and a gapped index (categorical INPUT does not apply: partial_samples holds state numbers); E = node names that "
        "are substrings of one another, collide with simulate's '__'+name children ('__x1', '___x1'), attribute-like names "
        "('size', 'index'), mixed int/str names that do not sort (tuple node names do not apply: they are data-frame columns); "
        "F = permuted / arbitrary / 1-based ints, booleans, same names across variables, a child CPD listing a parent's names "
        "in another order must be rejected by simulate; G = kind big (9 variables in one CPD, int names up to 11), "
        "cardinality 1, single-node and edgeless nets, empty evidence, seed=0 must seed; H = tiny / decimal kinds, Markov "
        "factors scaled by 1e-90..1e90, all comparisons relative; I = the oracle kinds also under the torch backend; J = "
        "include_latents, partial_samples, show_progress default, virtual_intervention, include_missing / missing_columns, "
        "generate_sample (n_jobs is accepted and ignored by the code); K = kind badcall (later invalid argument, unknown "
        "states / variables / cardinalities -> ValueError / KeyError = model error 6, model unchanged, valid call afterwards); "
        "boundary start states -1 / 0 / card-1 / card / card+1 at every position through sample, generate_sample, set_start_state "
        "and the MarkovChain constructor (kind gibbs_start); N = node and state names handed to evidence / do / start_state are rebuilt at run time (equal, not identical; ints above "
        "256 as node and state names); O = evidence as list / tuple / generator / plain tuples, start_state as list / tuple / "
        "generator / dict items (rejection_sample takes len(evidence): sized containers only; a dict start_state is "
        "documented but raises KeyError - reported, not a sampling statement); P = kind wide (257..400 states as child, "
        "parent and middle of a chain, mass on state numbers >= 256), 9-12 node chains / trees, sizes 8 / 9 / 16 / 17 / 32 / 33 "
        "/ 257; Q = columns typed with 2, 3 or 4 decimals (roots: |1-sum| <= 9e-4 adjusted, >= 1.2e-3 must raise); R = the "
        "option mixes of simulate (do x evidence x virtual evidence x virtual intervention x partial x latents) and of the "
        "samplers (partial x latents x evidence) are drawn independently; L = node / edge / CPD insertion orders, parent order in the CPD, evidence order, hash seeds; M is tools/check.py")
TRUSTED_BASE = ["numpy.random.choice(a, size, p) draws independent indices with law p (coq/C07/Dist.v `draw`); the "
                "Mersenne-Twister / seeding of numpy is not modelled",
                "pandas DataFrame column assignment, boolean filtering, concat/iloc, Series.map; numpy unique/vstack",
                "float64 arithmetic is not modelled: CPD entries are dyadic rationals, comparisons use 1e-9; the float "
                "rounding of int((size-i)/prob*1.5) in the rejection loop is accepted when the exact value is an integer "
                "(tag float-knife-edge)",
                "networkx topological_sort: the order it returns is an input of the model, validated as a topological "
                "order by the entry point"]
ASSUMPTIONS = ["variable names are interned to nat; state names to Z (Python ints keep their value, other names get "
               "distinct values < -1000, so they never collide with a state number)",
               "partial_samples holds state NUMBERS (that is what forward_sample stores and later maps to names)"]

MAXCALLS = 4000
MAXDRAWS = 60000


# ------------------------------------------------------------------ names
def dec_name(t):
    k, v = t
    if k == "s":
        return v
    if k == "i":
        return int(v)
    if k == "b":
        return bool(v)
    if k == "t":
        return tuple(dec_name(x) for x in v)
    raise ValueError(t)


def enc_name(x):
    if isinstance(x, bool) or type(x).__name__ == "bool_":
        return ["b", bool(x)]
    if isinstance(x, str):
        return ["s", str(x)]
    if isinstance(x, tuple):
        return ["t", [enc_name(y) for y in x]]
    if hasattr(x, "__index__"):
        return ["i", int(x)]
    raise ValueError(x)


def net_from_model(model):
    """the CURRENT state of a pgmpy BayesianNetwork as a net description (what a freshly built object would hold)"""
    import numpy as np

    nodes = list(model.nodes())
    idx = {x: i for i, x in enumerate(nodes)}
    card, names, vals, pars = [None] * len(nodes), [None] * len(nodes), [None] * len(nodes), {}
    for c in model.cpds:
        v = idx[c.variable]
        card[v] = int(c.variable_card)
        names[v] = [enc_name(x) for x in c.state_names[c.variable]]
        pars[str(v)] = [idx[x] for x in c.variables[1:]]
        tab = np.array(c.get_values(), dtype=float).reshape(card[v], -1)
        vals[v] = [[Fraction(float(x)).numerator, Fraction(float(x)).denominator] for row in tab for x in row]
    return {"nodes": [enc_name(x) for x in nodes], "node_order": list(range(len(nodes))),
            "edges": [[idx[u], idx[w]] for u, w in model.edges()],
            "cpd_order": [idx[c.variable] for c in model.cpds], "pars": pars, "card": card, "names": names,
            "vals": vals, "lat": sorted(idx[x] for x in model.latents), "buf": False}


def fresh(x):
    """an EQUAL but not identical object (class N): names handed to a query are rebuilt at run time"""
    if isinstance(x, bool):
        return x
    if isinstance(x, str):
        return "".join(list(x))
    if isinstance(x, int):
        return int(str(x))
    if isinstance(x, tuple):
        return tuple(fresh(y) for y in x)
    return x


def as_container(rng, items, kinds):
    """the same items as a list / tuple / generator / dict view (class O: every documented container type)"""
    k = rng.choice(kinds)
    if k == "tuple":
        return tuple(items), k
    if k == "gen":
        return (x for x in items), k
    if k == "plain":
        return [tuple(x) for x in items], k
    if k == "items":
        return dict((a, b) for a, b in items).items(), k
    return list(items), k


def intern_names(names):
    """python state names of one variable -> Z values of the model"""
    out = []
    for j, nm in enumerate(names):
        if isinstance(nm, int) and not isinstance(nm, bool):
            out.append(nm)
        else:
            out.append(-(1001 + j))
    return out


def d16_applicable(net):
    """input class of the repaired defect D16 (fixed by 7c40cb0 / 2e973fe; kept as a histogram tag only):
    some variable has an integer state name k in 0..card-1 at a position other than k"""
    for v, names in enumerate(net["names"]):
        card = net["card"][v]
        for j, t in enumerate(names):
            if t[0] == "i" and 0 <= t[1] < card and t[1] != j:
                return True
    return False


# ------------------------------------------------------------------ network generation
def gen_names(rng, card, style):
    if style == "str":
        base = rng.choice(["a", "lo", "s", "x"])
        return [["s", "%s%d" % (base, i)] for i in range(card)]
    if style == "int":
        return [["i", i] for i in range(card)]
    if style == "perm":
        p = list(range(card))
        if card >= 2:
            while p == list(range(card)):
                rng.shuffle(p)
        return [["i", i] for i in p]
    if style == "anyint":
        return [["i", i] for i in rng.sample(range(0, card + 3), card)]
    if style == "bigint":
        return [["i", 1000 + 7 * i] for i in range(card)]      # ints above 256 are not cached objects (class N)
    if style == "onebased":
        return [["i", i + 1] for i in range(card)]
    if style == "bool":
        if card > 2:
            return [["i", i + 1] for i in range(card)]
        return ([["b", False], ["b", True]] if rng.random() < 0.5 else [["b", True], ["b", False]])[:card]
    if style == "tuple":
        return [["t", [["s", "t"], ["i", i]]] for i in range(card)]
    # mixed
    pool = [["s", "u"], ["i", 0], ["s", "w"], ["i", 1], ["t", [["i", 0]]], ["i", 2], ["s", "z"], ["i", 7]]
    rng.shuffle(pool)
    return pool[:card]


def dec_column(rng, card, root, far=False):
    """a column typed with 4 decimals: sums to 1 + d*1e-4 with d in -9..9 (far: |d| in 12..40, roots only), exact
    zeros in first / last / middle positions, the maximum wherever the split puts it.  Returned as the exact
    rationals of the floats pgmpy receives."""
    if card == 1:
        d = rng.choice([0, 0, -3, 4]) if root else 0
        return [Fraction(float((10000 + d) / 10000.0))]
    ndec = rng.choice([2, 3, 4, 4])       # class Q: tables typed with two, three or four decimals
    unit = 10 ** ndec
    if root:
        # a root column reaches _adjusted_weights un-normalised: |1 - sum| is kept away from the 1e-3 threshold
        if far:
            d = {2: rng.choice([1, -1]), 3: rng.choice([2, -2, 5]), 4: rng.choice([12, -15, 25, -40])}[ndec]
        else:
            d = {2: 0, 3: 0, 4: rng.choice([-9, -7, -4, -1, 1, 2, 5, 9, 9, -9, 0])}[ndec]
    else:
        d = {2: rng.choice([-1, 0, 1]), 3: rng.choice([-9, -4, -1, 0, 1, 5, 9]),
             4: rng.choice([-90, -9, -7, -1, 1, 2, 5, 9, 90, 0])}[ndec]
    zpos = set()
    how = rng.choice(["none", "last", "last", "first", "middle", "two"])
    if how == "last":
        zpos = {card - 1}
    elif how == "first":
        zpos = {0}
    elif how == "middle" and card >= 3:
        zpos = {rng.randrange(1, card - 1)}
    elif how == "two" and card >= 3:
        zpos = set(rng.sample(range(card), 2))
    nz = [i for i in range(card) if i not in zpos]
    total = unit + d
    cuts = sorted(rng.randint(1, total - 1) for _ in range(len(nz) - 1))
    parts = [b_ - a_ for a_, b_ in zip([0] + cuts, cuts + [total])]
    col = [Fraction(0)] * card
    for i, k in zip(nz, parts):
        col[i] = Fraction(float(round(k / float(unit), ndec)))
    return col


def gen_net(rng, nmax=6, styles=None, zeros=True, maxcard=4, min_edges=0, str_nodes=False, dec=False, far=False,
            nmin=1):
    n = rng.randint(nmin, nmax)
    shape = rng.choice(["rand", "rand", "chain", "fork", "collider", "family", "isolated"])
    if nmin >= 9:
        shape = rng.choice(["chain", "chain", "tree", "rand"])
    ids = list(range(n))
    perm = ids[:]
    rng.shuffle(perm)
    edges = []
    if shape == "rand":
        p = rng.choice([0.3, 0.5, 0.8])
        for i in range(n):
            for j in range(i + 1, n):
                if rng.random() < p:
                    edges.append([perm[i], perm[j]])
    elif shape == "chain":
        edges = [[perm[i], perm[i + 1]] for i in range(n - 1)]
    elif shape == "tree":
        edges = [[perm[rng.randrange(i)], perm[i]] for i in range(1, n)]
    elif shape == "fork":
        edges = [[perm[0], perm[i]] for i in range(1, n)]
    elif shape in ("collider", "family"):
        edges = [[perm[i], perm[n - 1]] for i in range(0, n - 1)]
        if shape == "family" and n >= 3:
            edges.append([perm[0], perm[1]])
    # limit in-degree to 3 (table size)
    indeg = {}
    kept = []
    for u, v in edges:
        if indeg.get(v, 0) < 3:
            kept.append([u, v])
            indeg[v] = indeg.get(v, 0) + 1
    edges = kept
    if len(edges) < min_edges and n >= 2:
        edges = [[perm[i], perm[i + 1]] for i in range(n - 1)]
    rng.shuffle(edges)
    card = [rng.choice([1, 2, 2, 2, 3, 3, 4][: (3 + maxcard)]) for _ in ids]
    card = [min(c, maxcard) for c in card]
    styles = styles or ["str", "int", "perm", "anyint", "tuple", "mixed", "onebased", "bool", "bigint"]
    netstyle = rng.choice(styles + ["each"])
    names = []
    for v in ids:
        st = rng.choice(styles) if netstyle == "each" else netstyle
        names.append(gen_names(rng, card[v], st))
    pars = {}
    for v in ids:
        ps = [u for (u, w) in edges if w == v]
        rng.shuffle(ps)
        pars[str(v)] = ps
    vals = []
    for v in ids:
        ncol = 1
        for u in pars[str(v)]:
            ncol *= card[u]
        cols = []
        for _ in range(ncol):
            r = rng.random()
            if dec and (not pars[str(v)] or r < 0.7):
                col = dec_column(rng, card[v], root=not pars[str(v)], far=far)
            elif zeros and r < 0.25:
                col = [Fraction(0)] * card[v]
                col[rng.randrange(card[v])] = Fraction(1)
            else:
                col = common.rand_column(rng, card[v], zeros=zeros)
            cols.append(col)
        flat = [cols[j][s] for s in range(card[v]) for j in range(ncol)]
        vals.append([[x.numerator, x.denominator] for x in flat])
    r = rng.random()
    if r < 0.45:
        pool = ["A", "B", "C", "D", "E", "F", "G", "H", "Ab", "Ba", "Cd", "De", "Ef"]
        rng.shuffle(pool)
        nodes = [["s", x] for x in pool[:n]]
    elif r < 0.75 or str_nodes:
        # names that are substrings of one another, that collide with simulate's "__" + name children, keywords
        pool = ["x1", "x10", "x", "x11", "G", "G2", "__G", "__x1", "___x1", "_", "weight", "index", "size", "0", "1 ",
                "x12", "G3"]
        rng.shuffle(pool)
        nodes = [["s", x] for x in pool[:n]]
    elif r < 0.9:
        nodes = [["i", x] for x in rng.sample(list(range(0, n + 3)) + [257, 300, 1000, 65537], n)]
    else:
        pool = [["s", "a"], ["i", 0], ["s", "b"], ["i", 7], ["s", "__0"], ["i", 10], ["s", "x"], ["i", 3],
                ["s", "c"], ["i", 300], ["s", "__7"], ["i", 1000], ["s", "d"]]   # do not sort
        rng.shuffle(pool)
        nodes = pool[:n]
    node_order = ids[:]
    rng.shuffle(node_order)
    cpd_order = ids[:]
    rng.shuffle(cpd_order)
    k = rng.choice([0, 0, 1, 1, 2])
    lat = sorted(rng.sample(ids, min(k, n - 1))) if n >= 2 else []
    return {"nodes": nodes, "node_order": node_order, "edges": edges, "cpd_order": cpd_order, "pars": pars,
            "card": card, "names": names, "vals": vals, "lat": lat, "buf": rng.random() < 0.3}


def gen_big_net(rng):
    """one child with 8 binary parents: 9 variables in one CPD / factor; integer node names 0..9 (a set of small ints
    iterates in increasing order only below 8), plus one extra child of two of the parents"""
    labels = rng.sample(range(0, 12), 10)
    nodes = [["i", x] for x in labels]
    child, extra = 8, 9
    parents = list(range(8))
    edges = [[u, child] for u in parents] + [[parents[0], extra], [parents[5], extra]]
    rng.shuffle(edges)
    card = [2] * 10
    card[rng.randrange(8)] = 1
    card[extra] = 3
    pars = {str(v): [] for v in range(10)}
    pp = parents[:]
    rng.shuffle(pp)
    pars[str(child)] = pp
    pars[str(extra)] = rng.sample([parents[0], parents[5]], 2)
    names = [gen_names(rng, card[v], rng.choice(["int", "str", "perm"])) for v in range(10)]
    vals = []
    for v in range(10):
        ncol = 1
        for u in pars[str(v)]:
            ncol *= card[u]
        cols = [common.rand_column(rng, card[v], zeros=True) for _ in range(ncol)]
        flat = [cols[j][s_] for s_ in range(card[v]) for j in range(ncol)]
        vals.append([[x.numerator, x.denominator] for x in flat])
    order = list(range(10))
    rng.shuffle(order)
    corder = list(range(10))
    rng.shuffle(corder)
    return {"nodes": nodes, "node_order": order, "edges": edges, "cpd_order": corder, "pars": pars, "card": card,
            "names": names, "vals": vals, "lat": [], "buf": False}


def gen_wide_net(rng):
    """class P: a variable with more than 256 states (257..400) - as a child with sparse columns whose mass sits on
    high state numbers, as a parent (one column per state), or both (chain A -> X -> Y with X wide)"""
    wide = rng.randint(257, 400)
    variant = rng.choice(["wide-child", "wide-parent", "wide-middle"])
    if variant == "wide-child":
        card, pars = [rng.choice([2, 3]), wide], {"0": [], "1": [0]}
        edges = [[0, 1]]
    elif variant == "wide-parent":
        card, pars = [wide, rng.choice([2, 3])], {"0": [], "1": [0]}
        edges = [[0, 1]]
    else:
        card, pars = [2, wide, 2], {"0": [], "1": [0], "2": [1]}
        edges = [[0, 1], [1, 2]]
    n = len(card)

    def sparse(c):
        k = rng.choice([1, 2, 3, 3])
        pos = set()
        while len(pos) < min(k, c):
            pos.add(rng.randrange(256, c) if c > 256 and rng.random() < 0.8 else rng.randrange(c))
        ws = {1: [Fraction(1)], 2: [Fraction(1, 2), Fraction(1, 2)], 3: [Fraction(1, 2), Fraction(1, 4), Fraction(1, 4)]}[len(pos)]
        col = [Fraction(0)] * c
        for i, w in zip(sorted(pos), ws):
            col[i] = w
        return col

    vals = []
    for v in range(n):
        ncol = 1
        for u in pars[str(v)]:
            ncol *= card[u]
        if card[v] > 256:
            cols = [sparse(card[v]) for _ in range(ncol)]
        else:
            base = [common.rand_column(rng, card[v], zeros=True) for _ in range(3)]
            cols = [base[rng.randrange(3)] for _ in range(ncol)]
        flat = [cols[j][s_] for s_ in range(card[v]) for j in range(ncol)]
        vals.append([[x.numerator, x.denominator] for x in flat])
    style = rng.choice(["int", "str"])
    names = [[["i", i] for i in range(c)] if style == "int" else [["s", "s%d" % i] for i in range(c)] for c in card]
    nodes = [["s", x] for x in ["Aw", "Xw", "Yw"][:n]]
    order = list(range(n))
    rng.shuffle(order)
    return {"nodes": nodes, "node_order": order, "edges": edges, "cpd_order": order[::-1], "pars": pars, "card": card,
            "names": names, "vals": vals, "lat": [], "buf": False, "variant": variant}


def gen_tiny_net(rng):
    """a small network whose non-root CPDs hold NEAR-IDENTICAL BUT DISTINCT columns: exact zeros next to tiny
    probabilities (1e-9..1e-12) and columns that differ by 1e-9..1e-12 in two entries.  Values are the exact rationals
    of the floats pgmpy receives.  Returns (net, [child, state]) = the evidence that makes the difference visible."""
    while True:
        net = gen_net(rng, nmax=4, styles=["str"], zeros=False, maxcard=3, min_edges=1, str_nodes=True)
        ch = [v for v in range(len(net["nodes"])) if net["pars"][str(v)] and net["card"][v] >= 2
              and any(net["card"][u] >= 2 for u in net["pars"][str(v)])]
        if ch:
            break
    net["lat"] = []
    target = None
    for v in ch:
        card = net["card"][v]
        ncol = 1
        for u in net["pars"][str(v)]:
            ncol *= net["card"][u]
        kind = rng.choice(["zero-vs-tiny", "zero-vs-tiny", "delta"])
        # the perturbed entry is entry 0: np.unique sorts the weight vectors lexicographically, so distinct columns
        # must be separated (>= 9e-13) at the FIRST entry, far above the 1e-16 float noise of the normalisation;
        # otherwise float and exact arithmetic may order two groups differently (a float artefact, not a defect)
        a = 0
        b_ = rng.randrange(1, card)
        if kind == "zero-vs-tiny":
            base = [0.0] * card
            base[b_] = 1.0
        else:
            col = common.rand_column(rng, card, zeros=False)
            base = [float(x) for x in col]
        cols = []
        for j in range(ncol):
            eps = rng.choice([1e-9, 1e-10, 1e-11, 1e-12])
            c = list(base)
            r = rng.random()
            if r < 0.6 or j == 1:
                c[a] = base[a] + eps
                c[b_] = base[b_] - eps
            elif r < 0.75 and kind == "delta":
                c[a] = base[a] - eps
                c[b_] = base[b_] + eps
            cols.append(c)
        flat = [Fraction(cols[j][s_]) for s_ in range(card) for j in range(ncol)]
        net["vals"][v] = [[x.numerator, x.denominator] for x in flat]
        if target is None:
            target = [v, a]
    return net, target


D16_NET = {"nodes": [["s", "A"], ["s", "B"]], "node_order": [0, 1], "edges": [[0, 1]], "cpd_order": [0, 1],
           "pars": {"0": [], "1": [0]}, "card": [2, 2], "names": [[["i", 1], ["i", 0]], [["s", "y"], ["s", "n"]]],
           "vals": [[[9, 10], [1, 10]], [[1, 1], [0, 1], [0, 1], [1, 1]]], "lat": []}


def cases(tier, seed):
    rng = random.Random(seed)
    out = []
    mult = 1 if tier == "quick" else 8
    out.append({"kind": "d16", "net": D16_NET, "oseed": 1})
    out.append({"kind": "do_zero"})
    out.append({"kind": "gibbs_seed"})
    good = ["str", "int", "tuple", "anyint"]

    def opt(kind, **kw):
        styles = None if rng.random() < 0.35 else good
        c = {"kind": kind, "net": gen_net(rng, styles=styles, **kw), "oseed": rng.randint(0, 10**9)}
        return c

    for _ in range(150 * mult):
        c = opt("forward", min_edges=1 if rng.random() < 0.8 else 0)
        c["size"] = rng.choice([1, 2, 3, 5, 8, 9, 13, 16, 17, 30, 32, 33, 257])
        c["incl"] = rng.random() < 0.5
        c["partial"] = rng.random() < 0.3
        c["defaults"] = rng.random() < 0.25      # show_progress left at its default
        out.append(c)
    # decimal-rounded CPD columns (sum != 1 by up to +-1e-3): _adjusted_weights is NOT the identity
    for _ in range(90 * mult):
        far = rng.random() < 0.12
        c = opt("forward", min_edges=1 if rng.random() < 0.6 else 0, dec=True, far=far)
        c["size"] = rng.choice([1, 2, 3, 5, 8, 13, 30])
        c["incl"] = rng.random() < 0.5
        c["partial"] = rng.random() < 0.2
        c["dec"] = True
        out.append(c)
    for k_ in ("reject", "lw", "simulate"):
        for _ in range(40 * mult):
            c = opt(k_, min_edges=1 if rng.random() < 0.6 else 0, dec=True, str_nodes=True)
            c["size"] = rng.choice([1, 2, 3, 5, 8, 20])
            c["incl"] = rng.random() < 0.5
            c["partial"] = False
            c["nev"] = rng.choice([0, 1, 1, 2])
            c["ndo"] = rng.choice([0, 1])
            c["nvirt"] = rng.choice([0, 0, 1])
            c["nvint"] = rng.choice([0, 0, 1])
            c["dec"] = True
            out.append(c)
    for _ in range(16 * mult):
        c = opt("struct_dec", nmax=4, min_edges=0, dec=True, str_nodes=True)
        c["seed"] = rng.randint(0, 10**6)
        out.append(c)
    # sessions on one object (class A), rejected calls (K), >= 9 variables in one factor (G), torch backend (I)
    for _ in range(30 * mult):
        c = opt("session", nmax=5, min_edges=1)
        c["edit"] = rng.choice(["replace_cpd", "remove_edge", "remove_node", "do_inplace", "add_node"])
        out.append(c)
    for _ in range(16 * mult):
        c = opt("badcall", nmax=4, min_edges=1, str_nodes=True)
        out.append(c)
    for _ in range(3 * mult):
        out.append({"kind": "big", "net": gen_big_net(rng), "oseed": rng.randint(0, 10**9)})
    # class P: more than 256 states; 9-12 node chains / trees
    for _ in range(4 * mult):
        out.append({"kind": "wide", "net": gen_wide_net(rng), "oseed": rng.randint(0, 10**9),
                    "seed": rng.randint(0, 10**6)})
    for k_ in ("forward", "lw", "reject"):
        for _ in range(6 * mult):
            c = opt(k_, nmin=9, nmax=12, maxcard=3, min_edges=1)
            c.update({"size": rng.choice([1, 8, 9, 17]), "incl": rng.random() < 0.5, "partial": rng.random() < 0.2,
                      "nev": rng.choice([1, 2])})
            out.append(c)
    # boundary start states of the chains (MarkovChain._check_state): -1, 0, card-1, card, card+1 at every position
    for _ in range(10 * mult):
        out.append({"kind": "gibbs_start", "net": gen_net(rng, nmax=4, styles=good, zeros=False, maxcard=3, min_edges=1,
                                                          str_nodes=True), "oseed": rng.randint(0, 10**9)})
    for k_ in ("forward", "reject", "lw", "simulate", "gibbs"):
        for _ in range(8 * mult):
            c = opt(k_, nmax=4, min_edges=1, str_nodes=True, maxcard=3)
            c.update({"size": rng.choice([1, 3, 7]), "incl": rng.random() < 0.5, "partial": rng.random() < 0.3,
                      "nev": rng.choice([0, 1, 2]), "ndo": rng.choice([0, 1]), "nvirt": rng.choice([0, 1]),
                      "nvint": rng.choice([0, 1]), "backend": "torch"})
            out.append(c)
    # near-identical but distinct CPD columns (differences 1e-9..1e-12): weights / log-probabilities compared relatively
    for _ in range(60 * mult):
        net, target = gen_tiny_net(rng)
        out.append({"kind": "tiny", "net": net, "oseed": rng.randint(0, 10**9), "size": rng.choice([20, 30, 60]),
                    "incl": True, "nev": 0, "force_ev": [target]})
    for _ in range(110 * mult):
        c = opt("reject", min_edges=1)
        c["size"] = rng.choice([1, 2, 3, 5, 8, 20])
        c["incl"] = rng.random() < 0.5
        c["partial"] = rng.random() < 0.2
        c["nev"] = rng.choice([0, 1, 1, 1, 2, 3])
        out.append(c)
    for _ in range(110 * mult):
        c = opt("lw", min_edges=1)
        c["size"] = rng.choice([1, 2, 3, 5, 8, 20])
        c["incl"] = rng.random() < 0.5
        c["nev"] = rng.choice([0, 1, 1, 2, 2, 3])
        out.append(c)
    for _ in range(70 * mult):
        c = opt("gibbs", nmax=4, maxcard=3, str_nodes=True, min_edges=1)
        c["size"] = rng.choice([1, 2, 4, 7])
        out.append(c)
    for _ in range(40 * mult):
        out.append({"kind": "gibbs_mn", "mnseed": rng.randint(0, 10**9), "oseed": rng.randint(0, 10**9),
                    "size": rng.choice([1, 3, 6])})
    for _ in range(90 * mult):
        c = opt("simulate", str_nodes=True, min_edges=1)
        c["size"] = rng.choice([1, 2, 3, 5, 8, 20])
        c["incl"] = rng.random() < 0.4
        c["ndo"] = rng.choice([0, 1, 1, 2])
        c["nev"] = rng.choice([0, 0, 1, 2])
        c["nvirt"] = rng.choice([0, 0, 1, 1, 2])
        c["nvint"] = rng.choice([0, 0, 1, 1, 2])
        c["partial"] = rng.random() < 0.15
        out.append(c)
    for _ in range(60 * mult):
        c = opt("struct", str_nodes=True, min_edges=1)
        c["size"] = rng.choice([1, 5, 40, 200])
        c["seed"] = rng.choice([0, 0, 1, rng.randint(0, 10**6), rng.randint(0, 10**6)])
        c["nev"] = rng.choice([1, 1, 2])
        out.append(c)
    for _ in range(12 * mult):
        c = {"kind": "chi2", "net": gen_net(rng, nmax=3, styles=good if rng.random() < 0.8 else None, maxcard=3,
                                            min_edges=1, str_nodes=True),
             "seed": rng.randint(0, 10**6), "oseed": 0}
        out.append(c)
    return out


def shrink(case):
    net = case.get("net")
    if not net:
        return
    for key in ("size",):
        if case.get(key, 1) > 1:
            c = dict(case)
            c[key] = case[key] // 2
            yield c
    if net["lat"]:
        c = dict(case)
        c["net"] = dict(net, lat=[])
        yield c


# ------------------------------------------------------------------ building pgmpy objects / model requests
def frs(lst):
    return [Fraction(a, b) for a, b in lst]


class Net:
    def __init__(self, net):
        self.net = net
        self.n = len(net["nodes"])
        self.node = [dec_name(t) for t in net["nodes"]]
        self.id = {nm: i for i, nm in enumerate(self.node)}
        self.card = net["card"]
        self.names = [[dec_name(t) for t in l] for l in net["names"]]
        self.znames = [intern_names(l) for l in self.names]
        self.pars = [net["pars"][str(v)] for v in range(self.n)]
        self.vals = [frs(l) for l in net["vals"]]
        self.lat = net["lat"]

    def ncol(self, v):
        r = 1
        for u in self.pars[v]:
            r *= self.card[u]
        return r

    def entry(self, v, s, asg):
        """CPD entry P(v = s | parents as in asg) (state numbers)"""
        j = 0
        for u in self.pars[v]:
            j = j * self.card[u] + asg[u]
        return self.vals[v][s * self.ncol(v) + j]

    def joint(self, asg):
        p = Fraction(1)
        for v in range(self.n):
            p *= self.entry(v, asg[v], asg)
        return p

    def build(self):
        from pgmpy.models import BayesianNetwork
        from pgmpy.factors.discrete import TabularCPD

        net = self.net
        m = BayesianNetwork(latents=set(self.node[v] for v in self.lat))
        m.add_nodes_from([self.node[v] for v in net["node_order"]])
        m.add_edges_from([(self.node[u], self.node[v]) for u, v in net["edges"]])
        cpds = []
        bufs = []
        for v in net["cpd_order"]:
            nc = self.ncol(v)
            table = [[float(self.vals[v][s * nc + j]) for j in range(nc)] for s in range(self.card[v])]
            if net.get("buf"):
                # C-contiguous float64 ndarray, overwritten after construction: the CPD must not alias it
                import numpy as np

                table = np.ascontiguousarray(np.array(table, dtype=np.float64))
                bufs.append(table)
            sn = {self.node[v]: list(self.names[v])}
            for u in self.pars[v]:
                sn[self.node[u]] = list(self.names[u])
            if self.pars[v]:
                c = TabularCPD(self.node[v], self.card[v], table, evidence=[self.node[u] for u in self.pars[v]],
                               evidence_card=[self.card[u] for u in self.pars[v]], state_names=sn)
            else:
                c = TabularCPD(self.node[v], self.card[v], table, state_names=sn)
            cpds.append(c)
        m.add_cpds(*cpds)
        for b_ in bufs:
            b_[...] = 0.123
        return m

    def sx(self, model):
        """[nodes cpds latents cards names] with the orders pgmpy actually holds"""
        nodes = [self.id[x] for x in model.nodes()]
        cpds = []
        for c in model.cpds:
            v = self.id[c.variable]
            ps = [self.id[x] for x in c.variables[1:]]
            assert ps == self.pars[v]
            cpds.append([v, ps, self.vals[v]])
        return [nodes, cpds, list(self.lat), [[v, self.card[v]] for v in range(self.n)],
                [[v, self.znames[v]] for v in range(self.n)]]

    def zname(self, v, x):
        """intern a cell of pgmpy's frame (a state name of variable v); NaN -> None"""
        if isinstance(x, float) and x != x:
            return None
        for j, nm in enumerate(self.names[v]):
            if isinstance(nm, bool):
                if type(x).__name__ in ("bool", "bool_", "bool") and bool(x) == nm:
                    return self.znames[v][j]
                continue
            if type(nm) is type(x) and nm == x:
                return self.znames[v][j]
            if isinstance(nm, int) and not isinstance(nm, bool) and hasattr(x, "__index__") and int(x) == nm \
                    and not isinstance(x, bool):
                return self.znames[v][j]
        return ("unknown", repr(x))

    def frame(self, df, extra=None):
        """DataFrame -> {column id: [Z names]}"""
        out = {}
        ids = dict(self.id)
        if extra:
            ids.update(extra)
        for col in df.columns:
            if col == "_weight":
                continue
            v = ids[col]
            if v >= self.n:
                out[v] = [None if (isinstance(x, float) and x != x) else int(x) for x in df[col].tolist()]
            else:
                out[v] = [self.zname(v, x) for x in df[col].tolist()]
        return out

    def sample_assignment(self, rng):
        """a full assignment with positive joint probability (ancestral, exact)"""
        asg = {}
        order = topo(self)
        for v in order:
            w = [self.entry(v, s, asg) for s in range(self.card[v])]
            pos = [s for s in range(self.card[v]) if w[s] > 0]
            asg[v] = rng.choice(pos)
        return asg


def topo(N):
    done, order = set(), []
    while len(order) < N.n:
        for v in range(N.n):
            if v not in done and all(u in done for u in N.pars[v]):
                done.add(v)
                order.append(v)
    return order


def model_frame(cols, rows):
    """model reply (columns, rows of [] | [z]) -> {column id: [Z | None]}"""
    out = {c: [] for c in cols}
    for r in rows:
        for c, cell in zip(cols, r):
            out[c].append(cell[0] if cell else None)
    return out


# ------------------------------------------------------------------ the oracle
class OracleLimit(Exception):
    pass


class Oracle:
    def __init__(self, seed):
        self.rng = random.Random(seed)
        self.calls = []   # (p floats, size, answers)
        self.ndraws = 0

    def choice(self, a, size=None, replace=True, p=None):
        import numpy as np

        a = np.asarray(a)
        m = 1 if size is None else int(size)
        pl = [float(x) for x in p]
        if any(x < 0 for x in pl):
            raise ValueError("probabilities are not non-negative")
        if abs(sum(pl) - 1.0) > 1.5e-8:
            raise ValueError("probabilities do not sum to 1")
        if len(self.calls) >= MAXCALLS or self.ndraws + m > MAXDRAWS:
            raise OracleLimit()
        ans = []
        for _ in range(m):
            u = self.rng.random()
            acc, idx = 0.0, None
            for i, q in enumerate(pl):
                acc += q
                if q > 0 and u < acc:
                    idx = i
                    break
            if idx is None:
                idx = max(i for i, q in enumerate(pl) if q > 0)
            ans.append(idx)
        self.calls.append((pl, m, ans))
        self.ndraws += m
        res = a[np.array(ans, dtype=int)]
        return res if size is not None else res[0]

    def draws(self):
        return [d for (_, _, ans) in self.calls for d in ans]


@contextmanager
def oracle(seed):
    import numpy as np

    o = Oracle(seed)
    saved = np.random.choice
    np.random.choice = o.choice
    try:
        yield o
    finally:
        np.random.choice = saved


def close(a, b, rel=1e-13):
    """|a - b| <= rel * |b| (+ 1e-300): a = pgmpy float, b = exact model value.  Relative, because CPD columns may
    differ only by 1e-9..1e-12 (float error of a normalisation / a product of <= 6 entries is < 1e-14 relative)."""
    a = float(a)
    bf = float(b)
    if a != a or bf != bf:
        return False
    return abs(a - bf) <= rel * abs(bf) + 1e-300


def cmp_calls(o, mcalls):
    if len(o.calls) != len(mcalls):
        return "number of choice() calls: impl %d, model %d" % (len(o.calls), len(mcalls))
    for k, ((p, m, _), (mp, mm)) in enumerate(zip(o.calls, mcalls)):
        if m != mm:
            return "call %d: size impl %d, model %d" % (k, m, mm)
        if len(p) != len(mp) or not all(close(x, common.frac(y), 1e-12) for x, y in zip(p, mp)):
            return "call %d: p impl %r, model %r" % (k, p, [str(common.frac(y)) for y in mp])
    return None


def same_calls_other_order(o, mcalls):
    """True when impl and model made the same choice() calls (size, p) but in a different ORDER: np.unique orders weight
    vectors lexicographically on floats, the model on exact rationals; vectors that agree to ~1e-16 in an entry can be
    ordered differently.  Float rounding is not modelled: such a case is skipped (tag float-sort-knife-edge)."""
    if len(o.calls) != len(mcalls):
        return False
    used = [False] * len(mcalls)
    for p, m, _ in o.calls:
        hit = None
        for k, (mp, mm) in enumerate(mcalls):
            if not used[k] and mm == m and len(mp) == len(p) and all(close(x, common.frac(y), 1e-12) for x, y in zip(p, mp)):
                hit = k
                break
        if hit is None:
            return False
        used[hit] = True
    return True


def cmp_frames(fi, fm):
    if set(fi) != set(fm):
        return "columns: impl %r, model %r" % (sorted(fi), sorted(fm))
    for c in fi:
        if fi[c] != fm[c]:
            return "column %r: impl %r, model %r" % (c, fi[c][:40], fm[c][:40])
    return None


def worker_init():
    from pgmpy import config

    config.set_show_progress(False)
    # GibbsSampling.sample wraps its loop in tqdm unconditionally: silence it in this process only
    import pgmpy.sampling.Sampling as S

    S.tqdm = lambda it=None, *a, **k: it


# ------------------------------------------------------------------ the property predicate on the real code
def spec_weight_maps(N, model):
    """pgmpy's own weight map for every parent configuration vs the CPD column (state numbers)"""
    from pgmpy.sampling import BayesianModelSampling

    s = BayesianModelSampling(model)
    for v in range(N.n):
        if not N.pars[v]:
            continue
        for evid in ([N.node[u] for u in N.pars[v]], [N.node[u] for u in reversed(N.pars[v])]):
            eids = [N.id[x] for x in evid]
            combos = [tuple(t) for t in itertools.product(*[range(N.card[u]) for u in eids])]
            s2i, i2w = s.pre_compute_reduce_maps(variable=N.node[v], evidence=evid, state_combinations=combos)
            for t in combos:
                w = [float(x) for x in i2w[int(s2i[t])]]
                asg = dict(zip(eids, t))
                exp = [N.entry(v, k, asg) for k in range(N.card[v])]
                tot = sum(exp)
                exp = [x / tot for x in exp]      # _reduce_marg normalises (identity for exact columns)
                if not all(close(a, b) for a, b in zip(w, exp)):
                    return {"node": repr(N.node[v]), "evidence": repr(evid), "parent_state_numbers": list(t),
                            "weights": w, "cpd_column": [str(x) for x in exp]}
    return None


def finding_or_violation(N, kind, detail, key, tags):
    """the property predicate fails on the real code: always an unlisted violation (no open finding for C07)"""
    return bad(kind, detail, finding=None, key=key, tags=list(tags))


def net_tags(N):
    styles = set()
    for l in N.net["names"]:
        ks = set(t[0] for t in l)
        styles.add("names:" + "+".join(sorted(ks)))
    return ["n=%d" % N.n, "edges=%d" % len(N.net["edges"]), "maxcard=%d" % max(N.card), "lat=%d" % len(N.lat),
            "d16-applicable=%s" % d16_applicable(N.net)] + sorted(styles)


def gen_partial(N, rng, size, avoid=()):
    cols = [v for v in range(N.n) if v not in avoid and rng.random() < 0.4]
    return [[v, [rng.randrange(N.card[v]) for _ in range(size)]] for v in cols]


def partial_df(N, partial, rng=None):
    """partial_samples frame; with rng: shuffled column order, an index that is not 0..n-1 (shifted / permuted / gapped /
    duplicate / string labels) and other integer dtypes - the index is never data, only positions count"""
    import numpy as np
    import pandas as pd

    items = [(N.node[v], col) for v, col in partial]
    if rng is None:
        return pd.DataFrame(dict(items))
    rng.shuffle(items)
    n = len(items[0][1]) if items else 0
    kind = rng.choice(["range", "shift", "perm", "gap", "dup", "str"])
    if kind == "range":
        idx = None
    elif kind == "shift":
        idx = list(range(5, 5 + n))
    elif kind == "perm":
        idx = list(range(n))
        rng.shuffle(idx)
    elif kind == "gap":
        idx = [3 * i + 1 for i in range(n)]
    elif kind == "dup":
        idx = [i // 2 for i in range(n)]
    else:
        idx = ["r%d" % (n - i) for i in range(n)]
    dt = rng.choice([np.int64, np.int32, np.int8])
    df = pd.DataFrame({k: np.array(col, dtype=dt) for k, col in items}, index=idx)
    return df


def frame_index_ok(df, size):
    """returned frames carry the plain positional index 0..size-1"""
    return list(df.index) == list(range(size))


def snapshot_df(df):
    return None if df is None else (df.copy(deep=True), list(df.index), list(df.columns), [str(t) for t in df.dtypes])


def df_unchanged(df, snap):
    if df is None:
        return True
    c, idx, cols, dts = snap
    return list(df.index) == idx and list(df.columns) == cols and [str(t) for t in df.dtypes] == dts and df.equals(c)


# ------------------------------------------------------------------ case runners
def run_case(case, drv):
    kind = case["kind"]
    if kind == "gibbs_mn":
        return run_gibbs_mn(case, drv)
    if kind == "do_zero":
        return run_do_zero(case)
    if kind == "gibbs_seed":
        return run_gibbs_seed(case)
    N = Net(case["net"])
    key = common.canon_key(case)
    tags = ["kind=" + kind, "backend=" + case.get("backend", "numpy")] + net_tags(N)
    if case.get("backend") == "torch":
        from pgmpy import config

        config.set_backend("torch")
        try:
            return run_case_(case, drv, N, key, tags, kind)
        finally:
            config.set_backend("numpy")
    return run_case_(case, drv, N, key, tags, kind)


def run_case_(case, drv, N, key, tags, kind):
    model = N.build()
    try:
        return run_kind(case, drv, N, model, key, tags, kind)
    except NotImplementedError:
        # pandas 3: `column == state` raises when a batch column holds only str values (arrow string dtype) and
        # the evidence state is a tuple; only possible when ONE variable mixes str and tuple state names
        if any({"s", "t"} <= set(t[0] for t in l) for l in N.net["names"]):
            return ok(nontrivial=False, key=key, tags=tags + ["pandas3-str-column-eq-tuple-raises"])
        raise


def run_kind(case, drv, N, model, key, tags, kind):
    if kind in ("forward", "d16"):
        return run_forward(case, drv, N, model, key, tags)
    if kind == "reject":
        return run_reject(case, drv, N, model, key, tags)
    if kind == "lw":
        return run_lw(case, drv, N, model, key, tags)
    if kind == "tiny":
        return run_tiny(case, drv, N, model, key, tags)
    if kind == "gibbs":
        return run_gibbs(case, drv, N, model, key, tags)
    if kind == "simulate":
        return run_simulate(case, drv, N, model, key, tags)
    if kind == "struct":
        return run_struct(case, N, model, key, tags)
    if kind == "chi2":
        return run_chi2(case, N, model, key, tags)
    if kind == "struct_dec":
        return run_struct_dec(case, N, model, key, tags)
    if kind == "session":
        return run_session(case, drv, N, model, key, tags)
    if kind == "badcall":
        return run_badcall(case, drv, N, model, key, tags)
    if kind == "big":
        return run_big(case, drv, N, model, key, tags)
    if kind == "gibbs_start":
        return run_gibbs_start(case, drv, N, model, key, tags)
    if kind == "wide":
        return run_wide(case, drv, N, model, key, tags)
    raise ValueError(kind)


def run_forward(case, drv, N, model, key, tags, sampler=None):
    from pgmpy.sampling import BayesianModelSampling

    rng = random.Random(case["oseed"])
    size = case.get("size", 6)
    incl = case.get("incl", True)
    partial = gen_partial(N, rng, size) if case.get("partial") else []
    s = sampler or BayesianModelSampling(model)
    order = [N.id[x] for x in s.topological_order]
    impl_err = None
    pdf = partial_df(N, partial, rng) if partial else None
    psnap = snapshot_df(pdf)
    kw = {} if case.get("defaults") else {"show_progress": False}
    with oracle(case["oseed"]) as o:
        try:
            df = s.forward_sample(size=size, include_latents=incl, partial_samples=pdf, **kw)
        except ValueError as e:
            impl_err = str(e)[:80]
    if not df_unchanged(pdf, psnap):
        return bad("mutated-argument", {"what": "forward_sample changed partial_samples", "case": case}, key=key, tags=tags)
    tags += ["size=%d" % size, "incl=%s" % incl, "partial=%d" % len(partial), "calls=%d" % len(o.calls),
             "dec=%s" % bool(case.get("dec"))]
    st, r = drv.call_e("c07_forward", [N.sx(model), order, size, incl, partial, o.draws() + ([0] * 64 if impl_err else [])])
    if impl_err is not None or st == "err":
        # _adjusted_weights raises ValueError when |1 - sum| > 1e-3  <->  model error 1
        if impl_err is not None and st == "err" and r == 1 and "sum to 1" in impl_err:
            return ok(nontrivial=True, key=key, tags=tags + ["error=ValueError(sum)"])
        return bad("impl!=model", {"what": "impl error %r, model %r" % (impl_err, (st, r if st == "err" else "ok")),
                                   "case": case}, key=key, tags=tags)
    cols, rows, mcalls, consumed = r
    d = cmp_calls(o, mcalls)
    if d is not None and same_calls_other_order(o, mcalls):
        return ok(nontrivial=False, key=key, tags=tags + ["float-sort-knife-edge"])
    if d is None and consumed != len(o.draws()):
        d = "draws consumed: impl %d, model %d" % (len(o.draws()), consumed)
    if d is None:
        d = cmp_frames(N.frame(df), model_frame(cols, rows))
    if d is None and (len(df) != size or not frame_index_ok(df, size)):
        d = "rows: %d, requested %d, index %r" % (len(df), size, list(df.index)[:10])
    if d is not None:
        return bad("impl!=model", {"what": d, "case": case}, key=key, tags=tags)
    sp = spec_weight_maps(N, model)
    if sp is not None:
        return finding_or_violation(N, "impl!=spec", {"what": "weight map is not the CPD column", "where": sp,
                                                      "case": case}, key, tags)
    return ok(nontrivial=bool(N.net["edges"]) and len(o.calls) > 0, key=key, tags=tags)


def pick_evidence(N, rng, k, avoid=()):
    asg = N.sample_assignment(rng)
    cand = [v for v in range(N.n) if v not in avoid]
    vs = rng.sample(cand, min(k, len(cand)))
    return asg, [[v, asg[v]] for v in vs]


def knife_edge(sizes_impl, sizes_model):
    return len(sizes_impl) >= 1 and len(sizes_model) >= 1 and sizes_impl != sizes_model


def run_reject(case, drv, N, model, key, tags, sampler=None):
    from pgmpy.sampling import BayesianModelSampling
    from pgmpy.factors.discrete import State

    rng = random.Random(case["oseed"])
    size, incl = case["size"], case["incl"]
    asg, evn = pick_evidence(N, rng, case["nev"])
    psize = rng.choice([size, size + 3, 2 * size + 1])
    partial = gen_partial(N, rng, psize, avoid=[v for v, _ in evn]) if case.get("partial") else []
    s = sampler or BayesianModelSampling(model)
    order = [N.id[x] for x in s.topological_order]
    ev = [State(fresh(N.node[v]), fresh(N.names[v][k])) for v, k in evn]
    ev, ckind = as_container(random.Random(case["oseed"] + 11), ev, ["list", "list", "tuple", "plain"])
    evsnap = list(ev)
    tags.append("evidence-as=" + ckind)
    pdf = partial_df(N, partial, rng) if partial else None
    psnap = snapshot_df(pdf)
    sizes = []
    orig = s.forward_sample

    def rec_forward(*a, **kw):
        sizes.append(int(kw.get("size", a[0] if a else 1)))
        return orig(*a, **kw)

    s.forward_sample = rec_forward
    try:
        with oracle(case["oseed"]) as o:
            df = s.rejection_sample(evidence=ev, size=size, include_latents=incl, show_progress=False,
                                    partial_samples=pdf)
    except OracleLimit:
        return ok(nontrivial=False, key=key, tags=tags + ["oracle-limit"])
    finally:
        del s.forward_sample
    if list(ev) != evsnap or not df_unchanged(pdf, psnap):
        return bad("mutated-argument", {"what": "rejection_sample changed evidence / partial_samples", "case": case},
                   key=key, tags=tags)
    tags += ["size=%d" % size, "incl=%s" % incl, "partial=%d" % len(partial), "nev=%d" % len(evn),
             "batches=%d" % len(sizes)]
    zev = [[v, N.znames[v][k]] for v, k in evn]
    st, r = drv.call_e("c07_rejection", [N.sx(model), order, zev, size, incl, partial,
                                         [psize] if partial else [], len(sizes) + 2, o.draws()])
    if st == "err":
        return bad("impl!=model", {"what": "model error %s" % r, "impl_batch_sizes": sizes, "case": case},
                   key=key, tags=tags)
    cols, rows, mcalls, msizes, consumed = r
    if sizes != msizes:
        # float rounding of int((size-i)/prob*1.5): accepted only when the exact value is an integer
        k = next(i for i in range(min(len(sizes), len(msizes))) if sizes[i] != msizes[i]) \
            if any(a != b for a, b in zip(sizes, msizes)) else None
        if k is not None and abs(sizes[k] - msizes[k]) == 1:
            return ok(nontrivial=False, key=key, tags=tags + ["float-knife-edge"])
        return bad("impl!=model", {"what": "batch sizes impl %r model %r" % (sizes, msizes), "case": case},
                   key=key, tags=tags)
    d = cmp_calls(o, mcalls)
    if d is not None and same_calls_other_order(o, mcalls):
        return ok(nontrivial=False, key=key, tags=tags + ["float-sort-knife-edge"])
    if d is None:
        d = cmp_frames(N.frame(df), model_frame(cols, rows))
    if d is None and (len(df) != size or not frame_index_ok(df, size)):
        d = "rows: %d, requested %d, index %r" % (len(df), size, list(df.index)[:10])
    if d is None:
        f = N.frame(df)
        for v, z in zev:
            if v in f and any(x != z for x in f[v]):
                d = "evidence column %r not fixed" % N.node[v]
    if d is not None:
        return bad("impl!=model", {"what": d, "case": case}, key=key, tags=tags)
    sp = spec_weight_maps(N, model)
    if sp is not None:
        return finding_or_violation(N, "impl!=spec", {"what": "weight map is not the CPD column", "where": sp,
                                                      "case": case}, key, tags)
    return ok(nontrivial=bool(N.net["edges"]) and len(o.calls) > 0 and len(evn) > 0, key=key, tags=tags)


def run_lw(case, drv, N, model, key, tags, sampler=None):
    from pgmpy.sampling import BayesianModelSampling
    from pgmpy.factors.discrete import State

    rng = random.Random(case["oseed"])
    size, incl = case["size"], case["incl"]
    asg, evn = pick_evidence(N, rng, case["nev"])
    if case.get("force_ev"):
        evn = [list(x) for x in case["force_ev"]]
    s = sampler or BayesianModelSampling(model)
    order = [N.id[x] for x in s.topological_order]
    ev0 = [State(fresh(N.node[v]), fresh(N.names[v][k])) for v, k in evn]
    ev, ckind = as_container(random.Random(case["oseed"] + 11), ev0, ["list", "list", "tuple", "gen", "plain"])
    evsnap = list(ev) if ckind != "gen" else None
    tags.append("evidence-as=" + ckind)
    with oracle(case["oseed"]) as o:
        df = s.likelihood_weighted_sample(evidence=ev, size=size, include_latents=incl, show_progress=False)
    if evsnap is not None and list(ev) != evsnap:
        return bad("mutated-argument", {"what": "likelihood_weighted_sample changed the evidence list", "case": case},
                   key=key, tags=tags)
    tags += ["size=%d" % size, "incl=%s" % incl, "nev=%d" % len(evn), "calls=%d" % len(o.calls)]
    zev = [[v, N.znames[v][k]] for v, k in evn]
    cols, rows, mw, mcalls, consumed = drv.call("c07_lw", [N.sx(model), order, zev, size, incl, o.draws()])
    d = cmp_calls(o, mcalls)
    if d is not None and same_calls_other_order(o, mcalls):
        return ok(nontrivial=False, key=key, tags=tags + ["float-sort-knife-edge"])
    if d is None:
        d = cmp_frames(N.frame(df), model_frame(cols, rows))
    if d is None and (len(df) != size or not frame_index_ok(df, size)):
        d = "rows: %d, requested %d, index %r" % (len(df), size, list(df.index)[:10])
    if d is None:
        w = [float(x) for x in df["_weight"].tolist()]
        if len(w) != len(mw) or not all(close(a, common.frac(b)) for a, b in zip(w, mw)):
            d = "weights impl %r model %r" % (w[:20], [str(common.frac(b)) for b in mw[:20]])
    if d is None:
        f = N.frame(df)
        for v, z in zev:
            if v in f and any(x != z for x in f[v]):
                d = "evidence column %r not fixed" % N.node[v]
    if d is not None:
        return bad("impl!=model", {"what": d, "case": case}, key=key, tags=tags)
    sp = spec_weight_maps(N, model)
    if sp is not None:
        return finding_or_violation(N, "impl!=spec", {"what": "weight map is not the CPD column", "where": sp,
                                                      "case": case}, key, tags)
    return ok(nontrivial=bool(N.net["edges"]) and len(evn) > 0, key=key, tags=tags)


def run_tiny(case, drv, N, model, key, tags):
    """near-identical distinct columns: (1) likelihood weights under the oracle vs the model (relative 1e-13), which also
    checks pgmpy's weight map against the normalised CPD column for EVERY parent configuration (spec_weight_maps);
    (2) BayesianModelProbability.log_probability of every full assignment vs the exact value"""
    import numpy as np
    import pandas as pd
    from pgmpy.metrics.bn_inference import BayesianModelProbability

    r = run_lw(case, drv, N, model, key, tags)
    if not r["ok"]:
        return r
    asgs = list(itertools.product(*[range(c) for c in N.card]))
    lrng = random.Random(case["oseed"] + 7)
    corder = list(range(N.n))
    lrng.shuffle(corder)          # the column order of the data frame is the `ordering`; the index is never data
    df = pd.DataFrame({N.node[v]: [N.names[v][t[v]] for t in asgs] for v in corder},
                      index=[3 * i + 2 for i in range(len(asgs))])
    with np.errstate(divide="ignore"):
        lp = BayesianModelProbability(model).log_probability(df)
    for t, got in zip(asgs, [float(x) for x in lp]):
        asg = dict(enumerate(t))
        p = Fraction(1)
        for v in range(N.n):
            e = N.entry(v, t[v], asg)
            if N.pars[v]:
                e = e / sum(N.entry(v, k, asg) for k in range(N.card[v]))     # _reduce_marg normalises
            p *= e
        if p == 0:
            okrow = got == float("-inf")
            exp = float("-inf")
        else:
            exp = math.log(p.numerator) - math.log(p.denominator) if p.denominator.bit_length() > 1000 else math.log(p)
            okrow = abs(got - exp) <= 1e-13 * max(1.0, abs(exp))
        if not okrow:
            return bad("impl!=spec", {"what": "log_probability of a full assignment", "assignment": list(t),
                                      "impl": got, "exact": exp, "case": case}, key=key, tags=tags)
    r["tags"] = list(r["tags"]) + ["logprob-rows=%d" % len(asgs)]
    return r


def sub_case(kind, rng, net, **kw):
    c = {"kind": kind, "net": net, "oseed": rng.randint(0, 10**9), "size": rng.choice([1, 3, 6, 10]),
         "incl": rng.random() < 0.5, "partial": rng.random() < 0.3, "nev": rng.choice([0, 1, 2]),
         "ndo": rng.choice([0, 1]), "nvirt": rng.choice([0, 1]), "nvint": rng.choice([0, 1])}
    c.update(kw)
    return c


def run_ops(ops, drv, N, model, key, tags, sampler, phase):
    """several calls on the SAME sampler / model object, each compared with the (stateless) model; -> (bad | None, n)"""
    n = 0
    for k, op in enumerate(ops):
        t = []
        if op["kind"] == "forward":
            r = run_forward(op, drv, N, model, key, t, sampler=sampler)
        elif op["kind"] == "lw":
            r = run_lw(op, drv, N, model, key, t, sampler=sampler)
        elif op["kind"] == "reject":
            r = run_reject(op, drv, N, model, key, t, sampler=sampler)
        else:
            r = run_simulate(op, drv, N, model, key, t)
        if not r["ok"]:
            r["detail"] = {"session": "%s step %d (%s)" % (phase, k, op["kind"]), "inner": r["detail"].get("what"),
                           "op": {a: b for a, b in op.items() if a != "net"}}
            r["tags"] = list(tags) + ["failed-step=%s" % op["kind"]]
            return r, n
        n += 1
    return None, n


def random_cpd(rng, N, v, pars):
    """a fresh TabularCPD for node v of Net N with the given parents (ids) and random dyadic columns"""
    from pgmpy.factors.discrete import TabularCPD

    ncol = 1
    for u in pars:
        ncol *= N.card[u]
    cols = [common.rand_column(rng, N.card[v], zeros=True) for _ in range(ncol)]
    table = [[float(cols[j][s_]) for j in range(ncol)] for s_ in range(N.card[v])]
    sn = {N.node[v]: list(N.names[v])}
    for u in pars:
        sn[N.node[u]] = list(N.names[u])
    if pars:
        return TabularCPD(N.node[v], N.card[v], table, evidence=[N.node[u] for u in pars],
                          evidence_card=[N.card[u] for u in pars], state_names=sn)
    return TabularCPD(N.node[v], N.card[v], table, state_names=sn)


def run_session(case, drv, N, model, key, tags):
    """class A: several sampler calls on one BayesianModelSampling object, then an edit of the model through one of its
    mutators, then a NEW sampler and simulate() on the SAME model object; the oracle is the Coq model on the network's
    CURRENT state (read back from the object = what a freshly built object would hold)"""
    from pgmpy.sampling import BayesianModelSampling
    from pgmpy.factors.discrete import TabularCPD

    rng = random.Random(case["oseed"])
    net = case["net"]
    s1 = BayesianModelSampling(model)
    ops = [sub_case("forward", rng, net), sub_case("lw", rng, net), sub_case("forward", rng, net),
           sub_case("reject", rng, net, partial=False), sub_case("lw", rng, net), sub_case("simulate", rng, net)]
    r, n1 = run_ops(ops, drv, N, model, key, tags, s1, "before-edit")
    if r is not None:
        return r
    edit = case["edit"]
    nonlat = [v for v in range(N.n) if v not in N.lat]
    if edit == "replace_cpd":
        v = rng.randrange(N.n)
        model.add_cpds(random_cpd(rng, N, v, N.pars[v]))
    elif edit == "remove_edge" and N.net["edges"]:
        u, v = rng.choice(N.net["edges"])
        model.remove_edge(N.node[u], N.node[v])
        model.add_cpds(random_cpd(rng, N, v, [w for w in N.pars[v] if w != u]))
    elif edit == "remove_node" and N.n >= 2 and nonlat:
        model.remove_node(N.node[rng.choice(nonlat)])
    elif edit == "do_inplace":
        model.do([N.node[rng.randrange(N.n)]], inplace=True)
    elif edit == "add_node":
        p_ = rng.randrange(N.n)
        new = "NEW"
        model.add_node(new)
        model.add_edge(N.node[p_], new)
        ncol = N.card[p_]
        cols = [common.rand_column(rng, 2, zeros=True) for _ in range(ncol)]
        model.add_cpds(TabularCPD(new, 2, [[float(cols[j][s_]) for j in range(ncol)] for s_ in range(2)],
                                  evidence=[N.node[p_]], evidence_card=[ncol],
                                  state_names={new: ["n0", "n1"], N.node[p_]: list(N.names[p_])}))
    else:
        edit = "none"
    try:
        model.check_model()
    except ValueError:
        return ok(nontrivial=False, key=key, tags=tags + ["edit=%s" % edit, "edited-model-invalid"])
    net2 = net_from_model(model)
    N2 = Net(net2)
    s2 = BayesianModelSampling(model)
    ops2 = [sub_case("forward", rng, net2), sub_case("lw", rng, net2), sub_case("simulate", rng, net2),
            sub_case("reject", rng, net2, partial=False)]
    r, n2 = run_ops(ops2, drv, N2, model, key, tags, s2, "after-" + edit)
    if r is not None:
        return r
    return ok(nontrivial=bool(N.net["edges"]), key=key, tags=tags + ["edit=%s" % edit, "session-calls=%d" % (n1 + n2)])


def model_state(model):
    import numpy as np

    return (sorted(map(repr, model.nodes())), sorted(map(repr, model.edges())),
            [(repr(c.variable), [repr(x) for x in c.variables], np.array(c.get_values(), dtype=float).tolist())
             for c in model.cpds], sorted(map(repr, model.latents)))


def run_badcall(case, drv, N, model, key, tags):
    """class K / F: calls that must be rejected are rejected (also when only a LATER argument is invalid), leave the model
    as it was, and a following valid call behaves like on a fresh object"""
    from pgmpy.factors.discrete import TabularCPD, State
    from pgmpy.models import BayesianNetwork
    from pgmpy.sampling import BayesianModelSampling

    rng = random.Random(case["oseed"])
    before = model_state(model)
    vs = list(range(N.n))
    rng.shuffle(vs)
    a = vs[0]
    b_ = vs[1 % len(vs)]
    good = lambda v: N.names[v][rng.randrange(N.card[v])]
    bad_state = "no-such-state"
    calls = [("evidence-bad-state", dict(evidence={N.node[a]: bad_state})),
             ("do-bad-state", dict(do={N.node[a]: bad_state})),
             ("do-and-evidence-same-var", dict(do={N.node[a]: good(a)}, evidence={N.node[a]: good(a)})),
             ("virtual-evidence-wrong-card", dict(virtual_evidence=[TabularCPD(N.node[a], N.card[a] + 1,
                                                                          [[0.5]] * (N.card[a] + 1))])),
             ("virtual-evidence-unknown-var", dict(virtual_evidence=[TabularCPD("no-such-node", 2, [[0.5], [0.5]])]))]
    if a != b_:
        calls.append(("later-argument-invalid", dict(do={N.node[a]: good(a)}, evidence={N.node[b_]: bad_state})))
    for name, kw in calls:
        try:
            model.simulate(n_samples=2, show_progress=False, seed=1, **kw)
        except ValueError:
            continue
        return bad("accepted-invalid-call", {"what": "simulate accepted " + name, "case": case}, key=key, tags=tags)
    # likelihood weighting with an unknown evidence state: KeyError <-> model error 6
    s = BayesianModelSampling(model)
    order = [N.id[x] for x in s.topological_order]
    try:
        s.likelihood_weighted_sample(evidence=[State(N.node[a], bad_state)], size=2, show_progress=False)
        return bad("accepted-invalid-call", {"what": "likelihood_weighted_sample accepted an unknown state",
                                             "case": case}, key=key, tags=tags)
    except KeyError:
        pass
    st, r = drv.call_e("c07_lw", [N.sx(model), order, [[a, -999999]], 2, True, []])
    if (st, r) != ("err", 6):
        return bad("impl!=model", {"what": "model accepts the unknown evidence state: %r" % ((st, r),), "case": case},
                   key=key, tags=tags)
    # the same set of parent state names in another order in the child's CPD must be rejected by simulate()
    cand = [(v, u) for v in range(N.n) for u in N.pars[v] if N.card[u] >= 2]
    if cand:
        v, u = rng.choice(cand)
        m2 = N.build()
        swapped = list(N.names[u])
        swapped[0], swapped[1] = swapped[1], swapped[0]
        N3 = Net(N.net)
        N3.names = [list(l) for l in N.names]
        c_new = random_cpd(rng, N, v, N.pars[v])
        sn = {N.node[v]: list(N.names[v])}
        for w in N.pars[v]:
            sn[N.node[w]] = swapped if w == u else list(N.names[w])
        c_bad = TabularCPD(N.node[v], N.card[v], c_new.get_values(), evidence=[N.node[w] for w in N.pars[v]],
                           evidence_card=[N.card[w] for w in N.pars[v]], state_names=sn)
        m2.add_cpds(c_bad)
        try:
            m2.simulate(n_samples=2, show_progress=False, seed=1)
            return bad("accepted-invalid-call", {"what": "simulate accepted a child CPD listing a parent's state names "
                                                         "in another order", "case": case}, key=key, tags=tags)
        except ValueError:
            tags.append("misordered-parent-names=rejected")
    if model_state(model) != before:
        return bad("mutated-argument", {"what": "a rejected call changed the model", "case": case}, key=key, tags=tags)
    r = run_simulate(sub_case("simulate", rng, case["net"]), drv, N, model, key, [])
    if not r["ok"]:
        r["detail"] = {"what": "valid simulate() after rejected calls", "inner": r["detail"].get("what")}
        r["tags"] = tags
        return r
    return ok(nontrivial=True, key=key, tags=tags + ["rejected-calls=%d" % (len(calls) + 1)])


def run_big(case, drv, N, model, key, tags):
    """class G: 9 variables in one CPD (8 parents), integer node names up to 11"""
    rng = random.Random(case["oseed"])
    for op in [sub_case("forward", rng, case["net"], size=12, partial=False),
               sub_case("lw", rng, case["net"], size=8, nev=2),
               sub_case("reject", rng, case["net"], size=3, nev=1, partial=False),
               sub_case("simulate", rng, case["net"], size=3, partial=False)]:
        t = []
        fn = {"forward": run_forward, "lw": run_lw, "reject": run_reject, "simulate": run_simulate}[op["kind"]]
        r = fn(op, drv, N, model, key, t)
        if not r["ok"]:
            r["tags"] = tags + ["failed-step=" + op["kind"]]
            return r
    return ok(nontrivial=True, key=key, tags=tags + ["vars-in-one-factor=9"])


def run_gibbs_start(case, drv, N, model, key, tags):
    """boundary start states: for every variable position one value out of {-1, 0, card-1, card, card+1} (the others
    valid), through every route: GibbsSampling.sample / generate_sample / set_start_state and the MarkovChain
    constructor + MarkovChain.sample.  Verdict of the model (c07_start_ok): ValueError exactly when a value is outside
    0..card-1; otherwise the chain starts there (row 0 = start) and every value of every row is a state of its column."""
    from pgmpy.factors.discrete import State
    from pgmpy.models import MarkovChain
    from pgmpy.sampling import GibbsSampling

    rng = random.Random(case["oseed"])
    g0 = GibbsSampling(model)
    vars_ = [N.id[str(x)] for x in g0.variables]
    names = [str(N.node[v]) for v in vars_]
    cards = [N.card[v] for v in vars_]
    n = len(vars_)
    checked = 0

    def valid_rows(rows):
        return all(0 <= int(x) < c for r in rows for x, c in zip(r, cards))

    def attempt(route, start):
        ss = [State(nm, s_) for nm, s_ in zip(names, start)]
        if route == "sample":
            df = GibbsSampling(model).sample(start_state=ss, size=2, seed=3, include_latents=True)
            return [[int(df[nm].iloc[i]) for nm in names] for i in range(len(df))], True
        if route == "generate":
            rows = list(GibbsSampling(model).generate_sample(start_state=ss, size=2, seed=3, include_latents=True))
            return [[int(dict((str(x.var), x.state) for x in r)[nm]) for nm in names] for r in rows], False
        if route == "set":
            g = GibbsSampling(model)
            g.set_start_state(ss)
            return [[int(dict((str(x.var), x.state) for x in g.state)[nm]) for nm in names]], True
        mc = MarkovChain(list(names), list(cards), start_state=ss)
        for nm, c in zip(names, cards):
            mc.add_transition_model(nm, {i: {j: 1.0 / c for j in range(c)} for i in range(c)})
        df = mc.sample(size=2, seed=3)
        return [[int(df[nm].iloc[i]) for nm in names] for i in range(len(df))], True

    for pos in range(n):
        for val in sorted({-1, 0, cards[pos] - 1, cards[pos], cards[pos] + 1}):
            start = [rng.randrange(c) for c in cards]
            start[pos] = val
            verdict = bool(drv.call("c07_start_ok", [N.sx(model), vars_, start]))
            for route in ("sample", "generate", "set", "markovchain"):
                what = None
                try:
                    rows, first_is_start = attempt(route, start)
                    if not verdict:
                        what = "accepted (returned %r)" % (rows[:2],)
                    elif first_is_start and rows[0] != start:
                        what = "row 0 is %r, not the start state" % (rows[0],)
                    elif not valid_rows(rows):
                        what = "returned a value that is not a state of its column: %r" % (rows,)
                except ValueError:
                    if verdict:
                        what = "raised ValueError for a valid start state"
                except KeyError as e:
                    what = "raised KeyError(%s) instead of %s" % (str(e)[:20], "ValueError" if not verdict else "returning")
                checked += 1
                if what is not None:
                    return bad("impl!=model", {"what": "%s, start %r (cardinalities %r): %s" % (route, start, cards, what),
                                               "case": case}, key=key, tags=tags)
    tags += ["start-states=%d" % checked]
    return ok(nontrivial=True, key=key, tags=tags)


def run_wide(case, drv, N, model, key, tags):
    """a variable with 257..400 states: oracle comparison of forward / likelihood-weighted / rejection samples and
    simulate, and (real RNG, supporting) a state whose CPD entry is exactly 0 never appears"""
    from pgmpy.sampling import BayesianModelSampling

    rng = random.Random(case["oseed"])
    w = max(range(N.n), key=lambda v: N.card[v])
    high = [k for k in range(256, N.card[w]) if any(N.vals[w][k * N.ncol(w) + j] > 0 for j in range(N.ncol(w)))]
    ev_state = rng.choice(high) if high else 0
    small = [v for v in range(N.n) if v != w]
    ops = [sub_case("forward", rng, case["net"], size=12, partial=False),
           sub_case("lw", rng, case["net"], size=8, nev=1, force_ev=[[w, ev_state]]),
           sub_case("lw", rng, case["net"], size=6, nev=1, force_ev=[[small[0], 0]]),
           sub_case("simulate", rng, case["net"], size=3, partial=False, ndo=0, nev=0)]
    for op in ops:
        t = []
        fn = {"forward": run_forward, "lw": run_lw, "simulate": run_simulate}[op["kind"]]
        r = fn(op, drv, N, model, key, t)
        if not r["ok"]:
            r["tags"] = tags + ["failed-step=" + op["kind"]]
            return r
    df = BayesianModelSampling(model).forward_sample(size=200, seed=case["seed"], show_progress=False,
                                                     include_latents=True)
    rows, e = rows_numbers(N, df)
    if e:
        return bad("structural", {"what": "forward_sample: " + e, "case": case}, key=key, tags=tags)
    z = zero_cell(N, rows)
    if z:
        return bad("impl!=spec", {"what": "forward_sample produced a state whose CPD entry is exactly 0", "where": z,
                                  "case": case}, key=key, tags=tags)
    return ok(nontrivial=bool(high), key=key, tags=tags + ["wide=%d" % N.card[w], "variant=" + case["net"].get("variant", "")])


def run_gibbs_seed(case):
    """a fixed seed reproduces GibbsSampling.sample also when the start state is drawn at random (start_state=None):
    fresh samplers, same seed, different state of the global RNG before the call (repaired by 606fa27: the seed is set
    before the random start state is drawn; a recurrence is an unlisted violation)"""
    import numpy as np
    from pgmpy.models import BayesianNetwork
    from pgmpy.factors.discrete import TabularCPD
    from pgmpy.sampling import GibbsSampling

    def build():
        m = BayesianNetwork([("A", "B")])
        m.add_cpds(TabularCPD("A", 2, [[0.5], [0.5]]),
                   TabularCPD("B", 2, [[0.75, 0.25], [0.25, 0.75]], evidence=["A"], evidence_card=[2]))
        return m

    key = common.canon_key(case)
    tags = ["kind=gibbs_seed"]
    frames = []
    for pre in range(8):
        np.random.seed(1000 + pre)
        frames.append(GibbsSampling(build()).sample(size=4, seed=5))
    if not all(f.equals(frames[0]) for f in frames):
        return bad("structural", {"what": "GibbsSampling(model).sample(size=4, seed=5) on fresh samplers returns different "
                                          "frames depending on the global RNG state before the call (the random start "
                                          "state is drawn before the seed is set)",
                                  "first_rows": [f.iloc[0].tolist() for f in frames], "case": case},
                   finding=None, key=key, tags=tags)
    return ok(nontrivial=True, key=key, tags=tags)


def full_conditional(factors, cards, nvars, v, others, tup):
    """brute force P(v | others = tup) over the product of all `factors` (callables asg -> Fraction)"""
    asg = dict(zip(others, tup))
    ws = []
    for s in range(cards[v]):
        asg[v] = s
        p = Fraction(1)
        for f in factors:
            p *= f(asg)
        ws.append(p)
    t = sum(ws)
    return None if t == 0 else [w / t for w in ws]


def cmp_kernel(tm, mk, ids, spec):
    """tm: pgmpy transition_models; mk: model reply; spec(v, others, tup) -> list | None.
    returns (model_diff, spec_diff, entries)"""
    import numpy as np

    cnt = 0
    for v, table in mk:
        name = ids[v]
        impl = None
        for kname in tm:
            if str(kname) == str(name):
                impl = tm[kname]
        if impl is None or len(impl) != len(table):
            return ("kernel table sizes for %r" % (name,), None, cnt)
        for tup, w in table:
            got = impl[tuple(tup)]
            got = [float(x) for x in np.asarray(got).ravel()]
            if not w:
                if not all(x != x for x in got):
                    return ("kernel %r %r: model nan, impl %r" % (name, tup, got), None, cnt)
                continue
            exp = [common.frac(x) for x in w[0]]
            if len(got) != len(exp) or not all(close(a, b, 1e-12) for a, b in zip(got, exp)):
                return ("kernel %r %r: impl %r model %r" % (name, tup, got, [str(x) for x in exp]), None, cnt)
            cnt += len(exp)
            sp = spec(v, tup)
            if sp is not None and not all(close(a, b, 1e-12) for a, b in zip(got, sp)):
                return (None, {"variable": repr(name), "others": list(tup), "kernel": got,
                               "full_conditional": [str(x) for x in sp]}, cnt)
    return (None, None, cnt)


def run_gibbs(case, drv, N, model, key, tags):
    from pgmpy.sampling import GibbsSampling

    g = GibbsSampling(model)
    vars_ = [N.id[str(x)] for x in g.variables]
    mk = drv.call("c07_kernel", [N.sx(model), vars_, []])
    factors = [(lambda a, v=v: N.entry(v, a[v], a)) for v in range(N.n)]

    def spec(v, tup):
        others = [w for w in vars_ if w != v]
        return full_conditional(factors, N.card, N.n, v, others, tup)

    md, sd, cnt = cmp_kernel(g.transition_models, mk, N.node, spec)
    tags += ["entries=%d" % min(cnt, 999)]
    if md is not None:
        return bad("impl!=model", {"what": md, "case": case}, key=key, tags=tags)
    # the chain itself under the oracle
    rng = random.Random(case["oseed"])
    size = case["size"]
    asg = N.sample_assignment(rng)
    start = [asg[v] for v in vars_]
    nan = any(not w for _, t in mk for _, w in t)
    if not nan:
        from pgmpy.factors.discrete import State

        g2 = GibbsSampling(model)
        with oracle(case["oseed"]) as o:
            try:
                start_states = [State(fresh(N.node[v]), s) for v, s in zip(vars_, start)]
                snapshot = list(start_states)
                arg, ckind = as_container(random.Random(case["oseed"] + 11), start_states,
                                          ["list", "list", "tuple", "gen", "plain", "items"])
                if ckind == "list":
                    arg = start_states
                tags.append("start-as=" + ckind)
                df = g2.sample(start_state=arg, size=size, include_latents=True)
                err = None
                if start_states != snapshot:
                    return bad("mutated-argument", {"what": "GibbsSampling.sample changed the caller's start_state "
                                                            "list", "before": repr(snapshot), "after": repr(start_states),
                                                    "case": case}, key=key, tags=tags)
            except ValueError as e:
                err = "ValueError"
        if err is None:
            st, r = drv.call_e("c07_gibbs", [N.sx(model), vars_, [], size, start, o.draws()])
            if st == "err":
                return bad("impl!=model", {"what": "model error %s in Gibbs chain" % r, "case": case}, key=key,
                           tags=tags)
            rows, mcalls, consumed = r
            d = cmp_calls(o, mcalls)
            if d is None:
                got = [[int(df[str(N.node[v])].iloc[i]) for v in vars_] for i in range(len(df))]
                if got != rows:
                    d = "chain impl %r model %r" % (got[:10], rows[:10])
            if d is None and len(df) != size:
                d = "rows %d requested %d" % (len(df), size)
            if d is not None:
                return bad("impl!=model", {"what": d, "case": case}, key=key, tags=tags)
            tags += ["chain=%d" % size]
            # (A) a second call on the SAME object without start_state continues from the last state;
            # (J) generate_sample: the generator variant, one state list per sweep
            last = rows[-1]
            size2 = 1 + size % 3
            with oracle(case["oseed"] + 1) as o2:
                df2 = g2.sample(size=size2, include_latents=True)
            st, r = drv.call_e("c07_gibbs", [N.sx(model), vars_, [], size2, last, o2.draws()])
            d = None
            if st == "err":
                d = "model error %s in the continued chain" % r
            else:
                rows2, mcalls2, _ = r
                d = cmp_calls(o2, mcalls2)
                got2 = [[int(df2[str(N.node[v])].iloc[i]) for v in vars_] for i in range(len(df2))]
                if d is None and got2 != rows2:
                    d = "continued chain impl %r model %r (continues from %r)" % (got2[:10], rows2[:10], last)
            if d is None:
                g3 = GibbsSampling(model)
                with oracle(case["oseed"] + 2) as o3:
                    gen = list(g3.generate_sample(start_state=[State(N.node[v], s_) for v, s_ in zip(vars_, start)],
                                                  size=size, include_latents=True))
                st, r = drv.call_e("c07_gibbs", [N.sx(model), vars_, [], size + 1, start, o3.draws()])
                if st == "err":
                    d = "model error %s for generate_sample" % r
                else:
                    rows3, mcalls3, _ = r
                    d = cmp_calls(o3, mcalls3)
                    got3 = [[int(dict((str(x.var), x.state) for x in row)[str(N.node[v])]) for v in vars_] for row in gen]
                    if d is None and got3 != rows3[1:]:
                        d = "generate_sample impl %r model %r" % (got3[:10], rows3[1:11])
            if d is not None:
                return bad("impl!=model", {"what": d, "case": case}, key=key, tags=tags)
            tags += ["continued+generator"]
        else:
            tags += ["chain-error=" + err]
    if sd is not None:
        return finding_or_violation(N, "impl!=spec", {"what": "Gibbs kernel is not the full conditional", "where": sd,
                                                      "case": case}, key, tags)
    return ok(nontrivial=cnt > 0 and bool(N.net["edges"]), key=key, tags=tags)


def run_gibbs_mn(case, drv):
    from pgmpy.models import MarkovNetwork
    from pgmpy.factors.discrete import DiscreteFactor
    from pgmpy.sampling import GibbsSampling

    rng = random.Random(case["mnseed"])
    n = rng.randint(2, 4)
    names = ["P", "Q", "R", "S"][:n]
    card = [rng.choice([2, 2, 3]) for _ in range(n)]
    style = rng.choice(["none", "str", "int", "perm"])
    edges = [(i, j) for i in range(n) for j in range(i + 1, n) if rng.random() < 0.6]
    if not edges:
        edges = [(0, 1)]
    # every node must be in some factor
    for v in range(n):
        if not any(v in e for e in edges):
            edges.append((v, (v + 1) % n))
    snames = []
    for v in range(n):
        if style == "str":
            snames.append(["m%d" % i for i in range(card[v])])
        elif style == "perm":
            p = list(range(card[v]))
            while p == list(range(card[v])):
                rng.shuffle(p)
            snames.append(p)
        else:
            snames.append(list(range(card[v])))
    m = MarkovNetwork()
    m.add_nodes_from(names)
    m.add_edges_from([(names[i], names[j]) for i, j in edges])
    fs, fsx, fcall = [], [], []
    for (i, j) in edges:
        sc = [i, j] if rng.random() < 0.5 else [j, i]
        scale = float(10.0 ** rng.choice([0, 0, 0, -90, -30, 30, 90, -12]))       # magnitudes (class H)
        vals = [Fraction(float(Fraction(rng.choice([0, 1, 1, 2, 3, 5, 8]), rng.choice([1, 2, 4]))) * scale)
                for _ in range(card[sc[0]] * card[sc[1]])]
        kw = {} if style == "none" else {"state_names": {names[x]: snames[x] for x in sc}}
        fs.append(DiscreteFactor([names[x] for x in sc], [card[x] for x in sc], [float(x) for x in vals], **kw))
        fsx.append([sc, vals])
        fcall.append(lambda a, sc=sc, vals=vals: vals[a[sc[0]] * card[sc[1]] + a[sc[1]]])
    m.add_factors(*fs)
    key = common.canon_key(case)
    tags = ["kind=gibbs_mn", "n=%d" % n, "names=" + style]
    g = GibbsSampling(m)
    vars_ = [names.index(str(x)) for x in g.variables]
    bnsx = [vars_, [], [], [[v, card[v]] for v in range(n)], [[v, intern_names(snames[v])] for v in range(n)]]
    # model.get_factors() order
    order_f = []
    for f in m.get_factors():
        k = next(i for i, g_ in enumerate(fs) if g_ is f)
        order_f.append(fsx[k])
    mk = drv.call("c07_kernel", [bnsx, vars_, order_f])

    def spec(v, tup):
        others = [w for w in vars_ if w != v]
        return full_conditional(fcall, card, n, v, others, tup)

    md, sd, cnt = cmp_kernel(g.transition_models, mk, names, spec)
    if md is not None:
        return bad("impl!=model", {"what": md, "case": case}, key=key, tags=tags)
    if sd is not None:
        return bad("impl!=spec", {"what": "Gibbs kernel (Markov network) is not the full conditional", "where": sd,
                                  "case": case}, finding=None, key=key, tags=tags)
    return ok(nontrivial=cnt > 0, key=key, tags=tags + ["entries=%d" % min(cnt, 999)])


def run_simulate(case, drv, N, model, key, tags):
    import numpy as np
    import pgmpy.sampling.Sampling as S
    from pgmpy.factors.discrete import TabularCPD

    rng = random.Random(case["oseed"])
    size, incl = case["size"], case["incl"]
    asg = N.sample_assignment(rng)
    vs = list(range(N.n))
    rng.shuffle(vs)
    ndo = min(case["ndo"], len(vs))
    dos = [[v, rng.randrange(N.card[v])] for v in vs[:ndo]]
    rest = vs[ndo:]
    nev = min(case["nev"], len(rest))
    evn = [[v, asg[v]] for v in rest[:nev]]
    rest = rest[nev:]
    nvirt = min(case["nvirt"], len(rest))
    nvint = min(case.get("nvint", 0), len(rest) - nvirt)

    def soft(v):
        q = [Fraction(rng.randint(0, 8), 8) for _ in range(N.card[v])]
        if q[asg[v]] == 0:
            q[asg[v]] = Fraction(1, 2)
        return q

    virt = [[N.n + i, v, soft(v)] for i, v in enumerate(rest[:nvirt])]                       # virtual evidence
    vint = [[N.n + nvirt + i, v, soft(v)] for i, v in enumerate(rest[nvirt:nvirt + nvint])]   # virtual intervention
    psize = size
    partial = gen_partial(N, rng, psize, avoid=[v for v, _ in dos + evn]) if case.get("partial") else []
    tags += ["size=%d" % size, "incl=%s" % incl, "do=%d" % len(dos), "ev=%d" % len(evn), "virt=%d" % len(virt),
             "vint=%d" % len(vint), "partial=%d" % len(partial)]
    # the fresh names simulate() gives the auxiliary children (a6b57c2): "__" + str(var), "_"-prefixed while taken
    taken = set(N.node)
    extra = {}
    for nv, v, _ in virt + vint:
        nm = "__" + str(N.node[v])
        while nm in taken:
            nm = "_" + nm
        taken.add(nm)
        extra[nm] = nv
    # capture the sampler simulate() builds
    insts, sizes = [], []
    orig_init = S.BayesianModelSampling.__init__
    orig_fwd = S.BayesianModelSampling.forward_sample

    def rec_init(self, m):
        orig_init(self, m)
        insts.append(self)

    def rec_fwd(self, *a, **kw):
        sizes.append(int(kw.get("size", a[0] if a else 1)))
        return orig_fwd(self, *a, **kw)

    def soft_cpd(v, q):
        return TabularCPD(N.node[v], N.card[v], [[float(x)] for x in q], state_names={N.node[v]: list(N.names[v])})

    vcpds = [soft_cpd(v, q) for _, v, q in virt]
    icpds = [soft_cpd(v, q) for _, v, q in vint]
    a_do = {fresh(N.node[v]): fresh(N.names[v][k]) for v, k in dos} or None
    a_ev = {fresh(N.node[v]): fresh(N.names[v][k]) for v, k in evn} or None
    pdf = partial_df(N, partial, rng) if partial else None
    snap = (dict(a_do or {}), dict(a_ev or {}), list(vcpds), list(icpds),
            [np.array(c.get_values(), dtype=float).copy() for c in vcpds + icpds], snapshot_df(pdf),
            sorted(map(repr, model.nodes())), sorted(map(repr, model.edges())), len(model.cpds))
    kw = dict(n_samples=size, include_latents=incl, show_progress=False, do=a_do, evidence=a_ev,
              virtual_evidence=vcpds or None, virtual_intervention=icpds or None, partial_samples=pdf)
    S.BayesianModelSampling.__init__ = rec_init
    S.BayesianModelSampling.forward_sample = rec_fwd
    try:
        with oracle(case["oseed"]) as o:
            df = model.simulate(**kw)
    except OracleLimit:
        return ok(nontrivial=False, key=key, tags=tags + ["oracle-limit"])
    finally:
        S.BayesianModelSampling.__init__ = orig_init
        S.BayesianModelSampling.forward_sample = orig_fwd
    after = (dict(a_do or {}), dict(a_ev or {}), list(vcpds), list(icpds),
             [np.array(c.get_values(), dtype=float) for c in vcpds + icpds], None,
             sorted(map(repr, model.nodes())), sorted(map(repr, model.edges())), len(model.cpds))
    same = (snap[0] == after[0] and snap[1] == after[1] and all(x is y for x, y in zip(snap[2] + snap[3], after[2] + after[3]))
            and len(snap[2]) == len(after[2]) and len(snap[3]) == len(after[3])
            and all(np.array_equal(x, y) for x, y in zip(snap[4], after[4])) and df_unchanged(pdf, snap[5])
            and snap[6:] == after[6:])
    if not same:
        return bad("mutated-argument", {"what": "simulate changed one of its arguments or the model itself",
                                        "case": case}, key=key, tags=tags)
    inst = insts[-1]
    ids = dict(N.id)
    ids.update(extra)
    unknown = [x for x in inst.model.nodes() if x not in ids]
    if unknown:
        return bad("impl!=model", {"what": "unexpected auxiliary node names %r (expected %r)" % (unknown, sorted(extra)),
                                   "case": case}, key=key, tags=tags)
    nodes2 = [ids[x] for x in inst.model.nodes()]
    order = [ids[x] for x in inst.topological_order]
    zdo = [[v, N.znames[v][k]] for v, k in dos]
    zev = [[v, N.znames[v][k]] for v, k in evn]
    has_ev = bool(dos or evn or virt or vint)
    fuel = len(sizes) + 2
    if not has_ev and partial:
        # forward_sample path keeps partial_samples: the forward entry of the model (on the unchanged network)
        r2 = drv.call("c07_forward", [N.sx(model), order, size, True, partial, o.draws()])
        cols_all, rows_all, mcalls, consumed = r2
        keep = [c for c in cols_all if incl or c not in N.lat]
        idx = [cols_all.index(c) for c in keep]
        cols, rows, msizes = keep, [[r_[i] for i in idx] for r_ in rows_all], sizes
    else:
        st, r = drv.call_e("c07_simulate", [N.sx(model), nodes2, order, zdo, zev, virt + vint, size, incl,
                                            partial, [psize] if partial else [], fuel, o.draws(),
                                            [v for _, v, _ in vint]])
        if st == "err":
            return bad("impl!=model", {"what": "model error %s" % r, "impl_batch_sizes": sizes, "case": case},
                       key=key, tags=tags)
        cols, rows, mcalls, msizes, consumed = r
    if sizes != msizes:
        k = [i for i in range(min(len(sizes), len(msizes))) if sizes[i] != msizes[i]]
        if k and abs(sizes[k[0]] - msizes[k[0]]) == 1:
            return ok(nontrivial=False, key=key, tags=tags + ["float-knife-edge"])
        return bad("impl!=model", {"what": "batch sizes impl %r model %r" % (sizes, msizes), "case": case},
                   key=key, tags=tags)
    d = cmp_calls(o, mcalls)
    if d is not None and same_calls_other_order(o, mcalls):
        return ok(nontrivial=False, key=key, tags=tags + ["float-sort-knife-edge"])
    if d is None:
        d = cmp_frames(N.frame(df, extra), model_frame(cols, rows))
    if d is None and (len(df) != size or not frame_index_ok(df, size)):
        d = "rows: %d, requested %d, index %r" % (len(df), size, list(df.index)[:10])
    if d is None:
        f = N.frame(df, extra)
        for v, z in zdo + zev:
            if v in f and any(x != z for x in f[v]):
                d = "do/evidence column %r not fixed" % N.node[v]
        if not incl and any(v in f for v in N.lat):
            d = "latent column returned without include_latents"
    if d is not None:
        return bad("impl!=model", {"what": d, "case": case}, key=key, tags=tags)
    sp = spec_weight_maps(N, model)
    if sp is not None:
        return finding_or_violation(N, "impl!=spec", {"what": "weight map is not the CPD column", "where": sp,
                                                      "case": case}, key, tags)
    return ok(nontrivial=bool(N.net["edges"]) and len(o.calls) > 0, key=key, tags=tags)


# ------------------------------------------------------------------ structural checks with the real RNG
class Hang(Exception):
    pass


@contextmanager
def time_limit(sec):
    import signal

    def h(signum, frame):
        raise Hang()

    old = signal.signal(signal.SIGALRM, h)
    signal.setitimer(signal.ITIMER_REAL, sec)
    try:
        yield
    finally:
        signal.setitimer(signal.ITIMER_REAL, 0)
        signal.signal(signal.SIGALRM, old)


def rows_numbers(N, df):
    """DataFrame of state names -> list of {id: state number}; None if a cell is not a valid state name"""
    f = N.frame(df)
    nrows = len(df)
    out = []
    for i in range(nrows):
        row = {}
        for v, col in f.items():
            z = col[i]
            if z not in N.znames[v]:
                return None, "cell %r of column %r is not a state name" % (z, N.node[v])
            row[v] = N.znames[v].index(z)
        out.append(row)
    return out, None


def zero_cell(N, rows):
    for r in rows:
        if len(r) < N.n:
            return None
        for v in range(N.n):
            if N.entry(v, r[v], r) == 0:
                return {"row": {repr(N.node[k]): repr(N.names[k][s]) for k, s in r.items()},
                        "zero_entry_of": repr(N.node[v])}
    return None


def run_struct(case, N, model, key, tags):
    try:
        with time_limit(60):
            return run_struct_(case, N, model, key, tags)
    except Hang:
        return bad("structural", {"what": "a sampler did not return within 60 s", "case": case}, key=key, tags=tags)


def run_struct_(case, N, model, key, tags):
    from pgmpy.sampling import BayesianModelSampling, GibbsSampling
    from pgmpy.factors.discrete import State

    rng = random.Random(case["oseed"])
    size, seed = case["size"], case["seed"]
    s = BayesianModelSampling(model)
    fails, prop_fail = [], []
    differ = None
    # forward
    import numpy as np

    a = s.forward_sample(size=size, seed=seed, show_progress=False, include_latents=True)
    b = s.forward_sample(size=size, seed=seed, show_progress=False, include_latents=True)
    # seed=s (also s = 0) means np.random.seed(s): deterministic check that the argument is honoured
    np.random.seed(seed)
    a3 = s.forward_sample(size=size, show_progress=False, include_latents=True)
    if not a.equals(a3):
        fails.append("forward_sample(seed=%d) differs from np.random.seed(%d); forward_sample()" % (seed, seed))
    # result independence (class C): scribbling over a returned frame does not influence later calls
    keep = a.copy(deep=True)
    a[a.columns[0]] = "scribble"
    a4 = s.forward_sample(size=size, seed=seed, show_progress=False, include_latents=True)
    if not a4.equals(keep) or a4 is a:
        fails.append("forward_sample: a later call is influenced by mutating an earlier result")
    a = keep
    c = s.forward_sample(size=size, seed=seed + 1, show_progress=False, include_latents=False)
    if not a.equals(b):
        fails.append("forward_sample: same seed, different frames")
    if len(a) != size or len(c) != size:
        fails.append("forward_sample: row count")
    if set(a.columns) != set(N.node) or set(c.columns) != set(N.node) - set(N.node[v] for v in N.lat):
        fails.append("forward_sample: columns %r / %r" % (list(a.columns), list(c.columns)))
    differ = not a[list(c.columns)].reset_index(drop=True).equals(c.reset_index(drop=True))
    rows, e = rows_numbers(N, a)
    if e:
        fails.append("forward_sample: " + e)
    else:
        z = zero_cell(N, rows)
        if z:
            prop_fail.append({"what": "forward_sample produced a zero-probability row", "where": z})
    # rejection + likelihood weighting
    asg, evn = pick_evidence(N, rng, case["nev"])
    ev = [State(N.node[v], N.names[v][k]) for v, k in evn]
    if True:
        pe = exact_prob(N, dict(evn))
        if pe >= Fraction(1, 50):
            r1 = s.rejection_sample(evidence=ev, size=min(size, 40), seed=seed, show_progress=False, include_latents=True)
            r2 = s.rejection_sample(evidence=ev, size=min(size, 40), seed=seed, show_progress=False, include_latents=True)
            if not r1.equals(r2):
                fails.append("rejection_sample: same seed, different frames")
            np.random.seed(seed)
            r3 = s.rejection_sample(evidence=ev, size=min(size, 40), show_progress=False, include_latents=True)
            if not r1.equals(r3):
                fails.append("rejection_sample(seed=%d) differs from np.random.seed(%d) + unseeded call" % (seed, seed))
            if len(r1) != min(size, 40):
                fails.append("rejection_sample: %d rows for size %d" % (len(r1), min(size, 40)))
            rows, e = rows_numbers(N, r1)
            if e:
                fails.append("rejection_sample: " + e)
            else:
                if any(r[v] != k for r in rows for v, k in evn):
                    fails.append("rejection_sample: a row disagrees with the evidence")
                z = zero_cell(N, rows)
                if z:
                    prop_fail.append({"what": "rejection_sample produced a zero-probability row", "where": z})
            tags.append("rejection=run")
    w1 = s.likelihood_weighted_sample(evidence=ev, size=size, seed=seed, show_progress=False, include_latents=True)
    w2 = s.likelihood_weighted_sample(evidence=ev, size=size, seed=seed, show_progress=False, include_latents=True)
    np.random.seed(seed)
    w4 = s.likelihood_weighted_sample(evidence=ev, size=size, show_progress=False, include_latents=True)
    if not w1.equals(w4):
        fails.append("likelihood_weighted_sample(seed=%d) differs from np.random.seed(%d) + unseeded call" % (seed, seed))
    w3 = s.likelihood_weighted_sample(evidence=ev, size=size, seed=seed, show_progress=False)
    if not w1.equals(w2):
        fails.append("likelihood_weighted_sample: same seed, different frames")
    if len(w1) != size:
        fails.append("likelihood_weighted_sample: row count")
    if set(w3.columns) != (set(N.node) - set(N.node[v] for v in N.lat)) | {"_weight"}:
        fails.append("likelihood_weighted_sample: columns %r" % list(w3.columns))
    rows, e = rows_numbers(N, w1)
    if e:
        fails.append("likelihood_weighted_sample: " + e)
    else:
        ws = [float(x) for x in w1["_weight"].tolist()]
        for r, w in zip(rows, ws):
            if any(r[v] != k for v, k in evn):
                fails.append("likelihood_weighted_sample: evidence column not fixed")
                break
            exp = Fraction(1)
            for v, k in evn:
                exp *= N.entry(v, k, r)
            if not common.approx(w, exp):
                prop_fail.append({"what": "LW weight is not the product of the evidence CPD entries",
                                  "where": {"row": {repr(N.node[k_]): repr(N.names[k_][s_]) for k_, s_ in r.items()},
                                            "weight": w, "expected": str(exp)}})
                break
            for v in range(N.n):
                if v not in dict(evn) and N.entry(v, r[v], r) == 0:
                    prop_fail.append({"what": "LW sampled a zero-probability state", "where": repr(N.node[v])})
                    break
    # simulate: do / missingness / seed
    v = rng.randrange(N.n)
    k = rng.randrange(N.card[v])      # any state, also one of marginal probability 0 (do needs no positive probability)
    misscols = [N.node[u] for u in range(N.n) if u not in N.lat and rng.random() < 0.5]
    try:
        s1 = model.simulate(n_samples=size, do={N.node[v]: N.names[v][k]}, seed=seed, show_progress=False)
        s2 = model.simulate(n_samples=size, do={N.node[v]: N.names[v][k]}, seed=seed, show_progress=False)
        s3 = model.simulate(n_samples=size, do={N.node[v]: N.names[v][k]}, seed=seed, show_progress=False,
                            include_missing=True, missing_prob=0.3, missing_columns=misscols or None)
        cols = sorted(s1.columns, key=repr)
        if not s1[cols].reset_index(drop=True).astype(object).equals(s2[cols].reset_index(drop=True).astype(object)):
            fails.append("simulate: same seed, different frames")
        if len(s1) != size or len(s3) != size:
            fails.append("simulate: row count")
        if set(s1.columns) != set(N.node) - set(N.node[u] for u in N.lat):
            fails.append("simulate: columns %r" % list(s1.columns))
        if v not in N.lat and any(x != N.names[v][k] for x in s1[N.node[v]].tolist()):
            fails.append("simulate: do column not fixed")
        for col in s3.columns:
            x3, x1 = s3[col].tolist(), s1[col].tolist()
            for p, q in zip(x3, x1):
                isnan = isinstance(p, float) and p != p
                if isnan and misscols and col not in misscols:
                    fails.append("simulate: missing value outside missing_columns")
                    break
                if not isnan and p != q:
                    fails.append("simulate: include_missing changed a non-missing cell")
                    break
        tags.append("simulate=run")
    except ValueError as ex:
        tags.append("simulate-exc=" + type(ex).__name__)
    # Gibbs chain on small models
    if N.n <= 4 and all(isinstance(x, str) for x in N.node):
        try:
            g = GibbsSampling(model)
            start = [State(N.node[u], asg[u]) for u in range(N.n)]
            c1 = g.sample(start_state=start, size=min(size, 30), seed=seed)
            c2 = GibbsSampling(model).sample(start_state=start, size=min(size, 30), seed=seed)
            if not c1.equals(c2):
                fails.append("GibbsSampling.sample: same seed, different frames")
            if len(c1) != min(size, 30):
                fails.append("GibbsSampling.sample: row count")
            if set(c1.columns) != set(str(N.node[u]) for u in range(N.n) if u not in N.lat):
                fails.append("GibbsSampling.sample: columns")
            for col in c1.columns:
                u = N.id[col]
                if any(not (0 <= int(x) < N.card[u]) for x in c1[col].tolist()):
                    fails.append("GibbsSampling.sample: state out of range")
            tags.append("gibbs=run")
        except ValueError:
            tags.append("gibbs=nan-kernel")
    tags += ["size=%d" % size, "seeds-differ=%s" % differ]
    if fails:
        return bad("structural", {"what": fails, "case": case}, key=key, tags=tags)
    if prop_fail:
        return finding_or_violation(N, "impl!=spec", {"what": prop_fail[0], "case": case}, key, tags)
    return ok(nontrivial=bool(N.net["edges"]), key=key, tags=tags)


def run_do_zero(case):
    """simulate(do={X: x}) must return n_samples rows with X = x for EVERY state x: an intervention needs no
    positive probability (repaired by bd5ba97: the intervened variable gets a point-mass CPD; before, a do-state of
    marginal probability 0 was never accepted by the rejection loop).  A recurrence shows as no return in 5 s."""
    from pgmpy.models import BayesianNetwork
    from pgmpy.factors.discrete import TabularCPD

    m = BayesianNetwork()
    m.add_node("X")
    m.add_cpds(TabularCPD("X", 2, [[1.0], [0.0]], state_names={"X": ["a", "b"]}))
    key = common.canon_key(case)
    tags = ["kind=do_zero"]
    try:
        with time_limit(5):
            df = m.simulate(n_samples=3, do={"X": "b"}, show_progress=False, seed=0)
    except Hang:
        return bad("hang", {"what": "simulate(n_samples=3, do={'X': 'b'}) with P(X) = [1, 0] did not return within 5 s",
                            "case": case}, finding=None, key=key, tags=tags)
    if len(df) != 3 or any(x != "b" for x in df["X"].tolist()):
        return bad("structural", {"what": "do column not fixed / row count", "case": case}, key=key, tags=tags)
    return ok(nontrivial=True, key=key, tags=tags)


def run_struct_dec(case, N, model, key, tags):
    """SUPPORTING TEST (real RNG, a few thousand rows): with decimal-rounded columns that do not sum to 1, a state
    whose CPD entry is exactly 0 never appears in forward / rejection / likelihood-weighted samples"""
    from pgmpy.sampling import BayesianModelSampling
    from pgmpy.factors.discrete import State

    tags += ["supporting-test=zero-entry-never-sampled"]
    haszero = any(x == 0 for l in N.vals for x in l)
    try:
        with time_limit(90):
            s = BayesianModelSampling(model)
            frames = [("forward_sample", s.forward_sample(size=4000, seed=case["seed"], show_progress=False,
                                                           include_latents=True))]
            roots = [v for v in range(N.n) if not N.pars[v] and N.card[v] >= 2]
            if roots:
                v = roots[0]
                k = max(range(N.card[v]), key=lambda i: N.vals[v][i])
                others = [u for u in range(N.n) if u != v]
                ev = [State(N.node[v], N.names[v][k])]
                frames.append(("likelihood_weighted_sample",
                               s.likelihood_weighted_sample(evidence=ev, size=4000, seed=case["seed"],
                                                            show_progress=False, include_latents=True)))
                if N.vals[v][k] >= Fraction(1, 4):
                    frames.append(("rejection_sample",
                                   s.rejection_sample(evidence=ev, size=2000, seed=case["seed"], show_progress=False,
                                                      include_latents=True)))
    except Hang:
        return bad("structural", {"what": "a sampler did not return within 90 s", "case": case}, key=key, tags=tags)
    except ValueError as e:
        return bad("structural", {"what": "sampler raised ValueError: %s" % str(e)[:100], "case": case}, key=key,
                   tags=tags)
    for name, df in frames:
        rows, e = rows_numbers(N, df)
        if e:
            return bad("structural", {"what": name + ": " + e, "case": case}, key=key, tags=tags)
        z = zero_cell(N, rows)
        if z:
            return bad("impl!=spec", {"what": name + " produced a state whose CPD entry is exactly 0", "where": z,
                                      "case": case}, key=key, tags=tags)
    return ok(nontrivial=haszero, key=key, tags=tags)


def exact_prob(N, ev):
    tot = Fraction(0)
    for t in itertools.product(*[range(c) for c in N.card]):
        if all(t[v] == k for v, k in ev.items()):
            tot += N.joint(dict(enumerate(t)))
    return tot


def run_chi2(case, N, model, key, tags):
    """SUPPORTING TEST ONLY (statistical): chi-square goodness of fit at alpha = 1e-6"""
    from pgmpy.sampling import BayesianModelSampling
    from scipy.stats import chi2

    size = 4000
    df = BayesianModelSampling(model).forward_sample(size=size, seed=case["seed"], show_progress=False,
                                                     include_latents=True)
    rows, e = rows_numbers(N, df)
    tags += ["supporting-test=chi2"]
    if e:
        return bad("structural", {"what": e, "case": case}, key=key, tags=tags)
    counts = {}
    for r in rows:
        t = tuple(r[v] for v in range(N.n))
        counts[t] = counts.get(t, 0) + 1
    stat, df_, small_e, small_o = 0.0, 0, 0.0, 0
    for t in itertools.product(*[range(c) for c in N.card]):
        p = N.joint(dict(enumerate(t)))
        o = counts.get(t, 0)
        if p == 0:
            if o:
                return finding_or_violation(N, "impl!=spec", {"what": "zero-probability row sampled",
                                                              "row": list(t), "count": o, "case": case}, key, tags)
            continue
        ex = float(p) * size
        if ex < 5:
            small_e += ex
            small_o += o
        else:
            stat += (o - ex) ** 2 / ex
            df_ += 1
    if small_e > 0:
        stat += (small_o - small_e) ** 2 / small_e
        df_ += 1
    if df_ <= 1:
        return ok(nontrivial=False, key=key, tags=tags)
    pv = float(chi2.sf(stat, df_ - 1))
    if pv < 1e-6:
        return finding_or_violation(N, "chi2-supporting-test", {"what": "chi-square goodness of fit rejected",
                                                                "stat": stat, "df": df_ - 1, "p": pv, "case": case},
                                    key, tags)
    return ok(nontrivial=bool(N.net["edges"]), key=key, tags=tags)
