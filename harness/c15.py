"""C15 correspondence: random edit histories on real pgmpy models vs the Coq state machine
(coq/C15/Model.v; invariants proved in coq/C15/Props.v), compared after EVERY step."""
import random
from fractions import Fraction

from harness import common
from harness.common import ok, bad

PROP = "C15"
LEVEL = "proof"
HASHSEEDS = {"quick": [0, 1], "thorough": [0, 1, 2, 3]}
BUDGET_S = {"quick": 120, "thorough": 1200}
EXHAUSTIVE = {"quick": False, "thorough": False}
RULE = ("random edit histories (length 5..40) over a store of live BayesianNetwork objects: constructor (ebunch as "
        "tuples / lists / tuple of tuples / networkx DiGraph / another live model; latents as set, list or omitted), "
        "add_node(s) incl. duplicates, latent flags (bool, list, too-short list) and weight(s)= (right/wrong length, None, 0, []), "
        "add_edge(s) incl. self loops, cycle-closing edges, implicit nodes, with and without weight(s)=, the inherited networkx "
        "removals remove_edge / remove_edges_from / clear_edges, remove_node(s) incl. absent nodes, add_cpds with "
        "right/wrong/unknown parents, normalised / unnormalised / uniform tables, tables of extreme magnitude (2^-900 .. 2^900, "
        "one scale per table or per column) and tables built from a caller buffer that is overwritten afterwards, remove_cpds by "
        "name and by foreign CPD object (exact copy, copy changed by 1e-10 / 1e-3: numpy.allclose semantics), do (inplace or not, "
        "single name or list, unknown nodes, partial CPDs), copy, get_random_cpds (int/dict/None, inplace or not), empty "
        "argument lists everywhere; one family with 8-9 parents (>= 256 columns) in 5% of the histories; node names str / int / "
        "tuple / mixed / substrings of one another incl. '' and '1' next to 1; 15% of the histories on the torch backend.  "
        "Every op targets a random live model.  A bulk call (add_edges_from, add_nodes_from, remove_nodes_from, add_cpds, "
        "remove_cpds with several arguments) is a SEQUENCE of single operations: 'a rejected single operation leaves the model "
        "unchanged' applies per element, so a rejected bulk call keeps exactly the elements before the rejected one (class PREFIX; "
        "only DynamicBayesianNetwork.add_cpds and the weights-length checks validate everything first: class ATOMIC).  After every "
        "step: error kind, and for every live model nodes (ordered), per-node ordered successors/predecessors, latents, stored "
        "node/edge weights, CPD list (variable, ordered parents, cardinalities, every table entry relative to the exact value), "
        "nx.is_directed_acyclic_graph, the sharing graph (latents sets / CPD objects with `is`, CPD arrays with shares_memory, "
        "against the model's heap locations), purity of the argument containers, and the interleaved validation and queries "
        "get_cpds() / get_cpds(node) / get_parents / get_children / get_leaves / get_roots / get_cardinality / check_model() "
        "(oracle on the model's current state) / a VariableElimination query against exact enumeration.  Further streams: DBN "
        "histories (add_node(s), add_edge(s) with slices 0..3 and weight arguments), JunctionTree histories, DAG(ebunch), copy "
        "independence of MarkovNetwork / ClusterGraph / JunctionTree / DynamicBayesianNetwork (with a get_cpds session), explicit "
        "state names that are not positions (kept through copy / remove_node / do; mismatching parent states rejected by "
        "check_model), and rejected multi-argument calls for 23 mutators.  Checklist classes: A sessions = every history + "
        "observe(); B purity = hold(); C results = get_cardinality / get_parents / copy / do results mutated, buffers, "
        "shares_memory; D pandas: not applicable (no DataFrame reaches the anchored code); E names = styles above; F state names "
        "= snames stream; G sizes = big family, cardinality 1, empty lists, weight 0 vs None (n_states=0 and all-zero columns are "
        "outside the model: cardinalities >= 1, column sums > 0); H magnitudes = scaled tables, relative tolerance; I backends = "
        "torch histories (tolerance 1e-5: pgmpy's torch constructor rounds through float32); J variants = inplace, n_states "
        "forms, weight / latent forms, ebunch / latents forms (a generator ebunch is not offered: networkx swallows a rejected "
        "edge and returns an empty graph); K rejected calls = multi stream + per-element model; L orders = ordered comparison "
        "of nodes / adjacency / CPD list, hash seeds; M budget = tools/check.py; N equal-but-not-identical arguments = every name handed to pgmpy is rebuilt at run time "
        "(tuples re-created, strings re-joined, ints above 256 such as 257 / 65537 / 2^24+1 / 10^12), remove_cpds with the "
        "model's own object as well as with equal copies; O containers = node / edge lists as list, tuple, generator, iter, "
        "map, dict keys view, set (iteration order fixed before the model sees it), numpy array and pandas Index (the two "
        "last only for models whose names are all str/int: numpy scalars do not compare cleanly with tuple names), bare name "
        "for do/remove_node; weights stay lists (pgmpy takes len() of them); P sizes = chains / trees on 9, 12, 16, 17, "
        "32, 33 nodes with complete CPDs and a variable with 257 states (integer codes above 2^24 do not occur in this API); "
        "Q = tables typed with three decimals (sums within 0.0015 of 1, valid for check_model) and off by 0.02-0.05 (invalid), "
        "queries only compared for exactly normalised tables; R = optional features are drawn independently per operation "
        "(weights x latent x container form x backend x name style x buffer), None as a node is probed at the end of "
        "every history.  Non-trivial: >=1 edge or CPD existed at some "
        "step; distinct = distinct canonical history")
TRUSTED_BASE = ["networkx DiGraph/Graph dict-of-dict storage (modelled as insertion-ordered node and edge lists)",
                "numpy einsum / division (CPD marginalisation modelled on exact rationals, compared at 1e-9)",
                "numpy default_rng(42).random: the harness hands the model the same draw stream"]
ASSUMPTIONS = ["node names (str, int, tuples) are interned to nat identifiers",
               "TabularCPD objects passed to add_cpds are fresh, have default state names, distinct scope variables, "
               "non-negative dyadic entries and non-zero column sums (numpy nan from 0/0 is not modelled)",
               "query answers are a function of the compared content (nodes, edges, CPD tables); queries are not re-run"]

ERR = {0: "ok", 1: "ValueError", 2: "AttributeError", 3: "NotImplementedError", 4: "NetworkXError", 5: "bad-id", 6: "IndexError"}


# ------------------------------------------------------------------ case generation
def rand_cols(rng, vcard, ncol, mode):
    cols = []
    for _ in range(ncol):
        if mode == "uniform":
            col = [Fraction(1, 1)] * vcard if vcard & (vcard - 1) else [Fraction(1, vcard)] * vcard
        elif mode == "unnorm":
            col = [Fraction(rng.randint(0, 8), 8) for _ in range(vcard)]
            if sum(col) == 0:
                col[rng.randrange(vcard)] = Fraction(1, 2)
        else:
            col = common.rand_column(rng, vcard)
        cols.append(col)
    if mode in ("decimal", "decimal-off"):
        # typed with three decimals: column sums within 0.0015 of 1 but not exactly 1 (valid for check_model);
        # "decimal-off": one column off by 0.02 .. 0.05 (invalid)
        out = []
        for col in cols:
            d = [Fraction(round(float(x) * 1000), 1000) for x in col]
            if sum(d) == 1 and vcard > 1:
                d[0] += Fraction(1, 1000)
            out.append([Fraction(float(x)) for x in d])       # the exact rationals of the decimal floats
        if mode == "decimal-off":
            out[0] = [x + Fraction(float(rng.choice([0.02, 0.03, 0.05]))) / 1 if r == 0 else x for r, x in enumerate(out[0])]
        cols = out
    if mode in ("scaled", "mixed-scale"):
        # unnormalised tables of extreme magnitude (exact powers of two: the floats are exact): one factor for the
        # whole table, or one per column (marginalisation then adds columns of very different size)
        f = Fraction(2) ** rng.choice([-900, -300, -40, 60, 300, 900])
        out = []
        for col in cols:
            if mode == "mixed-scale":
                f = Fraction(2) ** rng.choice([-500, -200, -30, 0, 40, 200, 500])
            col = [x * f for x in col]
            if sum(col) == 0:
                col[0] = f
            out.append(col)
        cols = out
    return cols


def gen_cpd(rng, sh, card, N, how=None):
    """sh: shadow model {'nodes': set, 'edges': set}.  Returns a cpd dict (exact Fractions as [num, den])."""
    nodes = sorted(sh["nodes"]) or [0]
    how = how or rng.choice(["right"] * 6 + ["wrong", "wrong", "unknown", "noparents"])
    v = rng.choice(nodes)
    pa = [u for (u, w) in sorted(sh["edges"]) if w == v]
    rng.shuffle(pa)
    if how == "wrong":
        others = [x for x in range(N) if x != v]
        pa = rng.sample(others, rng.randint(0, min(3, len(others))))
    elif how == "unknown":
        absent = [x for x in range(N) if x not in sh["nodes"]]
        if absent:
            if rng.random() < 0.5:
                v = rng.choice(absent)
                pa = []
            else:
                pa = pa[:1] + [rng.choice([x for x in absent if x != v] or absent)]
                pa = [p for i, p in enumerate(pa) if p != v and p not in pa[:i]]
    elif how == "noparents":
        pa = []
    pa = pa[:3]
    ecard = [card[p] for p in pa]
    vcard = card[v] if rng.random() < 0.9 else rng.randint(1, 3)
    ncol = 1
    for k in ecard:
        ncol *= k
    mode = rng.choice(["norm"] * 6 + ["unnorm", "uniform", "uniform", "scaled", "mixed-scale", "decimal", "decimal", "decimal-off"])
    cols = rand_cols(rng, vcard, ncol, mode)
    return {"v": v, "vcard": vcard, "ev": pa, "ecard": ecard,
            "cols": [[[x.numerator, x.denominator] for x in col] for col in cols]}


# (a generator is not offered: networkx swallows the exception of a rejected edge for iterators and returns an
# EMPTY graph; pgmpy documents "an edge list or any NetworkX graph object")
NONE_LATENT = True
EBFORMS = ["tuples", "lists", "tuple-of-tuples", "digraph"]
LATFORMS = ["set", "set", "list", "omit"]


def gen_weights(rng, k):
    """optional weight arguments: none, a list of the right length (ints, sometimes None), an empty list, or a
    list of the wrong length (ValueError before anything is added)"""
    r = rng.random()
    if r < 0.5:
        return {}
    if r < 0.85:
        return {"ws": [rng.choice([None, 0, 0, 2, 3, 5, 8, 9]) if rng.random() < 0.3 else rng.randint(0, 9) for _ in range(k)]}
    if r < 0.9:
        return {"ws": []}
    return {"ws": [rng.randint(1, 9) for _ in range(rng.choice([n for n in (k - 1, k + 1, k + 2) if n > 0]))]}


def wire_ws(o):
    """weights on the wire: 0 = None, w + 1 = the number w (so that weight 0 and None stay apart);
    [] = weights argument absent or falsy"""
    return [0 if w is None else w + 1 for w in (o.get("ws") or [])]


def wenc(w):
    return 0 if w is None else int(w) + 1


def would_cycle(edges, u, v):
    seen, stack = set(), [v]
    while stack:
        x = stack.pop()
        if x == u:
            return True
        if x in seen:
            continue
        seen.add(x)
        stack.extend(w for (a, w) in edges if a == x)
    return False


def gen_bn_history(rng, length):
    big = rng.random() < 0.05           # a family with >= 8 parents (table with >= 256 columns)
    N = rng.randint(9, 10) if big else rng.randint(3, 6)
    card = [rng.choice([1, 2, 2, 2, 3, 3]) for _ in range(N)]
    if big:
        card = [rng.choice([1, 2, 2, 2]) for _ in range(N)]
    ops = []
    shadows = []  # light shadow state per live model, only used to aim the generator

    def new_shadow(nodes=(), edges=()):
        shadows.append({"nodes": set(nodes), "edges": set(edges), "cpds": set()})

    def add_edge_sh(sh, u, v):
        if u == v or (u in sh["nodes"] and v in sh["nodes"] and would_cycle(sh["edges"], u, v)):
            return False
        sh["nodes"] |= {u, v}
        sh["edges"].add((u, v))
        return True

    # first op: constructor
    eb = []
    if rng.random() < 0.5:
        nodes_, eb = common.rand_dag(rng, rng.randint(2, N))
        eb = [list(e) for e in eb]
    lat = rng.sample(range(N), rng.randint(0, 2)) if rng.random() < 0.3 else []
    ops.append({"op": "new", "eb": eb, "lat": lat, "ebform": rng.choice(EBFORMS), "latform": rng.choice(LATFORMS)})
    new_shadow({x for e in eb for x in e}, {tuple(e) for e in eb})
    if big:
        # child c with 8 or 9 parents and a complete table, then edits around it
        c = rng.randrange(N)
        pa = [x for x in range(N) if x != c][: rng.choice([8, 9]) if N == 10 else 8]
        ops.append({"op": "add_edges", "m": 0, "es": [[p, c] for p in pa if [p, c] not in eb and not would_cycle({tuple(e) for e in eb}, p, c)],
                    "api": "many"})
        real_pa = sorted({p for p in pa if not would_cycle({tuple(e) for e in eb}, p, c)} | {u for u, v in eb if v == c})
        rng.shuffle(real_pa)
        ncol = 1
        for p in real_pa:
            ncol *= card[p]
        ops.append({"op": "add_cpds", "m": 0, "cs": [{"v": c, "vcard": card[c], "ev": real_pa, "ecard": [card[p] for p in real_pa],
                    "cols": [[[x.numerator, x.denominator] for x in col] for col in rand_cols(rng, card[c], ncol, "norm")]}]})
        shadows[0]["nodes"] |= set(pa) | {c}
        shadows[0]["edges"] |= {(p, c) for p in real_pa}
        shadows[0]["cpds"].add(c)
    while len(ops) < length:
        a = rng.randrange(len(shadows))
        sh = shadows[a]
        r = rng.random()
        fan = [x for x in sorted(sh["nodes"]) if sum(1 for e in sh["edges"] if e[0] == x) >= 2]
        if fan and rng.random() < 0.04 and len(ops) + 2 <= length:
            # aimed scenario: a parent with >= 2 children, one child's CPD lists it, another child's does not
            x = rng.choice(fan)
            ch = [e[1] for e in sorted(sh["edges"]) if e[0] == x]
            rng.shuffle(ch)
            cs = [gen_cpd(rng, {"nodes": {ch[0]}, "edges": {e for e in sh["edges"] if e[1] == ch[0]}}, card, N, "right"),
                  gen_cpd(rng, {"nodes": {ch[1]}, "edges": set()}, card, N, "noparents")]
            ops.append({"op": "add_cpds", "m": a, "cs": cs})
            ops.append({"op": "remove_nodes", "m": a, "xs": [x], "api": "one"})
            sh["cpds"] |= {ch[0], ch[1]}
            continue
        if sh["edges"] and rng.random() < 0.006 and len(ops) + 2 <= length:
            # aimed scenario: u -> v with P(u | v) (wrong direction) registered BEFORE P(v | u), equal as factors;
            # remove_node(v) then has to drop P(v | u) and nothing else
            u, v = rng.choice(sorted(sh["edges"]))
            q = [[1, 4]]
            cs = [{"v": u, "vcard": card[u], "ev": [v], "ecard": [card[v]], "cols": [q * card[u]] * card[v]},
                  {"v": v, "vcard": card[v], "ev": [u], "ecard": [card[u]], "cols": [q * card[v]] * card[u]}]
            ops.append({"op": "add_cpds", "m": a, "cs": cs})
            ops.append({"op": "remove_nodes", "m": a, "xs": [v], "api": "one"})
            sh["cpds"] |= {u}
            sh["nodes"].discard(v)
            sh["edges"] = {e for e in sh["edges"] if v not in e}
            continue
        if r < 0.04:
            eb = [[rng.randrange(N), rng.randrange(N)] for _ in range(rng.randint(0, 5))]
            sh2 = {"nodes": set(), "edges": set()}
            good = all(add_edge_sh(sh2, u, v) for u, v in eb)
            if rng.random() < 0.3 and len(shadows) < 6:
                # BayesianNetwork(other_model): construction from a graph object
                ops.append({"op": "new_from", "m": a, "lat": rng.sample(range(N), rng.randint(0, 2)), "latform": rng.choice(LATFORMS)})
                new_shadow(sh["nodes"], sh["edges"])
                continue
            ops.append({"op": "new", "eb": eb, "lat": rng.sample(range(N), rng.randint(0, 2)),
                        "ebform": rng.choice(EBFORMS), "latform": rng.choice(LATFORMS)})
            if good:
                new_shadow(sh2["nodes"], sh2["edges"])
        elif r < 0.16:
            k = rng.choice([0, 1, 1, 1, 2, 3])
            xs = [[rng.randrange(N), rng.random() < 0.25] for _ in range(k)]
            o = {"op": "add_nodes", "m": a, "xs": xs, "api": "one" if k == 1 and rng.random() < 0.7 else "many"}
            o.update(gen_weights(rng, k))
            o["cform"] = rng.choice(CFORMS)
            if o["api"] == "many" and k > 0 and rng.random() < 0.08:
                o["latshort"] = rng.randrange(k)        # latent list too short: IndexError half-way
            ops.append(o)
            sh["nodes"] |= {x for x, _ in xs}
        elif r < 0.20:
            # the removal methods inherited from networkx: remove_edge / remove_edges_from / clear_edges
            api = rng.choice(["one", "one", "many", "many", "clear_edges"])
            pool = sorted(sh["edges"]) if sh["edges"] and rng.random() < 0.8 else [(rng.randrange(N), rng.randrange(N))]
            k = 1 if api == "one" else rng.choice([0, 1, 2, 3])
            es = [list(rng.choice(pool)) for _ in range(k)]
            ops.append({"op": "remove_edges", "m": a, "es": es, "api": api, "cform": rng.choice(CFORMS)})
            if api == "clear_edges":
                sh["edges"] = set()
            else:
                sh["edges"] -= {tuple(e) for e in es}
        elif r < 0.40:
            k = rng.choice([0, 1, 1, 1, 1, 2, 3, 4])
            es = []
            for _ in range(k):
                u, v = rng.randrange(N), rng.randrange(N)
                if rng.random() < 0.85 and (u == v):
                    v = (u + 1) % N
                es.append([u, v])
            o = {"op": "add_edges", "m": a, "es": es, "api": "one" if k == 1 and rng.random() < 0.7 else "many"}
            o.update(gen_weights(rng, k))
            o["cform"] = rng.choice(CFORMS)
            ops.append(o)
            if o.get("ws") and len(o["ws"]) != k and o["api"] == "many":
                continue
            for u, v in es:
                if not add_edge_sh(sh, u, v):
                    break
        elif r < 0.50:
            k = rng.choice([0, 1, 1, 1, 1, 2])
            pool = sorted(sh["nodes"]) if sh["nodes"] and rng.random() < 0.85 else list(range(N))
            xs = [rng.choice(pool) for _ in range(k)]
            ops.append({"op": "remove_nodes", "m": a, "xs": xs, "api": "one" if k == 1 and rng.random() < 0.7 else "many",
                        "cform": rng.choice(CFORMS)})
            for x in xs:
                sh["nodes"].discard(x)
                sh["edges"] = {e for e in sh["edges"] if x not in e}
                sh["cpds"].discard(x)
        elif r < 0.70:
            if rng.random() < 0.35 and sh["nodes"]:
                # a complete consistent parameterisation
                cs = [gen_cpd(rng, {"nodes": {v}, "edges": {e for e in sh["edges"] if e[1] == v}}, card, N, "right")
                      for v in sorted(sh["nodes"])]
                for c in cs:
                    c["vcard"] = card[c["v"]]
                    ncol = 1
                    for k in c["ecard"]:
                        ncol *= k
                    c["cols"] = [[[x.numerator, x.denominator] for x in col]
                                 for col in rand_cols(rng, c["vcard"], ncol, rng.choice(["norm", "norm", "decimal"]))]
                rng.shuffle(cs)
            else:
                cs = [gen_cpd(rng, sh, card, N) for _ in range(rng.choice([0, 1, 1, 1, 2, 3]))]
            ops.append({"op": "add_cpds", "m": a, "cs": cs, "buf": rng.random() < 0.3})
            sh["cpds"] |= {c["v"] for c in cs}
        elif r < 0.76:
            pool = sorted(sh["cpds"]) if sh["cpds"] and rng.random() < 0.8 else list(range(N))
            if rng.random() < 0.3:
                # remove_cpds(obj) with CPD objects that are NOT the model's own objects: a copy of the pick-th
                # CPD of the model (equal by value) or an unrelated fresh CPD (list.remove fall-back)
                ops.append({"op": "remove_cpd_objs", "m": a,
                            "cs": [{"pick": rng.randrange(8), "perturb": rng.choice([0, 0, 1e-10, 1e-3]), "own": rng.random() < 0.3}
                                   if rng.random() < 0.7
                                   else {"cpd": gen_cpd(rng, sh, card, N)}
                                   for _ in range(rng.choice([1, 1, 2]))]})
            else:
                ops.append({"op": "remove_cpds", "m": a, "xs": [rng.choice(pool) for _ in range(rng.choice([0, 1, 1, 1, 2]))]})
        elif r < 0.86:
            pool = sorted(sh["nodes"]) if sh["nodes"] and rng.random() < 0.9 else list(range(N))
            k = rng.choice([0, 1, 1, 1, 2, 2])
            xs = [rng.choice(pool) for _ in range(k)]
            inplace = rng.random() < 0.5
            ops.append({"op": "do", "m": a, "xs": xs, "inplace": inplace,
                        "api": "one" if k == 1 and rng.random() < 0.5 else "many", "cform": rng.choice(CFORMS)})
            tgt = sh
            if not inplace and len(shadows) < 6:
                new_shadow(sh["nodes"], sh["edges"])
                shadows[-1]["cpds"] = set(sh["cpds"])
                tgt = shadows[-1]
            elif not inplace:
                ops.pop()
                continue
            tgt["edges"] = {e for e in tgt["edges"] if e[1] not in xs}
        elif r < 0.93:
            if len(shadows) >= 6:
                continue
            ops.append({"op": "copy", "m": a})
            new_shadow(sh["nodes"], sh["edges"])
            shadows[-1]["cpds"] = set(sh["cpds"])
        else:
            inplace = rng.random() < 0.6
            if not inplace and len(shadows) >= 6:
                continue
            form = rng.choice(["int", "dict", "dict", "none", "baddict"])
            o = {"op": "random_cpds", "m": a, "form": form, "inplace": inplace}
            if form == "int":
                o["k"] = rng.randint(1, 3)
            elif form == "dict":
                o["ns"] = None  # filled at run time from the live node set
                o["cards"] = [rng.randint(1, 3) for _ in range(N)]
            elif form == "baddict":
                o["keys"] = rng.sample(range(N), rng.randint(0, N))
                o["cards"] = [rng.randint(1, 3) for _ in range(N)]
            else:
                o["npseed"] = rng.randint(0, 10**6)
            ops.append(o)
            if not inplace:
                new_shadow(sh["nodes"], sh["edges"])
                shadows[-1]["cpds"] = set(sh["nodes"])
            else:
                sh["cpds"] = set(sh["nodes"])
    return {"kind": "bn", "N": N, "ops": ops}


def gen_chain_history(rng):
    """mid-sized and threshold-sized models: chains / trees on 9..33 nodes (sizes around 8, 16, 32 and = 1 mod 8) with
    a complete parameterisation, then a few edits; or a variable with 257 states"""
    if rng.random() < 0.25:
        N, card = 3, [257, 2, 2]
        eb = [[0, 1], [1, 2]]
    else:
        N = rng.choice([9, 9, 12, 16, 17, 32, 33])
        card = [rng.choice([1, 2, 2, 2, 3]) for _ in range(N)]
        order = list(range(N))
        rng.shuffle(order)
        tree = rng.random() < 0.5
        eb = [[order[rng.randrange(i) if tree else i - 1], order[i]] for i in range(1, N)]
        for _ in range(rng.randint(0, 3)):
            i, j = sorted(rng.sample(range(N), 2))
            if [order[i], order[j]] not in eb and sum(1 for e in eb if e[1] == order[j]) < 2:
                eb.append([order[i], order[j]])
    sh = {"nodes": set(range(N)), "edges": {tuple(e) for e in eb}}
    cs = []
    for v in range(N):
        c = gen_cpd(rng, {"nodes": {v}, "edges": {e for e in sh["edges"] if e[1] == v}}, card, N, "right")
        ncol = 1
        for k in c["ecard"]:
            ncol *= k
        c["vcard"] = card[v]
        c["cols"] = [[[x.numerator, x.denominator] for x in col] for col in rand_cols(rng, card[v], ncol, rng.choice(["norm", "decimal"]))]
        cs.append(c)
    rng.shuffle(cs)
    ops = [{"op": "new", "eb": eb, "lat": [], "ebform": rng.choice(EBFORMS), "latform": "omit"},
           {"op": "add_cpds", "m": 0, "cs": cs, "buf": False}]
    first, last = eb[0][0], eb[-1][1]
    for _ in range(rng.randint(3, 6)):
        r = rng.random()
        x = rng.randrange(N)
        if r < 0.25:
            ops.append({"op": "remove_nodes", "m": 0, "xs": [x], "api": "one"})
        elif r < 0.45:
            ops.append({"op": "do", "m": 0, "xs": [x], "inplace": rng.random() < 0.5, "api": "many", "cform": rng.choice(CFORMS)})
        elif r < 0.6:
            ops.append({"op": "copy", "m": 0})
        elif r < 0.8:
            # closes a long cycle (rejected) or is a fresh forward edge
            u, v = (last, first) if rng.random() < 0.6 else (rng.randrange(N), rng.randrange(N))
            ops.append({"op": "add_edges", "m": 0, "es": [[u, v]], "api": "one"})
        else:
            ops.append({"op": "remove_edges", "m": 0, "es": [list(rng.choice(eb))], "api": "one"})
    return {"kind": "bn", "N": N, "ops": ops}


CLIQUE_POOL = [["a", "b"], ["b", "c"], ["c", "d"], ["a", "c", "d"], ["d", "e"], ["e"], ["a", "e"], ["f", "g"]]


def gen_dbn_history(rng, length):
    ops = []
    names = rng.randint(2, 5)
    while len(ops) < length:
        r = rng.random()
        if r < 0.2:
            k = rng.choice([1, 1, 2, 3])
            o = {"op": "add_nodes", "xs": [rng.randrange(names) for _ in range(k)], "api": "one" if k == 1 else "many"}
            o.update(gen_weights(rng, k))
            ops.append(o)
        else:
            k = rng.choice([1, 1, 1, 2, 3])
            es = []
            for _ in range(k):
                a, b = rng.randrange(names), rng.randrange(names)
                s = rng.choice([0, 0, 0, 1, 1, 2, 3])
                t = rng.choice([s, s, s + 1, s + 1, max(0, s - 1), s + 2])
                es.append([[a, s], [b, t]])
            o = {"op": "add_edges", "es": es, "api": "one" if k == 1 and rng.random() < 0.7 else "many"}
            o.update(gen_weights(rng, k))      # DBN.add_edges_from / add_nodes_from accept and ignore keyword arguments
            ops.append(o)
    return {"kind": "dbn", "ops": ops}


def gen_jt_history(rng, length):
    ops = []
    nc = rng.randint(3, len(CLIQUE_POOL))
    while len(ops) < length:
        r = rng.random()
        if r < 0.2:
            k = rng.choice([1, 1, 2])
            ops.append({"op": "add_nodes", "xs": [rng.randrange(nc) for _ in range(k)], "api": "one" if k == 1 else "many"})
        else:
            k = rng.choice([1, 1, 1, 2, 3])
            es = []
            for _ in range(k):
                u, v = rng.randrange(nc), rng.randrange(nc)
                if u == v and rng.random() < 0.8:
                    v = (u + 1) % nc
                es.append([u, v])
            o = {"op": "add_edges", "es": es, "api": "one" if k == 1 and rng.random() < 0.7 else "many"}
            o.update(gen_weights(rng, k))      # UndirectedGraph.add_edges_from(ebunch, weights) checks the length
            ops.append(o)
    return {"kind": "jt", "ops": ops}


def cases(tier, seed):
    rng = random.Random(seed)
    out = []
    nb, nd, nj, ng, nu = (420, 120, 120, 120, 60) if tier == "quick" else (4200, 1000, 1000, 800, 400)
    for i in range(nb):
        c = gen_bn_history(rng, rng.randint(5, 40))
        if c["N"] >= 9:
            c["ops"] = [o for o in c["ops"][:9] if o["op"] != "random_cpds"]   # big tables: keep the exact model cheap
        c["style"] = rng.choice(["str", "int", "mixed", "tuple", "mixed", "substr"])
        c["nameseed"] = rng.randint(0, 10**9)
        if not float32_safe(c):
            c["ops"] = c["ops"][:14]      # tables of extreme magnitude make the exact model slow: keep these histories short
        if rng.random() < 0.15 and float32_safe(c):
            c["backend"] = "torch"
        out.append(c)
    for i in range(16 if tier == "quick" else 200):
        c = gen_chain_history(rng)
        c["style"] = rng.choice(["str", "int", "mixed", "tuple", "substr"])
        c["nameseed"] = rng.randint(0, 10**9)
        out.append(c)
    for i in range(nd):
        out.append(gen_dbn_history(rng, rng.randint(3, 25)))
    for i in range(nj):
        out.append(gen_jt_history(rng, rng.randint(3, 20)))
    for i in range(ng):
        n = rng.randint(1, 5)
        out.append({"kind": "dag", "eb": [[rng.randrange(n), rng.randrange(n)] for _ in range(rng.randint(0, 7))]})
    for i in range(nu):
        out.append({"kind": "ucopy", "seed": rng.randint(0, 10**9), "cls": rng.choice(["mn", "cg", "jt", "dbn", "dbn"])})
    for i in range(24 if tier == "quick" else 240):
        out.append({"kind": "snames", "seed": rng.randint(0, 10**9)})
    # rejected multi-argument calls: every target several times in every tier
    per = 12 if tier == "quick" else 80
    for t in sorted(MULTI):
        for i in range(per):
            out.append({"kind": "multi", "target": t, "seed": rng.randint(0, 10**9)})
    return out


def float32_safe(case):
    """every table entry of the history survives the float32 round trip of the torch backend's constructor"""
    lo, hi = Fraction(1, 2 ** 60), Fraction(2 ** 60)
    for o in case["ops"]:
        for c in o.get("cs", []):
            c = c.get("cpd", c)
            for col in c.get("cols", []):
                for n, d in col:
                    if n and not (lo <= Fraction(n, d) <= hi):
                        return False
    return True


def shrink(case):
    if "ops" in case:
        ops = case["ops"]
        # drop a suffix first (big steps), then single ops (never the constructor of a bn history)
        lo = 1 if case["kind"] == "bn" else 0
        for cut in (len(ops) // 2, len(ops) - 1):
            if lo < cut < len(ops):
                c = dict(case)
                c["ops"] = ops[:cut]
                yield c
        for i in range(len(ops) - 1, lo - 1, -1):
            c = dict(case)
            c["ops"] = renumber(ops, i) if case["kind"] == "bn" else ops[:i] + ops[i + 1:]
            yield c
        for i, o in enumerate(ops):
            for fld in ("xs", "es", "cs"):
                if isinstance(o.get(fld), list) and len(o[fld]) > 1:
                    for j in range(len(o[fld])):
                        c = dict(case)
                        o2 = dict(o)
                        o2[fld] = o[fld][:j] + o[fld][j + 1:]
                        c["ops"] = ops[:i] + [o2] + ops[i + 1:]
                        yield c
    elif case["kind"] == "dag":
        for i in range(len(case["eb"])):
            c = dict(case)
            c["eb"] = case["eb"][:i] + case["eb"][i + 1:]
            yield c


def creates_model(o):
    return o["op"] in ("new", "copy") or (o["op"] in ("do", "random_cpds") and not o["inplace"])


def model_index_created(ops, i):
    """upper bound of the model index op i would create (counting every potential creator before it)"""
    return sum(1 for o in ops[:i] if creates_model(o))


def renumber(ops, i):
    """drop op i; creators may fail at run time, so model ids are only kept when op i creates none"""
    return ops[:i] + ops[i + 1:]


# ------------------------------------------------------------------ BN histories
def rkey(x):
    """key of a node name handed back by pgmpy (numpy scalars from array arguments compare equal to the plain value)"""
    if hasattr(x, "item") and not isinstance(x, tuple):
        x = x.item()
    return repr(x)


def fresh(x):
    """an equal but NOT identical object: what a caller who rebuilds names at run time hands in"""
    if isinstance(x, tuple):
        return tuple([fresh(e) for e in x])
    if isinstance(x, str):
        return "".join(list(x)) if len(x) > 1 else x
    if isinstance(x, int) and not isinstance(x, bool):
        return int(str(x))
    return x


class FreshNames(list):
    def __getitem__(self, i):
        return fresh(list.__getitem__(self, i))


def bn_names(case):
    rng = random.Random(case["nameseed"])
    style = case["style"]
    n = case["N"]
    if style == "str":
        pool = ["A", "B", "C", "D", "E", "F", "G", "H", "I", "J"] + ["node%d" % i for i in range(30)]
    elif style == "int":
        # small ints are cached objects; ints above 256 are not (equal-but-not-identical arguments)
        pool = [0, 1, 2, 3, 257, 1000, 65537, 2 ** 24 + 1, 2 ** 31, 10 ** 12, 4, 5] + [300 + i for i in range(30)]
    elif style == "tuple":
        pool = [("v", i) for i in range(6)] + [("v", 1000 + i) for i in range(34)]
    elif style == "substr":
        # names that are substrings of one another, the empty string, a digit string next to the int
        pool = ["x1", "x10", "x", "G", "G2", "G20", "1", 1, "", "x100"] + ["x2%d" % i for i in range(30)]
    else:
        pool = ["x", 0, ("t", 1), "y", 7, "zz", ("u", 2), 3, ("t", 10), "x0"] + [("m", 500 + i) if i % 2 else "m%d" % i for i in range(30)]
    head, tail = pool[:10], pool[10:]
    rng.shuffle(head)
    return FreshNames((head + tail)[:n])


def frs(cols):
    return [[Fraction(a, b) for a, b in col] for col in cols]


def wire_cpd(c):
    return [c["v"], c["vcard"], c["ev"], c["ecard"], frs(c["cols"])]


def make_cpd(c, names, bufs=None):
    from pgmpy.factors.discrete import TabularCPD
    cols = frs(c["cols"])
    vals = [[float(col[r]) for col in cols] for r in range(c["vcard"])]
    if bufs is not None:
        import numpy as np
        vals = np.array(vals, dtype=float, order="C")    # the caller's buffer, overwritten after the call
        bufs.append(vals)
    if c["ev"]:
        return TabularCPD(names[c["v"]], c["vcard"], vals, evidence=[names[p] for p in c["ev"]], evidence_card=c["ecard"])
    return TabularCPD(names[c["v"]], c["vcard"], vals)


def snap_real(m, idx):
    """canonical observable content of a real BayesianNetwork"""
    nodes = [idx[rkey(x)] for x in m.nodes()]
    succ = {idx[rkey(u)]: [idx[rkey(v)] for v in m.successors(u)] for u in m.nodes()}
    pred = {idx[rkey(u)]: [idx[rkey(v)] for v in m.predecessors(u)] for u in m.nodes()}
    lat = sorted(idx[rkey(x)] for x in m.latents)
    cpds = []
    for c in m.cpds:
        vals = c.get_values()
        cpds.append((idx[rkey(c.variable)], int(c.cardinality[0]), [idx[rkey(v)] for v in c.variables[1:]],
                     [int(k) for k in c.cardinality[1:]],
                     [[float(vals[r][j]) for r in range(vals.shape[0])] for j in range(vals.shape[1])]))
    nw = {idx[rkey(x)]: wenc(m.nodes[x].get("weight")) for x in m.nodes()}
    ew = {"%d>%d" % (idx[rkey(u)], idx[rkey(v)]): wenc(m.edges[u, v].get("weight")) for u, v in m.edges()}
    return nodes, succ, pred, lat, cpds, nw, ew


def snap_model(mo):
    nodes, edges, latloc, lat, cpds, nwlog, ewlog = mo
    succ = {u: [v for (a, v) in edges if a == u] for u in nodes}
    pred = {u: [a for (a, v) in edges if v == u] for u in nodes}
    cl = []
    for loc, (v, vc, ev, ec, cols) in cpds:
        cl.append((v, vc, ev, ec, [[common.frac(x) for x in col] for col in cols]))
    # stored 'weight' attributes: the newest log entry of every existing node / edge (0 = None)
    nw = {x: next((w for (y, w) in nwlog if y == x), 0) for x in nodes}
    ew = {"%d>%d" % (u, v): next((w for (a, b, w) in ewlog if (a, b) == (u, v)), 0) for (u, v) in edges}
    return nodes, succ, pred, sorted(lat), cl, nw, ew


def cmp_snap(r, m):
    """None if equal, else a description"""
    for nm, a, b in (("nodes", r[0], m[0]), ("succ", r[1], m[1]), ("pred", r[2], m[2]), ("latents", r[3], m[3]),
                     ("node-weights", r[5], m[5]), ("edge-weights", r[6], m[6])):
        if a != b:
            return {"what": nm, "impl": a, "model": b}
    if len(r[4]) != len(m[4]):
        return {"what": "cpd-count", "impl": [c[:4] for c in r[4]], "model": [c[:4] for c in m[4]]}
    for cr, cm in zip(r[4], m[4]):
        if cr[:4] != cm[:4]:
            return {"what": "cpd-structure", "impl": cr[:4], "model": cm[:4]}
        if len(cr[4]) != len(cm[4]):
            return {"what": "cpd-columns", "impl": len(cr[4]), "model": len(cm[4])}
        for j, (colr, colm) in enumerate(zip(cr[4], cm[4])):
            if len(colr) != len(colm) or not all(rel_close(x, y) for x, y in zip(colr, colm)):
                return {"what": "cpd-values", "cpd": cr[:4], "column": j, "impl": colr, "model": [float(y) for y in colm]}
    return None


def real_equal(a, b):
    return cmp_snap(a, b) is None


def loose(r):
    """content up to adjacency order (copy() re-inserts the edges in G.edges() order)"""
    # copy() also drops the 'weight' attributes (observation, outside C15): weights are not part of this view
    return (r[0], {k: sorted(v) for k, v in r[1].items()}, {k: sorted(v) for k, v in r[2].items()}, r[3], r[4],
            {}, {})


def consistent_cpds(m):
    """variables whose CPD lists exactly the graph parents and is column-normalised"""
    out = set()
    for c in m.cpds:
        if c.variable in m.nodes() and set(c.variables[1:]) == set(m.predecessors(c.variable)) and c.is_valid_cpd():
            out.add(c.variable)
    return out


def exc_code(e):
    import networkx as nx
    if isinstance(e, nx.NetworkXError):
        return 4
    if isinstance(e, NotImplementedError):
        return 3
    if isinstance(e, ValueError):
        return 1
    if isinstance(e, AttributeError):
        return 2
    if isinstance(e, IndexError):
        return 6
    raise e


CFORMS = ["list", "list", "tuple", "generator", "iter", "map", "dictkeys", "set", "nparray", "pdindex"]


def contain(form, lst):
    """the same elements in another documented container / one-shot iterator"""
    if form == "tuple":
        return tuple(lst)
    if form == "generator":
        return (x for x in list(lst))
    if form == "iter":
        return iter(list(lst))
    if form == "map":
        return map(lambda x: x, list(lst))
    if form == "dictkeys" and len(set(map(repr, lst))) == len(lst):
        return dict.fromkeys(lst).keys()
    plain = all(isinstance(x, str) for x in lst) or all(isinstance(x, int) and abs(x) < 2 ** 62 for x in lst)
    if form == "nparray" and lst and plain:
        import numpy as np
        return np.array(lst)
    if form == "pdindex" and lst and plain:
        import pandas as pd
        return pd.Index(lst)
    return list(lst)


def materialise(o, names, idx):
    """a set argument is iterated in the set's own order: fix that order before the model sees the operation"""
    if o.get("cform") != "set":
        return o
    fld = "es" if "es" in o else "xs"
    if o["op"] == "add_nodes" and (o.get("ws") or len({f for _, f in o["xs"]}) > 1 or "latshort" in o):
        o["cform"] = "list"
        return o
    if o["op"] == "add_edges" and o.get("ws"):
        o["cform"] = "list"
        return o
    if fld == "es":
        st = {(names[u], names[v]) for u, v in o["es"]}
        order = [[idx[rkey(u)], idx[rkey(v)]] for u, v in list(st)]
    elif o["op"] == "add_nodes":
        flag = o["xs"][0][1] if o["xs"] else False
        st = {names[x] for x, _ in o["xs"]}
        order = [[idx[rkey(x)], flag] for x in list(st)]
    else:
        st = {names[x] for x in o["xs"]}
        order = [idx[rkey(x)] for x in list(st)]
    o[fld] = order
    o["_container"] = st
    return o


def hold(o, obj):
    """remember an argument container and a deep snapshot of it: the call must leave it as it was"""
    import copy
    o.setdefault("_held", []).append((obj, copy.deepcopy(obj)))
    return obj


def apply_bn(o, M, names):
    """run one op on the real objects; returns error code"""
    import numpy as np
    from pgmpy.models import BayesianNetwork
    kind = o["op"]
    nm = lambda x: names[x]

    def cont(o, lst):
        if "_container" in o:
            return hold(o, o["_container"])
        form = o.get("cform", "list")
        if form in ("nparray", "pdindex") and o.get("_style") not in ("str", "int", "substr"):
            form = "tuple"      # numpy scalars do not compare cleanly with tuple names (array-valued ==)
        c = contain(form, lst)
        return hold(o, c) if isinstance(c, (list, tuple)) else c
    try:
        if kind in ("new", "new_from"):
            import networkx as nx
            if kind == "new_from":
                eb = M[o["m"]]                      # a live model as the graph to build from
            else:
                eb = [(nm(u), nm(v)) for u, v in o["eb"]]
                form = o.get("ebform", "tuples")
                if not eb:
                    eb = None if form != "lists" else []
                elif form == "lists":
                    eb = [list(e) for e in eb]
                elif form == "tuple-of-tuples":
                    eb = tuple(eb)
                elif form == "digraph":
                    g = nx.DiGraph()
                    g.add_edges_from(eb)          # may be cyclic: the constructor has to reject it
                    eb = g
            lf = o.get("latform", "set")
            lat = [nm(x) for x in o["lat"]]
            if lf == "omit" and not lat:
                new = BayesianNetwork(eb)
            else:
                arg = set(lat) if lf != "list" else list(lat)
                hold(o, arg)
                new = BayesianNetwork(eb, latents=arg)
            if isinstance(eb, (list, tuple)):
                hold(o, eb)
            M.append(new)
            return 0
        m = M[o["m"]]
        if kind == "remove_edges":
            if o["api"] == "one":
                m.remove_edge(nm(o["es"][0][0]), nm(o["es"][0][1]))
            elif o["api"] == "clear_edges":
                m.clear_edges()
            else:
                m.remove_edges_from(cont(o, [(nm(u), nm(v)) for u, v in o["es"]]))
            return 0
        if kind == "add_nodes":
            if o["api"] == "one":
                kw = {"weight": o["ws"][0]} if o.get("ws") else {}
                m.add_node(nm(o["xs"][0][0]), latent=o["xs"][0][1], **kw)
            else:
                flags = [f for _, f in o["xs"]]
                if "latshort" in o:
                    lat = flags[:o["latshort"]]
                else:
                    lat = flags[0] if len(set(flags)) == 1 else flags
                kw = {"weights": hold(o, list(o["ws"]))} if "ws" in o else {}
                if isinstance(lat, list):
                    hold(o, lat)
                m.add_nodes_from(cont(o, [nm(x) for x, _ in o["xs"]]), latent=lat, **kw)
        elif kind == "add_edges":
            if o["api"] == "one":
                kw = {"weight": o["ws"][0]} if o.get("ws") else {}
                m.add_edge(nm(o["es"][0][0]), nm(o["es"][0][1]), **kw)
            else:
                kw = {"weights": hold(o, list(o["ws"]))} if "ws" in o else {}
                m.add_edges_from(cont(o, [(nm(u), nm(v)) for u, v in o["es"]]), **kw)
        elif kind == "remove_nodes":
            if o["api"] == "one":
                m.remove_node(nm(o["xs"][0]))
            else:
                m.remove_nodes_from(cont(o, [nm(x) for x in o["xs"]]))
        elif kind == "add_cpds":
            bufs = [] if o.get("buf") else None
            try:
                m.add_cpds(*[make_cpd(c, names, bufs) for c in o["cs"]])
            finally:
                for b in bufs or []:
                    b[...] = -7.0                       # a stored CPD must not look at the caller's array any more
        elif kind == "remove_cpds":
            m.remove_cpds(*[nm(x) for x in o["xs"]])
        elif kind == "remove_cpd_objs":
            m.remove_cpds(*o["_objs"])
        elif kind == "do":
            # do() takes a single name only when it is a str/int (a tuple would be read as a list of names)
            one = o["api"] == "one" and isinstance(nm(o["xs"][0]), (str, int))
            arg = nm(o["xs"][0]) if one else cont(o, [nm(x) for x in o["xs"]])
            r = m.do(arg, inplace=o["inplace"])
            if not o["inplace"]:
                M.append(r)
        elif kind == "copy":
            M.append(m.copy())
        elif kind == "random_cpds":
            arg = o["_arg"]
            if o["form"] == "none":
                np.random.seed(o["npseed"])
            r = m.get_random_cpds(n_states=arg, inplace=o["inplace"])
            if not o["inplace"]:
                M.append(r)
        else:
            raise RuntimeError("unknown op " + kind)
        return 0
    except Exception as e:  # mapped to the enum; anything unexpected is re-raised by exc_code
        return exc_code(e)


_DRAWS = {}


def draws(n):
    import numpy as np
    if n not in _DRAWS:
        _DRAWS[n] = [Fraction(float(x)) for x in np.random.default_rng(42).random(n)]
    return _DRAWS[n]


def wire_bn(o, M, names, idx, last=None):
    """wire form of one op, given the real pre-state (only used for get_random_cpds arguments)"""
    import numpy as np
    k = o["op"]
    if k == "new":
        if o.get("ebform") == "digraph" and o["eb"]:
            # from a networkx graph: nodes first (order of first appearance), then the edges in G.edges() order
            nodes, seen = [], set()
            for e in o["eb"]:
                for x in e:
                    if x not in seen:
                        seen.add(x)
                        nodes.append(x)
            view, es = [], []
            for e in o["eb"]:
                if e not in es:
                    es.append(e)
            for u in nodes:
                view += [e for e in es if e[0] == u]
            o["_digraph"] = (nodes, view)
            return [0, view, o["lat"]]
        return [0, o["eb"], o["lat"]]
    a = o["m"]
    if k == "new_from":
        # BayesianNetwork(graph): networkx adds the nodes of the source (in its order, keeping their attributes), then
        # its edges in G.edges() order through add_edges_from (so through the checked add_edge, weight None)
        nodes, edges, _, _, _, nwlog, _ = last[a]
        view = [[u, v] for u in nodes for (x, v) in edges if x == u]
        nw = [next((w for (y, w) in nwlog if y == x), 0) for x in nodes]
        nid = len(M)
        return [[0, [], o["lat"]], [1, nid, nodes, nw if any(nw) else [], [False] * len(nodes)], [2, nid, view, []]]
    if k == "remove_edges":
        if o["api"] == "clear_edges":
            return [10, a, [list(e) for e in last[a][1]], False]
        return [10, a, o["es"], o["api"] == "one"]
    if k == "add_nodes":
        flags = [bool(f) for _, f in o["xs"]]
        if o["api"] == "many" and "latshort" in o:
            flags = flags[:o["latshort"]]
        ws = wire_ws(o)[:1] if o["api"] == "one" else wire_ws(o)
        return [1, a, [x for x, _ in o["xs"]], ws, flags]
    if k == "add_edges":
        ws = wire_ws(o)[:1] if o["api"] == "one" else wire_ws(o)
        return [2, a, o["es"], ws]
    if k == "remove_nodes":
        return [3, a, o["xs"]]
    if k == "add_cpds":
        return [4, a, [wire_cpd(c) for c in o["cs"]]]
    if k == "remove_cpds":
        return [5, a, o["xs"]]
    if k == "remove_cpd_objs":
        objs, ws = [], []
        mo = last[a] if last is not None and a < len(last) else None
        for c in o["cs"]:
            if "pick" in c and mo is not None and mo[4] and len(mo[4]) == len(M[a].cpds):
                i = c["pick"] % len(mo[4])
                sc_i = set([mo[4][i][1][0]] + mo[4][i][1][2])
                if c.get("own") and not any(set([q[1][0]] + q[1][2]) == sc_i for q in mo[4][:i]):
                    # the model's very object (identity path of remove_cpds); no earlier CPD has the same scope set, so
                    # the value-based model operation removes the same element
                    objs.append(M[a].cpds[i])
                    vals = M[a].cpds[i].get_values()
                    v_, vc_, ev_, ec_, _ = mo[4][i][1]
                    ws.append([v_, vc_, ev_, ec_, [[Fraction(float(vals[r][j])) for r in range(vals.shape[0])]
                                                   for j in range(vals.shape[1])]])
                    continue
                obj = M[a].cpds[i].copy()               # equal by value, not identical
                if c.get("perturb"):
                    # numpy.allclose(atol=1e-8, rtol=1e-5): a relative change of 1e-10 is "equal", 1e-3 is not
                    obj.values = obj.values * (1.0 + c["perturb"])
                objs.append(obj)
                vals = obj.get_values()
                v_, vc_, ev_, ec_, _ = mo[4][i][1]
                ws.append([v_, vc_, ev_, ec_, [[Fraction(float(vals[r][j])) for r in range(vals.shape[0])]
                                               for j in range(vals.shape[1])]])   # the exact rationals of the floats
            else:
                d = c.get("cpd") or {"v": 0, "vcard": 1, "ev": [], "ecard": [], "cols": [[[1, 1]]]}
                objs.append(make_cpd(d, names))
                ws.append(wire_cpd(d))
        o["_objs"] = objs
        return [9, a, ws]
    if k == "do":
        return [6, a, o["xs"], bool(o["inplace"])]
    if k == "copy":
        return [7, a]
    if k == "random_cpds":
        m = M[a]
        live = [idx[rkey(x)] for x in m.nodes()]
        form = o["form"]
        if form == "int":
            ns = [[x, o["k"]] for x in live]
            o["_arg"] = o["k"]
            isdict = False
        elif form == "dict":
            ns = [[x, o["cards"][x]] for x in live]
            o["_arg"] = {names[x]: c for x, c in ns}
            isdict = True
        elif form == "baddict":
            ns = [[x, o["cards"][x]] for x in o["keys"]]
            o["_arg"] = {names[x]: c for x, c in ns}
            isdict = True
        else:
            np.random.seed(o["npseed"])
            ns = [[x, int(np.random.randint(low=1, high=5, size=1)[0])] for x in live]
            o["_arg"] = None
            isdict = False
        d = dict(map(tuple, ns))
        need = 1
        for x in live:
            sz = d.get(x, 0)
            for p in m.predecessors(names[x]):
                sz *= d.get(idx[rkey(p)], 0)
            need = max(need, sz)
        return [8, a, isdict, ns, draws(need), bool(o["inplace"])]
    raise RuntimeError(k)


def sharing_ok(M, models):
    """model heap locations equal <=> real objects identical (latents sets; CPD objects)"""
    pl, pc = [], []
    for m, mo in zip(M, models):
        pl.append((mo[2], id(m.latents)))
        for c, (loc, _) in zip(m.cpds, mo[4]):
            pc.append((loc, id(c)))
    for pairs, what in ((pl, "latents"), (pc, "cpd")):
        f, g = {}, {}
        for loc, i in pairs:
            if f.setdefault(loc, i) != i or g.setdefault(i, loc) != loc:
                return what
    return None


def is_single(o):
    return all(len(o.get(f, [])) <= 1 for f in ("xs", "es", "cs"))


def oracle_check_model(ms):
    """verdict of check_model() on the model's current state (exact rationals): every node has a CPD over exactly
    its graph parents whose columns sum to 1 (pgmpy tolerates 0.01), and every parent's cardinality agrees"""
    nodes, succ, pred, lat, cpds, nw, ew = ms
    first = {}
    for c in cpds:
        first.setdefault(c[0], c)
    for x in nodes:
        c = first.get(x)
        if c is None or set(c[2]) != set(pred[x]):
            return False
        # numpy.allclose(sums, 1, atol=0.01) with its default rtol=1e-5
        if any(abs(sum(col) - 1) > Fraction(1, 100) + Fraction(1, 100000) for col in c[4]):
            return False
    for x in nodes:
        c = first[x]
        for p, k in zip(c[2], c[3]):
            if first[p][1] != k:
                return False
    return True


def exact_query(ms, q, ev):
    """P(q | ev) from the CPD tables of a model state that passed check_model, by enumeration"""
    import itertools
    nodes, succ, pred, lat, cpds, nw, ew = ms
    first = {}
    for c in cpds:
        first.setdefault(c[0], c)
    card = {x: first[x][1] for x in nodes}
    out = [Fraction(0)] * card[q]
    for asg in itertools.product(*[range(card[x]) for x in nodes]):
        a = dict(zip(nodes, asg))
        if any(a[e] != sv for e, sv in ev.items()):
            continue
        pr = Fraction(1)
        for x in nodes:
            v, vc, pe, pc, cols = first[x]
            j = 0
            for p, k in zip(pe, pc):
                j = j * k + a[p]
            pr *= cols[j][a[x]]
            if pr == 0:
                break
        out[a[q]] += pr
    tot = sum(out)
    return None if tot == 0 else [x / tot for x in out]


def observe(m, ms, names, idx, qrng, budget):
    """validation and queries interleaved with the edits, answered from the model's CURRENT state; returns a
    description of the first disagreement or None"""
    nodes, succ, pred, lat, cpds, nw, ew = ms
    pos = {}
    for i, c in enumerate(cpds):
        pos.setdefault(c[0], i)
    if m.get_cpds() is not m.cpds and list(map(id, m.get_cpds())) != list(map(id, m.cpds)):
        return {"what": "get_cpds()"}
    for x in nodes:
        got = m.get_cpds(names[x])
        if (got is None) != (x not in pos) or (got is not None and got is not m.cpds[pos[x]]):
            return {"what": "get_cpds(node)", "node": x, "impl": repr(got), "expected_index": pos.get(x)}
        if [idx[rkey(p)] for p in m.get_parents(names[x])] != pred[x] or \
                [idx[rkey(p)] for p in m.get_children(names[x])] != succ[x]:
            return {"what": "get_parents/get_children", "node": x}
    absent = [i for i in range(len(names)) if i not in nodes]
    if absent:
        try:
            m.get_cpds(names[absent[0]])
            return {"what": "get_cpds(absent node) accepted", "node": absent[0]}
        except ValueError:
            pass
    if sorted(idx[rkey(x)] for x in m.get_leaves()) != sorted(x for x in nodes if not succ[x]) or \
            sorted(idx[rkey(x)] for x in m.get_roots()) != sorted(x for x in nodes if not pred[x]):
        return {"what": "get_leaves/get_roots"}
    # get_cardinality(): fresh dict (later CPDs of the same variable win); mutating the result changes nothing
    exp = {}
    for c in cpds:
        exp[c[0]] = c[1]
    got = m.get_cardinality()
    if {idx[rkey(k)]: int(v) for k, v in got.items()} != exp:
        return {"what": "get_cardinality()", "impl": {idx[rkey(k)]: int(v) for k, v in got.items()}, "model": exp}
    got["__c15__"] = 99
    if "__c15__" in m.get_cardinality():
        return {"what": "get_cardinality() result is shared"}
    for x in nodes[:2]:
        ps = m.get_parents(names[x])
        ps.append("__c15__")
        if "__c15__" in m.get_parents(names[x]):
            return {"what": "get_parents() result is shared"}
    # check_model()
    exp_ok = oracle_check_model(ms)
    try:
        got_ok = m.check_model() is True
    except ValueError:
        got_ok = False
    if got_ok != exp_ok:
        return {"what": "check_model", "impl": got_ok, "model": exp_ok}
    # a query through the inference API when the model is valid and small
    # (only for exactly normalised tables: with column sums merely within 0.01 of 1 the answer depends on which
    # barren nodes an engine prunes, so there is no single reference value)
    if exp_ok and nodes and budget[0] > 0 and all(sum(col) == 1 for c in cpds for col in c[4]):
        first = {}
        for c in cpds:
            first.setdefault(c[0], c)
        size = 1
        for x in nodes:
            size *= first[x][1]
        if size <= 3000:
            budget[0] -= 1
            from pgmpy.inference import VariableElimination
            q = qrng.choice(nodes)
            rest = [x for x in nodes if x != q]
            ev = {}
            if rest and qrng.random() < 0.6:
                e = qrng.choice(rest)
                ev[e] = qrng.randrange(first[e][1])
            want = exact_query(ms, q, ev)
            if want is not None:
                res = VariableElimination(m).query([names[q]], evidence={names[e]: sv for e, sv in ev.items()} or None,
                                                   show_progress=False)
                vals = [float(v) for v in res.values.flatten()]
                if len(vals) != len(want) or not all(rel_close(a, b) for a, b in zip(vals, want)):
                    return {"what": "query", "q": q, "evidence": ev, "impl": vals, "model": [float(x) for x in want]}
                return {"ok": "query"}
    return None


_TOL = [1e-9]


def rel_close(a, b, tol=None):
    """relative to the exact value b; two values below 1e-290 in magnitude count as equal (float underflow).
    The torch backend builds every table through float32 (torch.Tensor(values)), hence 1e-5 there."""
    tol = _TOL[0] if tol is None else tol
    a, b = float(a), float(b)
    if a != a or b != b:
        return False
    if abs(a) <= 1e-290 and abs(b) <= 1e-290:
        return True
    return abs(a - b) <= tol * abs(b)


def run_bn(case, drv):
    from pgmpy import config
    if case.get("backend") == "torch":
        config.set_backend("torch")
        _TOL[0] = 1e-5
    try:
        return run_bn_(case, drv)
    finally:
        _TOL[0] = 1e-9
        if case.get("backend") == "torch":
            config.set_backend("numpy")


def run_bn_(case, drv):
    import networkx as nx
    import numpy as np
    names = bn_names(case)
    idx = {repr(nm): i for i, nm in enumerate(names)}
    M = []
    ops = case["ops"]
    tags = set()
    nontrivial = False
    wire = []
    last_state = None
    qrng = random.Random(case.get("nameseed", 0))
    budget = [2]
    for step, o in enumerate(ops):
        if o["op"] != "new" and not (0 <= o["m"] < len(M)):
            o = dict(o)
            if not M:
                continue
            o["m"] = o["m"] % len(M)
        o = materialise(dict(o, _style=case.get("style")), names, idx)
        w = wire_bn(o, M, names, idx, last_state)
        if o["op"] == "new_from":
            wire.extend(w)
        elif "_digraph" in o and drv.call("c15_bn_last", wire + [w])[0] == 0:
            # accepted: same edges, but networkx inserts the nodes first
            nodes_, view_ = o["_digraph"]
            wire.extend([[0, [], o["lat"]], [1, len(M), nodes_, [], [False] * len(nodes_)], [2, len(M), view_, []]])
        else:
            wire.append(w)
        before = [snap_real(m, idx) for m in M]
        cons_before = [consistent_cpds(m) for m in M]
        nbefore = len(M)
        code = apply_bn(o, M, names)
        mout, mstate = drv.call("c15_bn_last", wire)
        last_state = mstate
        tags.add("%s:%s" % (o["op"], ERR[code]))
        where = {"step": step, "op": {k: v for k, v in o.items() if not k.startswith("_")}}
        if code != mout:
            return bad("impl!=model:error-kind", dict(where, impl=ERR[code], model=ERR.get(mout, mout)))
        if len(mstate) != len(M):
            return bad("impl!=model:live-models", dict(where, impl=len(M), model=len(mstate)))
        # argument purity: the containers handed to the call are as they were
        for obj, snap in o.get("_held", []):
            if obj != snap:
                return bad("impl!=spec:argument-mutated", dict(where, argument=repr(snap)[:200], now=repr(obj)[:200]))
        after = []
        for i, (m, mo) in enumerate(zip(M, mstate)):
            r = snap_real(m, idx)
            after.append(r)
            sm = snap_model(mo)
            d = cmp_snap(r, sm)
            if d:
                return bad("impl!=model:" + d["what"], dict(where, model_id=i, diff=d))
            if i == o.get("m", len(M) - 1) or i == len(M) - 1 or (step + i) % 3 == 0:
                d = observe(m, sm, names, idx, qrng, budget)
                if d and "ok" in d:
                    tags.add("observed:" + d["ok"])
                elif d:
                    return bad("impl!=model:observe-" + d["what"].split("(")[0].split("/")[0], dict(where, model_id=i, diff=d))
            if not nx.is_directed_acyclic_graph(m):
                return bad("impl!=spec:directed-cycle", dict(where, model_id=i, edges=[list(e) for e in mo[1]]))
            if r[1] and any(r[1].values()) or r[4]:
                nontrivial = True
        sh = sharing_ok(M, mstate)
        if sh:
            return bad("impl!=model:sharing-" + sh, dict(where, note="heap locations vs `is`"))
        # identity sharing between distinct live models, directly on the real objects
        for i in range(len(M)):
            for j in range(i + 1, len(M)):
                if M[i].latents is M[j].latents:
                    return bad("impl!=spec:shared-latents", dict(where, models=[i, j]))
                if any(c is d for c in M[i].cpds for d in M[j].cpds):
                    return bad("impl!=spec:shared-cpd-object", dict(where, models=[i, j]))
                if any(isinstance(c.values, np.ndarray) and isinstance(d.values, np.ndarray) and np.shares_memory(c.values, d.values)
                       for c in M[i].cpds for d in M[j].cpds):
                    return bad("impl!=spec:shared-cpd-array", dict(where, models=[i, j]))
        # frame: an op on model a never changes another live model
        tgt = o.get("m", -1)
        pure = o["op"] in ("copy", "new_from", "new") or (o["op"] in ("do", "random_cpds") and not o["inplace"])
        for i in range(nbefore):
            if (i != tgt or pure) and not real_equal(before[i], after[i]):
                return bad("impl!=spec:other-model-changed", dict(where, changed=i))
        if code == 0 and len(M) > nbefore and o["op"] in ("copy",):
            if not real_equal(loose(before[tgt]), loose(after[-1])):
                return bad("impl!=spec:copy-differs", dict(where))
        # a rejected single operation leaves the model unchanged
        if code != 0 and is_single(o):
            changed = len(M) != nbefore or any(not real_equal(b, a) for b, a in zip(before, after))
            if changed:
                return bad("impl!=spec:rejected-op-changed-model", dict(where, err=ERR[code]))
        # after remove_node(x) no CPD of x remains (fixed by 984e212: remove_cpds deletes by identity)
        if code == 0 and o["op"] == "remove_nodes":
            for x in o["xs"]:
                if any(c[0] == x for c in after[tgt][4]) and x not in after[tgt][0]:
                    return bad("impl!=spec:remove-node-keeps-own-cpd", dict(where, node=x))
        # remove_node / do leave consistent CPDs consistent
        if code == 0 and o["op"] in ("remove_nodes", "do"):
            j = tgt if (o["op"] == "remove_nodes" or o["inplace"]) else len(M) - 1
            now = consistent_cpds(M[j])
            gone = {names[x] for x in o["xs"]} if o["op"] == "remove_nodes" else set()
            lost = [idx[rkey(v)] for v in cons_before[tgt] - gone - now]
            if lost:
                return bad("impl!=spec:cpd-inconsistent-after-" + o["op"], dict(where, variables=lost))
            tags.add("cpd-preservation-checked:%d" % min(3, len(cons_before[tgt] - gone)))
    # None is not a node: add_node(None) / add_edge(None, x) are rejected by networkx and must change nothing.
    # (add_node(None, latent=True) is the reported defect "None stays in latents": enabled by NONE_LATENT once repaired)
    if M:
        m = M[-1]
        snap = snap_real(m, idx)
        lat_before = set(m.latents)
        for call in ([lambda: m.add_node(None), lambda: m.add_edge(None, names[0]), lambda: m.add_nodes_from([None])]
                     + ([lambda: m.add_node(None, latent=True)] if NONE_LATENT else [])):
            try:
                call()
                return bad("impl!=spec:none-node-accepted", {"model": len(M) - 1})
            except ValueError:
                pass
            if set(m.latents) != lat_before or not real_equal(snap, snap_real(m, idx)):
                return bad("impl!=spec:rejected-op-changed-model", {"op": "None as a node", "latents": repr(m.latents)})
    key = common.canon_key(["bn", case["N"], [[k, v] for o in ops for k, v in sorted(o.items()) if not k.startswith("_")]])
    tags.add("len=%d0s" % (len(ops) // 10))
    tags.add("backend=" + case.get("backend", "numpy"))
    tags.add("names=" + case.get("style", "?"))
    tags.add("models=%d" % len(M))
    return ok(nontrivial=nontrivial, key=key, tags=sorted(tags))


# ------------------------------------------------------------------ DBN / JT / DAG
def adj_cmp(G, nodes_m, edges_m, to_id, directed):
    nodes = [to_id(x) for x in G.nodes()]
    if nodes != nodes_m:
        return {"what": "nodes", "impl": nodes, "model": nodes_m}
    for u in G.nodes():
        iu = to_id(u)
        if directed:
            s = [to_id(v) for v in G.successors(u)]
            p = [to_id(v) for v in G.predecessors(u)]
            ms_ = [v for (a, v) in edges_m if a == iu]
            mp = [a for (a, v) in edges_m if v == iu]
            if s != ms_ or p != mp:
                return {"what": "adjacency", "node": iu, "impl": [s, p], "model": [ms_, mp]}
        else:
            s = [to_id(v) for v in G.neighbors(u)]
            ms_ = [(v if a == iu else a) for (a, v) in edges_m if a == iu or v == iu]
            if s != ms_:
                return {"what": "adjacency", "node": iu, "impl": s, "model": ms_}
    return None


def run_dbn(case, drv):
    import networkx as nx
    from pgmpy.models import DynamicBayesianNetwork
    G = DynamicBayesianNetwork()
    wire, tags = [], set()
    nm = lambda a: "v%d" % a
    to_id = lambda x: 2 * int(x[0][1:]) + x[1]
    for step, o in enumerate(case["ops"]):
        before = (list(G.nodes()), list(G.edges()))
        try:
            if o["op"] == "add_nodes":
                wire.append([0, o["xs"]])
                if o["api"] == "one":
                    G.add_node(nm(o["xs"][0]), **({"weight": o["ws"][0]} if o.get("ws") else {}))
                else:
                    G.add_nodes_from([nm(a) for a in o["xs"]], **({"weights": o["ws"]} if "ws" in o else {}))
            else:
                wire.append([1, o["es"]])
                es = [((nm(a), s), (nm(b), t)) for (a, s), (b, t) in o["es"]]
                if o["api"] == "one":
                    G.add_edge(*es[0], **({"weight": o["ws"][0]} if o.get("ws") else {}))
                else:
                    G.add_edges_from(es, **({"weights": o["ws"]} if "ws" in o else {}))
            code = 0
        except Exception as e:
            code = exc_code(e)
        mout, mn, me = drv.call("c15_dbn", wire)[-1]
        me = [tuple(e) for e in me]
        where = {"step": step, "op": o}
        tags.add("dbn %s:%s" % (o["op"], ERR[code]))
        if code != mout:
            return bad("impl!=model:dbn-error-kind", dict(where, impl=ERR[code], model=ERR.get(mout, mout)))
        d = adj_cmp(G, mn, me, to_id, True)
        if d:
            return bad("impl!=model:dbn-" + d["what"], dict(where, diff=d))
        if not nx.is_directed_acyclic_graph(G):
            return bad("impl!=spec:dbn-directed-cycle", dict(where, edges=me))
        if code != 0 and len(o.get("es", o.get("xs"))) <= 1 and before != (list(G.nodes()), list(G.edges())):
            return bad("impl!=spec:dbn-rejected-op-changed-model", where)
    return ok(nontrivial=G.number_of_edges() > 0, key=common.canon_key(["dbn", case["ops"]]),
              tags=sorted(tags) + ["dbn edges=%d" % min(10, G.number_of_edges())])


def run_jt(case, drv):
    import networkx as nx
    from pgmpy.models import JunctionTree
    G = JunctionTree()
    cl = [tuple(c) for c in CLIQUE_POOL]
    var_id = {v: i for i, v in enumerate("abcdefg")}
    to_id = lambda c: cl.index(tuple(c))
    wire, tags = [], set()
    for step, o in enumerate(case["ops"]):
        before = (list(G.nodes()), list(G.edges()))
        try:
            if o["op"] == "add_nodes":
                wire.append([0, o["xs"]])
                if o["api"] == "one":
                    G.add_node(cl[o["xs"][0]])
                else:
                    G.add_nodes_from([cl[a] for a in o["xs"]])
            else:
                wire.append([1, [[[u, [var_id[x] for x in cl[u]]], [v, [var_id[x] for x in cl[v]]]] for u, v in o["es"]],
                             [] if o["api"] == "one" else wire_ws(o)])
                if o["api"] == "one":
                    G.add_edge(cl[o["es"][0][0]], cl[o["es"][0][1]], **({"weight": o["ws"][0]} if o.get("ws") else {}))
                else:
                    G.add_edges_from([(cl[u], cl[v]) for u, v in o["es"]], **({"weights": o["ws"]} if "ws" in o else {}))
            code = 0
        except Exception as e:
            code = exc_code(e)
        mout, mn, me = drv.call("c15_jt", wire)[-1]
        me = [tuple(e) for e in me]
        where = {"step": step, "op": o}
        tags.add("jt %s:%s" % (o["op"], ERR[code]))
        if code != mout:
            return bad("impl!=model:jt-error-kind", dict(where, impl=ERR[code], model=ERR.get(mout, mout)))
        d = adj_cmp(G, mn, me, to_id, False)
        if d:
            return bad("impl!=model:jt-" + d["what"], dict(where, diff=d))
        if G.number_of_nodes() and not nx.is_forest(G):
            return bad("impl!=spec:jt-cycle", dict(where, edges=me))
        if code != 0 and len(o.get("es", o.get("xs"))) <= 1 and before != (list(G.nodes()), list(G.edges())):
            return bad("impl!=spec:jt-rejected-op-changed-model", where)
    key = common.canon_key(["jt", case["ops"]])
    # copy: equal content, independent
    c = G.copy()
    if sorted(map(str, c.nodes())) != sorted(map(str, G.nodes())) or \
            sorted(str(sorted(map(str, e))) for e in c.edges()) != sorted(str(sorted(map(str, e))) for e in G.edges()):
        return bad("impl!=spec:jt-copy-differs", {"nodes": [str(x) for x in G.nodes()], "copy": [str(x) for x in c.nodes()]})
    n0 = (list(G.nodes()), list(G.edges()))
    c.add_node(("zz", "a"))
    if (list(G.nodes()), list(G.edges())) != n0:
        return bad("impl!=spec:jt-copy-shares-graph", {})
    return ok(nontrivial=G.number_of_edges() > 0, key=key, tags=sorted(tags) + ["jt edges=%d" % min(8, G.number_of_edges())])


def run_dag(case, drv):
    import networkx as nx
    from pgmpy.base import DAG
    eb = case["eb"]
    st, r = drv.call_e("c15_dag", eb)
    try:
        G = DAG([("n%d" % u, "n%d" % v) for u, v in eb] if eb else None)
        code = 0
    except Exception as e:
        code = exc_code(e)
    if (code == 0) != (st == "ok") or (code != 0 and (code, r) != (1, 1)):
        return bad("impl!=model:dag-init-error", {"eb": eb, "impl": ERR[code], "model": [st, r]})
    if code == 0:
        d = adj_cmp(G, r[0], [tuple(e) for e in r[1]], lambda x: int(x[1:]), True)
        if d:
            return bad("impl!=model:dag-init-" + d["what"], {"eb": eb, "diff": d})
        if not nx.is_directed_acyclic_graph(G):
            return bad("impl!=spec:dag-init-cycle", {"eb": eb})
    return ok(nontrivial=len(eb) > 0, key=common.canon_key(["dag", eb]), tags=["dag-init:" + ERR[code]])


def run_dbn_copy(case, drv):
    """DynamicBayesianNetwork.copy(): same nodes, edges and CPD tables; editing either side (edges, CPD registration,
    in-place table edits) never shows on the other; no shared CPD object or array"""
    import numpy as np
    import networkx as nx
    rng = random.Random(case["seed"])
    G = _mk_dbn(rng)
    for _ in range(rng.randint(0, 3)):
        G.add_cpds(_dbn_valid_cpd(rng, G))
    key = common.canon_key(["ucopy", case])
    tags = ["ucopy:dbn", "dbn cpds=%d" % len(G.cpds)]

    def content(X):
        c = multi_content(X)
        # copy() re-registers the CPDs that get_cpds() lists (first CPD per variable, slice by slice): compare as a set
        seen, tabs = set(), []
        for t in c["tables"]:
            if t[1][0] not in seen:
                seen.add(t[1][0])
                tabs.append(t)
        c["tables"] = sorted(tabs, key=repr)
        return c

    def lookups_ok(X):
        """get_cpds(node) = the first registered CPD of that node, on the CURRENT list"""
        for n in list(X.nodes()):
            want = next((c for c in X.cpds if tuple(c.variable) == (n.node, n.time_slice)), None)
            if X.get_cpds((n.node, n.time_slice)) is not want:
                return False
        return True

    # a session on one object: lookups interleaved with registration and removal
    if not lookups_ok(G):
        return bad("impl!=spec:dbn-get-cpds", {"stage": "initial"}, key=key, tags=tags)
    extra = _dbn_valid_cpd(rng, G)
    G.add_cpds(extra)
    if not lookups_ok(G):
        return bad("impl!=spec:dbn-get-cpds", {"stage": "after add_cpds"}, key=key, tags=tags)
    G.remove_cpds(G.cpds[0])
    if not lookups_ok(G):
        return bad("impl!=spec:dbn-get-cpds", {"stage": "after remove_cpds"}, key=key, tags=tags)
    c0 = content(G)
    C = G.copy()
    if content(C) != c0:
        return bad("impl!=spec:dbn-copy-differs", {"orig": c0, "copy": content(C)}, key=key, tags=tags)
    if not nx.is_directed_acyclic_graph(C):
        return bad("impl!=spec:dbn-copy-cycle", {}, key=key, tags=tags)
    if any(a is b or np.shares_memory(a.values, b.values) for a in G.cpds for b in C.cpds) or G.cpds is C.cpds:
        return bad("impl!=spec:dbn-copy-shares-cpd", {}, key=key, tags=tags)
    C.add_edge(("N", 0), ("G", 0))
    C.add_cpds(_cpd(("N", 0), 2, rng=rng))
    if C.cpds:
        C.cpds[0].values[...] = 0.5
    if content(G) != c0:
        return bad("impl!=spec:dbn-copy-original-changed", {"orig_before": c0, "orig_after": content(G)}, key=key, tags=tags)
    c1 = content(C)
    G.add_edge(("M", 0), ("M", 1))
    if G.cpds:
        G.cpds[0].values[...] = 0.25
        G.remove_cpds(G.cpds[-1])
    if content(C) != c1:
        return bad("impl!=spec:dbn-copy-copy-changed", {}, key=key, tags=tags)
    return ok(nontrivial=True, key=key, tags=tags)


def run_ucopy(case, drv):
    if case["cls"] == "dbn":
        return run_dbn_copy(case, drv)
    """copy independence of the undirected models, on the real objects only"""
    import numpy as np
    from pgmpy.models import MarkovNetwork, ClusterGraph, JunctionTree
    from pgmpy.factors.discrete import DiscreteFactor
    rng = random.Random(case["seed"])
    cls = case["cls"]
    tags = ["ucopy:" + cls]

    def content(G):
        return (sorted(map(str, G.nodes())), sorted(str(sorted(map(str, e))) for e in G.edges()),
                [(list(map(str, f.variables)), [int(k) for k in f.cardinality], [float(x) for x in f.values.flatten()])
                 for f in G.factors])

    if cls == "mn":
        n = rng.randint(2, 5)
        G = MarkovNetwork()
        G.add_nodes_from(["n%d" % i for i in range(n)])
        for i in range(n):
            for j in range(i + 1, n):
                if rng.random() < 0.5:
                    G.add_edge("n%d" % i, "n%d" % j)
        for (u, v) in list(G.edges())[:3]:
            G.add_factors(DiscreteFactor([u, v], [2, 2], [rng.randint(1, 8) for _ in range(4)]))
        extra = lambda H: H.add_edge("n0", "new")
    else:
        G = ClusterGraph() if cls == "cg" else JunctionTree()
        # ClusterGraph.copy() rebuilds from edges only (isolated cluster nodes are dropped: an observation,
        # not part of C15), so cluster graphs are compared on chains with >= 1 edge
        chain = [("a", "b"), ("b", "c"), ("c", "d"), ("d", "e")][: rng.randint(2 if cls == "cg" else 1, 4)]
        isolated = len(chain) == 1
        if isolated:
            G.add_node(chain[0])
        for u, v in zip(chain, chain[1:]):
            G.add_edge(u, v)
        if rng.random() < 0.7:
            for c in chain:
                G.add_factors(DiscreteFactor(list(c), [2, 2], [rng.randint(1, 8) for _ in range(4)]))
        extra = lambda H: H.add_node(("e", "zz"))
        tags.append("isolated-clique" if isolated else "chain=%d" % len(chain))
    c0 = content(G)
    C = G.copy()
    if content(C) != c0:
        return bad("impl!=spec:ucopy-differs", {"cls": cls, "orig": c0, "copy": content(C)})
    if any(f is g for f in G.factors for g in C.factors) or (G.factors and G.factors is C.factors):
        return bad("impl!=spec:ucopy-shares-factor-object", {"cls": cls})
    # mutate the copy: original unchanged; then mutate the original: copy unchanged
    extra(C)
    if C.factors:
        C.factors[0].values[...] = 7.0
        C.factors.pop()
    if content(G) != c0:
        return bad("impl!=spec:ucopy-original-changed", {"cls": cls})
    c1 = content(C)
    extra(G)
    if G.factors:
        G.factors[0].values[...] = 9.0
    if content(C) != c1:
        return bad("impl!=spec:ucopy-copy-changed", {"cls": cls})
    return ok(nontrivial=bool(c0[1]) or bool(c0[2]), key=common.canon_key(["ucopy", case]), tags=tags)


# ------------------------------------------------------------------ rejected multi-argument calls
# For every multi-argument mutator: k valid arguments, one invalid argument at position >= 1, possibly more valid
# ones after it.  The call must raise the listed exception, and the state afterwards must be
#   ATOMIC : exactly the snapshot taken before the call (all arguments are validated before anything is stored);
#   PREFIX : exactly what the valid arguments BEFORE the invalid one produce when passed one at a time (the
#            mutator is documented/implemented as a loop over its arguments and stops at the first failure).
# The class of each mutator is the behaviour of the pinned code base; any drift (an atomic mutator that starts to
# half-apply, a loop that skips/reorders/duplicates) is a violation.  DBN.add_cpds is also compared with the Coq
# model (dbn_add_cpds, theorem C15_dbn_add_cpds_rejected_no_change); the BayesianNetwork mutators are in addition
# driven through the Coq store machine by the "bn" histories.
ATOMIC, PREFIX = "atomic", "prefix"


def _cpd(var, card, ev=(), ecard=(), rng=None):
    from pgmpy.factors.discrete import TabularCPD
    ncol = 1
    for k in ecard:
        ncol *= k
    cols = [common.rand_column(rng, card) for _ in range(ncol)]
    vals = [[float(col[r]) for col in cols] for r in range(card)]
    if ev:
        return TabularCPD(var, card, vals, evidence=list(ev), evidence_card=list(ecard))
    return TabularCPD(var, card, vals)


def _phi(vs, rng):
    from pgmpy.factors.discrete import DiscreteFactor
    return DiscreteFactor(list(vs), [2] * len(vs), [rng.randint(1, 16) for _ in range(2 ** len(vs))])


def _canon_node(x):
    if hasattr(x, "variables") and hasattr(x, "values"):
        return ("factor", tuple(map(repr, x.variables)))
    if hasattr(x, "time_slice"):          # DynamicNode: its repr carries an address
        return repr((x.node, x.time_slice))
    return repr(x)


def multi_content(G):
    """full observable state: nodes, edges, latents, CPDs / factors (scope, cardinalities, every value) in list order"""
    directed = G.is_directed()
    nodes = sorted(map(repr, map(_canon_node, G.nodes())))
    edges = sorted(repr((_canon_node(u), _canon_node(v)) if directed else tuple(sorted(map(repr, (_canon_node(u), _canon_node(v))))))
                   for u, v in G.edges())
    tabs = []
    for f in list(getattr(G, "cpds", [])) + list(getattr(G, "factors", [])):
        tabs.append((type(f).__name__, [_canon_node(v) for v in f.variables], [int(k) for k in f.cardinality],
                     [round(float(x), 12) for x in f.values.flatten()]))
    lat = sorted(map(repr, getattr(G, "latents", []) or []))
    return {"nodes": nodes, "edges": edges, "tables": tabs, "latents": lat}


def _mk_dbn(rng):
    from pgmpy.models import DynamicBayesianNetwork
    G = DynamicBayesianNetwork()
    G.add_edges_from([(("D", 0), ("G", 0)), (("D", 0), ("D", 1))])
    if rng.random() < 0.5:
        G.add_edge(("I", 0), ("G", 0))
    if rng.random() < 0.5:
        G.add_cpds(_cpd(("D", 0), 2, rng=rng))
    return G


def _mk_bn(rng):
    from pgmpy.models import BayesianNetwork
    G = BayesianNetwork([("A", "B"), ("A", "C"), ("B", "D")])
    if rng.random() < 0.5:
        G.add_node("E", latent=rng.random() < 0.5)
    if rng.random() < 0.6:
        G.add_cpds(_cpd("A", 2, rng=rng), _cpd("B", 2, ["A"], [2], rng=rng))
    return G


def _mk_mn(rng):
    from pgmpy.models import MarkovNetwork
    G = MarkovNetwork([("a", "b"), ("b", "c"), ("c", "d")])
    if rng.random() < 0.6:
        G.add_factors(_phi(["a", "b"], rng), _phi(["b", "c"], rng))
    return G


def _mk_fg(rng):
    from pgmpy.models import FactorGraph
    G = FactorGraph()
    G.add_nodes_from(["a", "b", "c"])
    f1 = _phi(["a", "b"], rng)
    G.add_node(f1)
    G.add_edges_from([("a", f1), ("b", f1)])
    G.add_factors(f1)
    if rng.random() < 0.5:
        f2 = _phi(["b", "c"], rng)
        G.add_node(f2)
        G.add_edges_from([("b", f2), ("c", f2)])
        G.add_factors(f2)
    return G


def _mk_cg(rng, cls="cg"):
    from pgmpy.models import ClusterGraph, JunctionTree
    G = ClusterGraph() if cls == "cg" else JunctionTree()
    G.add_edge(("a", "b"), ("b", "c"))
    G.add_edge(("b", "c"), ("c", "d"))
    if rng.random() < 0.6:
        G.add_factors(_phi(["a", "b"], rng))
    return G


def _mk_dag(rng):
    from pgmpy.base import DAG
    return DAG([("A", "B"), ("B", "C")])


def _t_add_tables(mk, meth, valid, invalid, exc, cls):
    """targets whose arguments are CPD / factor objects"""
    def plan(rng, G):
        k = rng.randint(1, 3)
        specs = [("new", valid(rng, G)) for _ in range(k)]
        pos = rng.randint(1, k)
        specs.insert(pos, ("new", invalid(rng, G)))
        return specs, pos
    return {"mk": mk, "plan": plan, "exc": exc, "cls": cls,
            "call": lambda G, args: getattr(G, meth)(*args), "call1": lambda G, a: getattr(G, meth)(a),
            "resolve": lambda G, spec: spec[1]}


def _t_from(mk, meth, valid, invalid, exc, cls, kw=None):
    """targets taking one list argument (add_edges_from / add_nodes_from / remove_nodes_from)"""
    def plan(rng, G):
        k = rng.randint(1, 3)
        vs = valid(rng, G, k)
        pos = rng.randint(1, len(vs))
        specs = [("lit", v) for v in vs]
        specs.insert(pos, ("lit", invalid(rng, G)))
        return specs, pos
    return {"mk": mk, "plan": plan, "exc": exc, "cls": cls,
            "call": lambda G, args: getattr(G, meth)(list(args), **(kw(args) if kw else {})),
            "call1": lambda G, a: getattr(G, meth)([a]),
            "resolve": lambda G, spec: spec[1]}


def _t_remove(mk, meth, attr, invalid, exc, by_name=None):
    """targets removing stored CPDs / factors: arguments are the model's own objects (by index) or names"""
    def plan(rng, G):
        n = len(getattr(G, attr))
        idxs = list(range(n))
        rng.shuffle(idxs)
        specs = [("own", i) for i in idxs[: rng.randint(1, max(1, n))]] or []
        pos = rng.randint(1, len(specs)) if specs else 0
        specs.insert(pos, ("lit", invalid(rng, G)))
        return specs, pos

    def resolve(G, spec):
        if spec[0] == "lit":
            return spec[1]
        obj = G._c15_own[spec[1]]
        return by_name(obj) if by_name else obj
    return {"mk": mk, "plan": plan, "exc": exc, "cls": PREFIX, "own": attr, "need_tables": True,
            "call": lambda G, args: getattr(G, meth)(*args), "call1": lambda G, a: getattr(G, meth)(a),
            "resolve": resolve}


def _bn_valid_cpd(rng, G):
    v = rng.choice(sorted(G.nodes()))
    pa = sorted(G.predecessors(v)) if rng.random() < 0.8 else []
    return _cpd(v, 2, pa, [2] * len(pa), rng=rng)


def _dbn_valid_cpd(rng, G):
    v = rng.choice(sorted(G.nodes(), key=repr))
    pa = sorted(G.predecessors(v), key=repr) if rng.random() < 0.8 else []
    return _cpd(tuple(v), 2, [tuple(p) for p in pa], [2] * len(pa), rng=rng)


def _bad_cpd(rng, G):
    r = rng.random()
    if r < 0.45:
        return _cpd(("Z", 0) if not G.is_directed() or any(isinstance(n, tuple) or hasattr(n, "time_slice") for n in G.nodes()) else "Z",
                    2, rng=rng)
    if r < 0.8:
        known = sorted(G.nodes(), key=repr)[0]
        known = tuple(known) if hasattr(known, "time_slice") else known
        unknown = ("Z", 0) if isinstance(known, tuple) else "Z"
        return _cpd(known, 2, [unknown], [2], rng=rng)
    return "not a cpd"


def _mn_valid_phi(rng, G):
    u, v = rng.choice(sorted(G.edges()))
    return _phi([u, v] if rng.random() < 0.8 else [u], rng)


def _cg_valid_phi(rng, G):
    return _phi(list(rng.choice(sorted(G.nodes()))), rng)


def _fg_valid_phi(rng, G):
    vs = sorted(n for n in G.nodes() if isinstance(n, str))
    return _phi(rng.sample(vs, rng.randint(1, 2)), rng)


def _bn_valid_edges(rng, G, k):
    pool = [("C", "F"), ("D", "F"), ("A", "D"), ("F", "H"), ("C", "H"), ("B", "C")]
    return rng.sample(pool, k)


def _bn_bad_edge(rng, G):
    return rng.choice([("D", "A"), ("B", "B"), ("C", "A"), ("Q", "Q")])


def _dbn_valid_edges(rng, G, k):
    pool = [(("G", 0), ("L", 0)), (("G", 0), ("G", 1)), (("I", 0), ("I", 1)), (("L", 0), ("L", 1)), (("D", 0), ("L", 0))]
    return rng.sample(pool, k)


def _dbn_bad_edge(rng, G):
    return rng.choice([(("G", 0), ("D", 0)), (("D", 1), ("D", 0)), (("D", 0), ("D", 0)), (("D", 0), ("G", 2))])


MULTI = {
    "dbn.add_cpds": _t_add_tables(_mk_dbn, "add_cpds", _dbn_valid_cpd, _bad_cpd, (ValueError,), ATOMIC),
    "bn.add_cpds": _t_add_tables(_mk_bn, "add_cpds", _bn_valid_cpd, _bad_cpd, (ValueError,), PREFIX),
    "mn.add_factors": _t_add_tables(_mk_mn, "add_factors", _mn_valid_phi, lambda rng, G: _phi(["a", "zz"], rng), (ValueError,), PREFIX),
    "fg.add_factors": _t_add_tables(_mk_fg, "add_factors", _fg_valid_phi, lambda rng, G: _phi(["a", "zz"], rng), (ValueError,), PREFIX),
    "cg.add_factors": _t_add_tables(_mk_cg, "add_factors", _cg_valid_phi, lambda rng, G: _phi(["a", "d"], rng), (ValueError,), PREFIX),
    "jt.add_factors": _t_add_tables(lambda rng: _mk_cg(rng, "jt"), "add_factors", _cg_valid_phi,
                                    lambda rng, G: _phi(["a", "d"], rng), (ValueError,), PREFIX),
    "bn.add_edges_from": _t_from(_mk_bn, "add_edges_from", _bn_valid_edges, _bn_bad_edge, (ValueError,), PREFIX),
    "dbn.add_edges_from": _t_from(_mk_dbn, "add_edges_from", _dbn_valid_edges, _dbn_bad_edge,
                                  (ValueError, NotImplementedError), PREFIX),
    "mn.add_edges_from": _t_from(_mk_mn, "add_edges_from", lambda rng, G, k: rng.sample([("a", "c"), ("d", "e"), ("e", "f"), ("a", "d")], k),
                                 lambda rng, G: ("b", "b"), (ValueError,), PREFIX),
    "fg.add_edges_from": _t_from(_mk_fg, "add_edges_from", lambda rng, G, k: rng.sample([("a", "x1"), ("c", "x2"), ("b", "x3")], k),
                                 lambda rng, G: ("c", "c"), (ValueError,), PREFIX),
    "jt.add_edges_from": _t_from(lambda rng: _mk_cg(rng, "jt"), "add_edges_from",
                                 lambda rng, G, k: rng.sample([(("c", "d"), ("d", "e")), (("a", "b"), ("a", "f")), (("b", "c"), ("c", "g"))], k),
                                 lambda rng, G: rng.choice([(("a", "b"), ("c", "d")), (("a", "b"), ("a", "b")), (("a", "b"), ("x", "y"))]),
                                 (ValueError,), PREFIX),
    "bn.add_edges_from:weights": _t_from(_mk_bn, "add_edges_from", _bn_valid_edges, lambda rng, G: ("C", "G"), (ValueError,), ATOMIC,
                                         kw=lambda args: {"weights": [1] * (len(args) + 1)}),
    "dag.add_edges_from:weights": _t_from(_mk_dag, "add_edges_from", _bn_valid_edges, lambda rng, G: ("C", "G"), (ValueError,), ATOMIC,
                                          kw=lambda args: {"weights": [1] * (len(args) - 1)}),
    "bn.add_nodes_from:weights": _t_from(_mk_bn, "add_nodes_from", lambda rng, G, k: rng.sample(["P", "Q", "R", "A"], k),
                                         lambda rng, G: "S", (ValueError,), ATOMIC, kw=lambda args: {"weights": [2] * (len(args) + 1)}),
    "bn.add_nodes_from:latent": _t_from(_mk_bn, "add_nodes_from", lambda rng, G, k: rng.sample(["P", "Q", "R", "A"], k),
                                        lambda rng, G: "S", (IndexError,), PREFIX, kw=lambda args: {"latent": [False] * args.index("S")}),
    "cg.add_nodes_from": _t_from(_mk_cg, "add_nodes_from", lambda rng, G, k: rng.sample([("d", "e"), ("e",), ("a", "f")], k),
                                 lambda rng, G: "not-a-clique", (TypeError,), PREFIX),
    "bn.remove_nodes_from": _t_from(_mk_bn, "remove_nodes_from", lambda rng, G, k: rng.sample(["A", "B", "C", "D"], k),
                                    lambda rng, G: "nope", (ValueError,), PREFIX),
    "bn.remove_cpds": _t_remove(_mk_bn, "remove_cpds", "cpds", lambda rng, G: rng.choice(["D", "nope"]), (ValueError,),
                                by_name=lambda c: c.variable),
    "dbn.remove_cpds": _t_remove(_mk_dbn, "remove_cpds", "cpds", lambda rng, G: rng.choice([("G", 0), ("Z", 0)]), (ValueError,),
                                 by_name=lambda c: tuple(c.variable)),
    "mn.remove_factors": _t_remove(_mk_mn, "remove_factors", "factors", lambda rng, G: _phi(["c", "d"], rng), (ValueError,)),
    "fg.remove_factors": _t_remove(_mk_fg, "remove_factors", "factors", lambda rng, G: _phi(["a", "c"], rng), (ValueError,)),
    "cg.remove_factors": _t_remove(_mk_cg, "remove_factors", "factors", lambda rng, G: _phi(["c", "d"], rng), (ValueError,)),
}


def run_multi(case, drv):
    T = MULTI[case["target"]]
    tags = ["multi " + case["target"], "multi class=" + T["cls"]]
    key = common.canon_key(["multi", case["target"], case["seed"]])
    G = T["mk"](random.Random(case["seed"]))
    twin = T["mk"](random.Random(case["seed"]))
    for X in (G, twin):
        if "own" in T:
            X._c15_own = list(getattr(X, T["own"]))
    if T.get("need_tables") and not getattr(G, T["own"]):
        # nothing stored: give both objects one table so that a valid argument exists
        for X in (G, twin):
            r = random.Random(case["seed"] + 1)
            if T["own"] == "cpds":
                X.add_cpds(_dbn_valid_cpd(r, X) if case["target"].startswith("dbn") else _cpd("A", 2, rng=r))
            else:
                X.add_factors(_cg_valid_phi(r, X) if case["target"].startswith("cg") else
                              (_phi(["a", "b"], r) if not case["target"].startswith("fg") else _phi(["a"], r)))
            X._c15_own = list(getattr(X, T["own"]))
    if multi_content(G) != multi_content(twin):
        raise RuntimeError("fixture not deterministic")
    specs, pos = T["plan"](random.Random(case["seed"] + 2), G)
    before = multi_content(G)
    stored_before = list(getattr(G, "cpds", []))
    args = [T["resolve"](G, sp) for sp in specs]
    try:
        T["call"](G, args)
        raised = None
    except T["exc"] as e:
        raised = type(e).__name__
    detail = {"target": case["target"], "args": [repr(a)[:80] for a in args], "invalid_position": pos, "class": T["cls"]}
    if raised is None:
        return bad("impl!=spec:multi-invalid-argument-accepted", detail, key=key, tags=tags)
    tags.append("multi raised=" + raised)
    # expected state
    if T["cls"] == PREFIX:
        for sp in specs[:pos]:
            T["call1"](twin, T["resolve"](twin, sp))
    exp = multi_content(twin)
    got = multi_content(G)
    if got != exp:
        diff = {k: {"impl": got[k], "expected": exp[k]} for k in got if got[k] != exp[k]}
        kind = "impl!=spec:rejected-multi-call-changed-model" if T["cls"] == ATOMIC else "impl!=spec:rejected-multi-call-wrong-prefix"
        return bad(kind, dict(detail, diff=diff, before=before if T["cls"] == ATOMIC else None), key=key, tags=tags)
    if T["cls"] == ATOMIC and got != before:
        return bad("impl!=spec:rejected-multi-call-changed-model", dict(detail, before=before, after=got), key=key, tags=tags)
    # the Coq model's verdict for DBN.add_cpds
    if case["target"] == "dbn.add_cpds":
        names = sorted({repr(tuple(n)) for n in G.nodes()} | {repr(v if not hasattr(v, "time_slice") else tuple(v))
                                                               for a in args if hasattr(a, "variables") for v in a.variables})
        nid = {nm: i for i, nm in enumerate(names)}
        sc = lambda c: [nid[repr(tuple(v) if hasattr(v, "time_slice") else v)] for v in c.variables]
        cs = [[i, sc(c)] for i, c in enumerate(stored_before)]
        new = [[len(cs) + j, (sc(a) if hasattr(a, "variables") else [len(names) + 5])] for j, a in enumerate(args)]
        mout, mids = drv.call("c15_dbn_add_cpds", [[nid[repr(tuple(n))] for n in G.nodes()], cs, new])
        ids = {id(c): i for i, c in enumerate(stored_before)}
        ids.update({id(a): len(cs) + j for j, a in enumerate(args)})
        real_ids = [ids.get(id(c), -1) for c in G.cpds]
        if mout != 1 or mids != real_ids:
            return bad("impl!=model:dbn-add-cpds", dict(detail, model=[mout, mids], impl=real_ids), key=key, tags=tags)
    return ok(nontrivial=True, key=key, tags=tags)


# ------------------------------------------------------------------ explicit state names (real objects only)
SCHEMES = [[1, 0], [1, 2, 3], [True, False], ["lo", "hi"], ["a", "b", "c"], [0, 1], [2, 1, 0], ["x1", "x10"]]


def run_snames(case, drv):
    """state names that are not positions (reversed / 1-based ints, booleans, strings, equal across variables):
    copy / remove_node / do keep them attached to the right axes; check_model rejects a child CPD that lists a
    parent's states in another order or with another set"""
    from pgmpy.models import BayesianNetwork
    from pgmpy.factors.discrete import TabularCPD
    rng = random.Random(case["seed"])
    sn = {v: list(rng.choice(SCHEMES)) for v in "ABCD"}
    card = {v: len(sn[v]) for v in sn}
    pa = {"A": [], "B": [], "C": ["A", "B"], "D": ["C"]}
    for v in pa:
        rng.shuffle(pa[v])
    cols = {}

    def mk(v, names=None):
        names = names or sn
        ncol = 1
        for p in pa[v]:
            ncol *= card[p]
        cols[v] = [common.rand_column(rng, card[v], zeros=False) for _ in range(ncol)]
        vals = [[float(c[r]) for c in cols[v]] for r in range(card[v])]
        st = {x: list(names[x]) for x in [v] + pa[v]}
        return TabularCPD(v, card[v], vals, evidence=pa[v] or None, evidence_card=[card[p] for p in pa[v]] or None, state_names=st)

    m = BayesianNetwork([("A", "C"), ("B", "C"), ("C", "D")])
    m.add_cpds(*[mk(v) for v in rng.sample("ABCD", 4)])
    tags = ["snames " + "/".join(type(sn[v][0]).__name__ for v in "ABCD")]
    key = common.canon_key(["snames", case["seed"]])

    def names_ok(model, gone=()):
        for c in model.cpds:
            want = {x: sn[x] for x in c.variables}
            if {k: list(v) for k, v in c.state_names.items()} != want:
                return {"cpd": str(c.variable), "impl": {str(k): list(map(str, v)) for k, v in c.state_names.items()},
                        "expected": {str(k): list(map(str, v)) for k, v in want.items()}}
        return None

    if m.check_model() is not True:
        return bad("impl!=spec:snames-check-model", {"sn": str(sn)}, key=key, tags=tags)
    c = m.copy()
    d = names_ok(c)
    if d:
        return bad("impl!=spec:snames-copy", d, key=key, tags=tags)
    if any(a.state_names is b.state_names for a in m.cpds for b in c.cpds):
        return bad("impl!=spec:snames-copy-shares-dict", {}, key=key, tags=tags)
    if c.check_model() is not True:
        return bad("impl!=spec:snames-copy-check-model", {}, key=key, tags=tags)
    # a parent's states in another order / another set must be rejected by check_model
    for how in ("order", "set"):
        c2 = m.copy()
        p = pa["D"][0]
        alt = dict(sn)
        if how == "order":
            alt[p] = sn[p][1:] + sn[p][:1]
        else:
            alt[p] = ["q%d" % i for i in range(card[p])]
        c2.add_cpds(mk("D", alt))
        try:
            c2.check_model()
            return bad("impl!=spec:snames-mismatch-accepted", {"how": how, "parent": sn[p], "child_lists": alt[p]}, key=key, tags=tags)
        except ValueError:
            pass
    mk("D")     # restore cols["D"] bookkeeping for the checks below (fresh values are irrelevant: D is not touched)
    # remove_node(B): C keeps its own and A's states; the table, addressed BY NAME, is the marginal over B
    old_c = m.get_cpds("C")
    oldcols = [[float(old_c.get_values()[r][j]) for r in range(card["C"])] for j in range(old_c.get_values().shape[1])]
    c3 = m.copy()
    c3.remove_node("B")
    d = names_ok(c3)
    if d:
        return bad("impl!=spec:snames-remove-node", d, key=key, tags=tags)
    newc = c3.get_cpds("C")
    ia, ib = pa["C"].index("A"), pa["C"].index("B")
    for a_i, a_name in enumerate(sn["A"]):
        tot = [Fraction(0)] * card["C"]
        for b_i in range(card["B"]):
            j = (a_i * card["B"] + b_i) if ia < ib else (b_i * card["A"] + a_i)
            for r in range(card["C"]):
                tot[r] += Fraction(oldcols[j][r])
        z = sum(tot)
        for r, c_name in enumerate(sn["C"]):
            got = newc.get_value(**{"C": c_name, "A": a_name})
            if not rel_close(got, tot[r] / z):
                return bad("impl!=spec:snames-remove-node-values", {"C": str(c_name), "A": str(a_name), "impl": float(got),
                                                                     "expected": float(tot[r] / z)}, key=key, tags=tags)
    if c3.check_model() is not True:
        return bad("impl!=spec:snames-remove-node-check-model", {}, key=key, tags=tags)
    # do(C): parent-less CPD over C's own states
    c4 = m.do(["C"])
    d = names_ok(c4)
    if d or list(c4.get_cpds("C").variables) != ["C"]:
        return bad("impl!=spec:snames-do", d or {"variables": list(map(str, c4.get_cpds("C").variables))}, key=key, tags=tags)
    tot = [sum(Fraction(col[r]) for col in oldcols) for r in range(card["C"])]
    z = sum(tot)
    for r, c_name in enumerate(sn["C"]):
        if not rel_close(c4.get_cpds("C").get_value(C=c_name), tot[r] / z):
            return bad("impl!=spec:snames-do-values", {"C": str(c_name)}, key=key, tags=tags)
    if names_ok(m) or m.check_model() is not True:
        return bad("impl!=spec:snames-original-changed", {}, key=key, tags=tags)
    return ok(nontrivial=True, key=key, tags=tags)


def run_case(case, drv):
    k = case["kind"]
    if k == "snames":
        return run_snames(case, drv)
    if k == "multi":
        return run_multi(case, drv)
    if k == "bn":
        return run_bn(case, drv)
    if k == "dbn":
        return run_dbn(case, drv)
    if k == "jt":
        return run_jt(case, drv)
    if k == "dag":
        return run_dag(case, drv)
    return run_ucopy(case, drv)
