"""C10 correspondence: pgmpy structure scores (K2, BDeu, BDs, BIC, AIC), score(), structure priors,
ScoreCache and metrics.structure_score vs the Coq model (coq/C10/Model.v) and the published closed forms
(coq/C10/Spec.v).  The model returns formal sums over lgamma/log atoms with exact rational coefficients and
arguments; this module evaluates them with math.lgamma / math.log and compares with pgmpy's floats."""
import itertools
import math
import random
from fractions import Fraction

from harness import common
from harness.common import ok, bad

PROP = "C10"
LEVEL = "proof"
HASHSEEDS = {"quick": [0, 1], "thorough": [0, 1, 2, 3]}
BUDGET_S = {"quick": 120, "thorough": 1200}
EXHAUSTIVE = {"quick": False, "thorough": False}
RULE = ("random discrete data sets with 1..12 columns, declared cardinalities 1..4, 1..3000 rows drawn from skewed "
        "distributions so that many parent configurations (and, with state_names, some declared states) never "
        "occur.  The model sees state INDICES only; how the data set is presented to pgmpy is varied independently "
        "and may never change a score: column names (letters; one a substring of another; pandas/pgmpy keywords such "
        "as size, index, count, _weight; blanks and punctuation), column order in the frame, row index (RangeIndex, "
        "shifted, permuted, gapped, duplicate labels, string labels), dtypes (int -> float states, float, bool, "
        "object, categorical, ordered categorical), state labels (integers that are not their positions, 1-based, "
        "negative, booleans, strings that are prefixes of each other or look like numbers/keywords, the same labels "
        "in every column), categorical dtypes with UNUSED categories (explicit categories= or a row-filtered bigger "
        "frame: not states unless state_names declare them), state_names as list/tuple, ints or floats, shuffled, "
        "with an extra key.  Streams: (local) for each data frame EVERY (variable, parent subset) pair: the five "
        "local scores vs the model (rel. 1e-9) for ess in {1, 2.5, 5, 10} (10 also as the default argument) and "
        "{0.001, 0.1, 0.3, 64, 1000} on frames with up to 3000 rows, parents as list, tuple, one-shot iterator, generator, set, dict view, ndarray or pandas Index (names "
        "rebuilt as equal-but-not-identical objects), a column with 257..300 states, integer labels beyond 2^24 "
        "and 2^31, under a parent "
        "permutation and a row permutation, again after other calls on the same scorer objects, and the coded "
        "sums vs the closed forms of Spec.v; the caller's frame, state_names and parent list are compared with a "
        "snapshot afterwards; unknown variable / parent and state_names lacking an observed state must raise.  "
        "(total) score(model) incl. structure prior and prior ratios on random DAGs (BayesianNetwork and DAG, "
        "1..17 nodes, edgeless, node subsets; in every graph stream a random subset (none / some / all) of the "
        "MEASURED nodes is marked latent through the constructor, add_node or add_nodes_from: the marking must not "
        "change a score), metrics.structure_score with default and explicit arguments and its "
        "four rejection paths.  (cache) ScoreCache call sequences with eviction (max_size 0, 1..3, 10000, default; "
        "values, hit/miss pattern, LRU order), then ScoreCache.score(model) on a random DAG = the wrapped score's "
        "score(model) = the model's total incl. structure prior, and the cache's prior / prior ratios = the wrapped "
        "score's.  (session) ONE scorer, ONE ScoreCache and ONE graph object through "
        "a sequence of local_score / score calls and graph edits by every mutator (add_edge(s_from), "
        "remove_edge(s_from), remove_node(s_from), add_node(s_from), clear): after each step = the model on the "
        "current graph = a fresh scorer on a fresh graph.  (equiv) BDeu/BIC/AIC equality on pairs of "
        "Markov-equivalent DAGs obtained by covered-arc reversals.  Checklist classes that cannot apply: C (results "
        "are immutable floats), I (no torch path in the scores), H beyond counts ~1e3 and ess 1e-3..1e3 (the inputs "
        "are counts, not probabilities), integer/tuple column names (see ASSUMPTIONS).  Non-trivial: the variable "
        "has >= 2 declared states or >= 1 parent (local), the DAG has >= 1 edge (total/equiv), the call sequence "
        "has a repeat (cache), >= 2 operations (session); distinct = distinct canonical input incl. presentation")
TRUSTED_BASE = ["pandas groupby/unstack/value_counts, numpy sum/log, scipy gammaln, math.lgamma (evaluation of the atoms)",
                "float evaluation of the model's formal sums in this module (math.lgamma/math.log, fsum)"]
ASSUMPTIONS = ["no missing values (NaN) and no weighted counts; column and state names are interned to indices by the harness",
               "column names are strings: pandas reads integer names as level positions in Series.unstack(parents) "
               "(K2Score(df with columns 1,2,0).local_score(1,[2,0]) raises ValueError on the unchanged tree)",
               "floating point is not modelled: agreement is 1e-9 relative on the evaluated formal sums"]

ESS = [1, 2.5, 5, 10]
SCORES = ["k2", "bdeu", "bds", "bic", "aic"]
COLS = ["A", "B", "C", "D", "E", "F", "G", "H", "I", "J", "K", "L"]


# ------------------------------------------------------------------ data generation
def gen_data(rng, ncols, nrows, maxcard=4, declare_p=0.4, allow_unobs_states=True, force_cat=False):
    """-> dict(cards, rows, declared, style): rows hold state indices; column i has cards[i] declared states.
    A column without declared state_names has exactly its observed states (re-indexed)."""
    raw_cards = [min(rng.choice([1, 2, 2, 2, 3, 3, 3, 4, 4]), maxcard) for _ in range(ncols)]
    weights = []
    for c in raw_cards:
        w = [rng.choice([0, 1, 1, 3, 8]) for _ in range(c)]
        if sum(w) == 0:
            w[rng.randrange(c)] = 1
        weights.append(w)
    rows = []
    dep = rng.random() < 0.5  # some dependence between neighbouring columns
    for _ in range(nrows):
        r = []
        for i, c in enumerate(raw_cards):
            if dep and i > 0 and rng.random() < 0.6:
                v = r[i - 1] % c
                if weights[i][v] == 0:
                    v = rng.choices(range(c), weights[i])[0]
            else:
                v = rng.choices(range(c), weights[i])[0]
            r.append(v)
        rows.append(r)
    declared, cards = [], []
    for i, c in enumerate(raw_cards):
        obs = sorted({r[i] for r in rows})
        decl = rng.random() < declare_p
        if decl and not allow_unobs_states and len(obs) < c:
            decl = False
        if not decl:
            m = {v: k for k, v in enumerate(obs)}
            for r in rows:
                r[i] = m[r[i]]
            cards.append(len(obs))
        else:
            cards.append(c)
        declared.append(decl)
    style = ["cat" if force_cat else rng.choice(["int", "cat"]) for _ in range(ncols)]
    # categorical dtype: "tight" = categories are exactly the observed values; "explicit" = the dtype lists
    # extra categories that never occur; "filter" = the frame is a row-filtered view of a bigger frame, so the
    # dtype keeps the categories of the removed rows.  Without state_names, unused categories are NOT states.
    catmode = []
    for i in range(ncols):
        if style[i] != "cat":
            catmode.append("tight")
        elif force_cat:
            catmode.append(rng.choice(["explicit", "filter", "explicit", "filter", "tight"]))
        else:
            catmode.append(rng.choice(["tight", "tight", "explicit", "filter"]))
    return {"cards": cards, "rows": rows, "declared": declared, "style": style, "catmode": catmode,
            "snseed": rng.randint(0, 10**6)}


EXTRA_LABELS = ["a_unused", "s1_unused", "zz_unused"]
CATLIKE = ("cat", "ocat")

NAME_POOLS = {
    "letters": ["A", "B", "C", "D", "E", "F", "G", "H", "I", "J", "K", "L"],
    # one name a prefix / substring of another
    "substr": ["x", "x1", "x10", "x1_", "x2", "xx", "G", "G2", "G20", "1x", "x_1", "x11"],
    # names that mean something to pandas / pgmpy
    "keyword": ["size", "index", "count", "values", "level_0", "variable", "value", "columns", "name", "T",
                "dtype", "_weight"],
    "odd": ["a b", "a", "b", "a b c", "A", "a.b", "a,b", "(a)", "a:b", "a'b", "β", "_"],
}
INDEX_MODES = ["range", "range", "shifted", "permuted", "gapped", "dup", "str"]


def gen_wide(rng):
    """three columns, the first with 257..300 states that all occur (more than 256 states / int8 category codes)"""
    K = rng.choice([257, 260, 300])
    c1, c2 = rng.choice([2, 3]), rng.choice([1, 2, 3])
    rows = [[k, rng.randrange(c1), rng.randrange(c2)] for k in range(K)]
    rows += [[rng.randrange(K), rng.randrange(c1), rng.randrange(c2)] for _ in range(rng.choice([0, 40, 150]))]
    for t in range(c1):
        rows[t][1] = t
    for t in range(c2):
        rows[t][2] = t
    rng.shuffle(rows)
    st0 = rng.choice(["int", "cat"])
    lab0 = [3 * k + 1 for k in range(K)] if st0 == "int" else ["w%03d" % k for k in range(K)]
    st1, lab1 = gen_labels(rng, rng.choice(["int", "cat"]), c1)
    st2, lab2 = gen_labels(rng, rng.choice(["int", "cat"]), c2)
    return {"cards": [K, c1, c2], "rows": rows, "declared": [False, False, False], "style": [st0, st1, st2],
            "catmode": ["tight"] * 3, "snseed": rng.randint(0, 10**6), "labels": [lab0, lab1, lab2],
            "names": ["wide", "p", "q"], "namepool": "letters", "index": rng.choice(INDEX_MODES),
            "colorder": [0, 1, 2], "snform": "asis"}


def gen_labels(rng, style, c):
    """an injective labelling state index -> value of the column (the scores are symmetric in the states, so the
    model never needs the labels): integers that are not their positions, floats, booleans, strings of which one
    is a prefix of another or that look like numbers / keywords, the same strings in every column"""
    if style == "bool" and c > 2:
        style = "int"
    if style == "int":
        return style, rng.choice([list(range(c)), list(range(1, c + 1)), list(range(c - 1, -1, -1)),
                                  [10 * k + 3 for k in range(c)], [-k for k in range(c)], [7, 3, 5, 1][:c],
                                  [10**6 + k for k in range(c)], [2**24 + 1 + k for k in range(c)],
                                  [2**31 + 3 * k for k in range(c)]])
    if style == "float":
        return style, rng.choice([[k + 0.5 for k in range(c)], [-1.25, 0.0, 2.5, 0.001][:c],
                                  [1e6 + 0.25 * k for k in range(c)]])
    if style == "bool":
        return style, rng.choice([[False, True][:c], [True, False][:c]])
    return style, rng.choice([["s%d" % k for k in range(c)], ["x", "x1", "x10", "x1_"][:c], ["1", "10", "2", "01"][:c],
                              ["a", "b", "c", "d"][:c], ["True", "False", "None", "nan"][:c], ["b", "a", "B", " a"][:c]])


def present(rng, data, plain=False):
    """how the index-level data set is shown to pgmpy: column names, column order in the frame, row index, state
    labels and dtypes, the form of the state_names argument.  None of it may change a score."""
    n = len(data["cards"])
    if plain:
        return data
    pool = rng.choice(["letters", "letters", "substr", "keyword", "odd"])
    names = list(NAME_POOLS[pool])
    names += ["%s%d" % (names[t % 12], t) for t in range(12, n)]
    rng.shuffle(names)
    data["names"] = names[:n]
    data["namepool"] = pool
    order = list(range(n))
    if rng.random() < 0.6:
        rng.shuffle(order)
    data["colorder"] = order
    data["index"] = rng.choice(INDEX_MODES)
    labels = []
    for i in range(n):
        st = data["style"][i]
        if st == "int":
            st = rng.choice(["int", "int", "float", "bool"])
        elif st == "cat" and data["catmode"][i] == "tight":
            st = rng.choice(["cat", "cat", "ocat", "obj"])
        elif st == "cat":
            st = rng.choice(["cat", "cat", "ocat"])
        st, lab = gen_labels(rng, st, data["cards"][i])
        data["style"][i] = st
        labels.append(lab)
    data["labels"] = labels
    data["snform"] = rng.choice(["asis", "asis", "int", "extra-key", "tuple"])
    return data


def colnames(data):
    n = len(data["cards"])
    return data.get("names") or (COLS + ["V%d" % t for t in range(12, n)])[:n]


def col_labels(data, i):
    if "labels" in data:
        return data["labels"][i]
    return [float(k) if data["style"][i] == "int" else "s%d" % k for k in range(data["cards"][i])]


def unused_labels(data, i, vals):
    """labels of column i that are categories of the dtype but never occur: for a column with declared
    state_names only declared-but-unobserved states (the dtype must stay within state_names), otherwise
    fresh labels sorting before / between / after the observed ones"""
    lab = col_labels(data, i)
    if data["declared"][i]:
        return [lab[k] for k in range(data["cards"][i]) if k not in set(vals)]
    k = 1 + (data["snseed"] + i) % 3
    ex = EXTRA_LABELS[:k] if (data["snseed"] + i) % 2 else EXTRA_LABELS[3 - k:]
    return [e for e in ex if e not in lab]


def build_df(data, rows=None):
    """-> (DataFrame, state_names or None, column names by model index)"""
    import pandas as pd
    rows = data["rows"] if rows is None else rows
    n = len(data["cards"])
    cn = colnames(data)
    catmode = data.get("catmode", ["tight"] * n)
    extra = {i: unused_labels(data, i, [r[i] for r in rows]) for i in range(n)
             if data["style"][i] in CATLIKE and catmode[i] != "tight"}
    extra = {i: e for i, e in extra.items() if e}
    filt = [i for i in extra if catmode[i] == "filter"]
    njunk = max([len(extra[i]) for i in filt], default=0)
    cols = {}
    for i in range(n):
        lab = col_labels(data, i)
        vals = [lab[r[i]] for r in rows]
        st = data["style"][i]
        if st not in CATLIKE:
            allv = vals + [vals[0]] * njunk
            if st == "obj":
                cols[cn[i]] = pd.Series(allv, dtype=object)
            elif st == "int" and "labels" not in data:
                cols[cn[i]] = [int(v) for v in allv]
            else:
                cols[cn[i]] = allv
            continue
        cats = sorted(set(vals))
        if i in filt:
            # the removed rows carry the extra labels
            junk = [extra[i][t % len(extra[i])] for t in range(njunk)]
            allv, cats = vals + junk, sorted(set(cats + junk))
        else:
            allv = vals + [vals[0]] * njunk
            if i in extra:
                cats = sorted(set(cats + extra[i]))
        if st == "ocat":
            random.Random(data["snseed"] + i).shuffle(cats)
        cols[cn[i]] = pd.Categorical(allv, categories=cats, ordered=(st == "ocat"))
    order = data.get("colorder", list(range(n)))
    df = pd.DataFrame(cols, columns=[cn[i] for i in order])
    nr = len(rows) + njunk
    mode = data.get("index", "range")
    irng = random.Random(data["snseed"] + 17)
    if mode == "shifted":
        df.index = range(5, 5 + nr)
    elif mode == "permuted":
        idx = list(range(nr))
        irng.shuffle(idx)
        df.index = idx
    elif mode == "gapped":
        df.index = [3 * t + (t % 2) for t in range(nr)]
    elif mode == "dup":
        df.index = [t // 3 for t in range(nr)]
    elif mode == "str":
        df.index = ["r%d" % (t % 7) for t in range(nr)]
    if njunk:
        df = df[[True] * len(rows) + [False] * njunk]
        if mode == "range":
            df = df.reset_index(drop=True)
    sn = {}
    rng = random.Random(data["snseed"])
    form = data.get("snform", "asis")
    for i in range(n):
        if data["declared"][i]:
            labels = list(col_labels(data, i))
            rng.shuffle(labels)
            if form == "int" and data["style"][i] == "int":
                labels = [int(v) for v in labels]
            elif "labels" in data and data["style"][i] == "int" and form != "int":
                labels = [float(v) for v in labels]
            if form == "tuple":
                labels = tuple(labels)
            sn[cn[i]] = labels
    if sn and form == "extra-key":
        sn["__not_a_column__"] = ["u", "v"]
    return df, (sn if sn else None), cn


def frame_sig(df, sn):
    """everything observable about the caller's frame and state_names (argument purity)"""
    import pandas as pd
    cats = [(str(df[c].dtype), list(df[c].cat.categories) if isinstance(df[c].dtype, pd.CategoricalDtype) else None)
            for c in df.columns]
    return repr((list(df.columns), list(df.index), cats, df.astype(object).values.tolist(),
                 sorted((repr(k), repr(v)) for k, v in (sn or {}).items())))


def scorers(df, sn, ess, ess_default=False):
    from pgmpy.estimators import K2Score, BDeuScore, BDsScore, BicScore, AICScore
    kw = {"state_names": sn} if sn else {}
    ekw = {} if (ess_default and ess == 10) else {"equivalent_sample_size": ess}
    return {"k2": K2Score(df, **kw), "bdeu": BDeuScore(df, **ekw, **kw),
            "bds": BDsScore(df, **ekw, **kw), "bic": BicScore(df, **kw),
            "aic": AICScore(df, **kw)}


# ------------------------------------------------------------------ formal sums
def ev(fs):
    """evaluate a normalised formal sum [[coef(num den), kind, arg(num den)], ...]"""
    terms = []
    for c, k, x in fs:
        c = Fraction(c[0], c[1])
        x = Fraction(x[0], x[1])
        if k == 0:
            if x <= 0:
                return float("nan")
            terms.append(float(c) * math.lgamma(float(x)))
        elif k == 1:
            if x <= 0:
                return float("nan")
            terms.append(float(c) * math.log(float(x)))
        else:
            terms.append(float(c))
    return math.fsum(terms)


def canon_fs(fs):
    return [tuple(map(tuple_or, t)) for t in fs]


def tuple_or(v):
    return tuple(v) if isinstance(v, list) else v


def close(a, b, tol=1e-9):
    return common.approx(a, b, tol)


# ------------------------------------------------------------------ cases
def local_opts(rng):
    return {"ess_default": rng.random() < 0.5, "tuple_parents": rng.random() < 0.15, "recall": rng.random() < 0.3,
            "parents_as": rng.choice(["list", "list", "list", "iter", "gen", "set", "keys", "ndarray", "index"]),
            "reject": rng.random() < 0.15}


def cases(tier, seed):
    rng = random.Random(seed)
    out = []
    quick = tier == "quick"
    # local scores: every (variable, parent subset) of each data frame
    nframes = 10 if quick else 150
    for f in range(nframes):
        ncols = rng.choice([2, 3, 4, 4, 5, 5]) if not quick else rng.choice([2, 3, 4, 4, 5])
        nrows = rng.choice([1, 2, 3, 5, 8, 12, 20, 40])
        data = present(rng, gen_data(rng, ncols, nrows), plain=(f % 4 == 0))
        ess = ESS[f % len(ESS)]
        for x in range(ncols):
            others = [v for v in range(ncols) if v != x]
            for r in range(len(others) + 1):
                for ps in itertools.combinations(others, r):
                    ps = list(ps)
                    rng.shuffle(ps)
                    out.append({"kind": "local", "data": data, "x": x, "ps": ps, "ess": ess,
                                "pseed": rng.randint(0, 10**6), "opts": local_opts(rng)})
    # targeted: r >= 3 with unobserved configurations, unobserved declared child states
    for f in range(20 if quick else 200):
        ncols = rng.choice([2, 3, 4])
        data = present(rng, gen_data(rng, ncols, rng.choice([1, 2, 3, 4, 6]), declare_p=rng.choice([0.0, 0.5, 1.0])))
        x = rng.randrange(ncols)
        others = [v for v in range(ncols) if v != x]
        ps = rng.sample(others, rng.randint(1, len(others)))
        out.append({"kind": "local", "data": data, "x": x, "ps": ps, "ess": rng.choice(ESS),
                    "pseed": rng.randint(0, 10**6), "opts": local_opts(rng)})
    # categorical dtype with unused categories (explicit categories= and row-filtered frames), with and without
    # state_names: without them only the observed values are states, with them every declared state counts
    for f in range(40 if quick else 400):
        ncols = rng.choice([2, 3, 3, 4])
        data = gen_data(rng, ncols, rng.choice([2, 3, 5, 8, 15]), declare_p=rng.choice([0.0, 0.0, 0.5, 1.0]),
                        force_cat=True)
        data = present(rng, data, plain=(f % 3 == 0))
        x = rng.randrange(ncols)
        others = [v for v in range(ncols) if v != x]
        ps = rng.sample(others, rng.randint(0, len(others)))
        out.append({"kind": "local", "data": data, "x": x, "ps": ps, "ess": rng.choice(ESS),
                    "pseed": rng.randint(0, 10**6), "opts": local_opts(rng)})
    # degenerate sizes: a single column; magnitudes: thousands of rows (counts ~1e3), extreme equivalent sample sizes
    for f in range(6 if quick else 40):
        data = present(rng, gen_data(rng, 1, rng.choice([1, 2, 7])))
        out.append({"kind": "local", "data": data, "x": 0, "ps": [], "ess": rng.choice(ESS),
                    "pseed": rng.randint(0, 10**6), "opts": local_opts(rng)})
        out.append({"kind": "total", "data": data, "nodes": [0], "edges": [], "ess": rng.choice(ESS),
                    "cls": rng.choice(["bn", "dag"]), "opts": {"reject": True}})
    for f in range(8 if quick else 60):
        ncols = rng.choice([3, 4])
        data = present(rng, gen_data(rng, ncols, rng.choice([300, 1000, 3000]) if f % 2 else rng.choice([5, 20])))
        x = rng.randrange(ncols)
        others = [v for v in range(ncols) if v != x]
        ps = rng.sample(others, rng.randint(1, len(others)))
        o = local_opts(rng)
        o["big"] = True
        out.append({"kind": "local", "data": data, "x": x, "ps": ps, "ess": rng.choice([0.001, 0.1, 0.3, 64, 1000]),
                    "pseed": rng.randint(0, 10**6), "opts": o})
    # more than 256 states in one column (as child, as parent, in a network)
    for f in range(2 if quick else 20):
        data = gen_wide(rng)
        x, ps = rng.choice([(0, [1]), (1, [0]), (1, [0, 2]), (0, []), (2, [1, 0])])
        o = local_opts(rng)
        o["big"] = True
        o["reject"] = False
        out.append({"kind": "local", "data": data, "x": x, "ps": ps, "ess": rng.choice(ESS),
                    "pseed": rng.randint(0, 10**6), "opts": o})
        if f % 3 == 0:
            out.append({"kind": "total", "data": data, "nodes": [0, 1, 2], "edges": rng.choice([[[0, 1], [1, 2]], [[1, 0], [2, 0]]]),
                        "ess": rng.choice(ESS), "cls": rng.choice(["bn", "dag"]), "latents": rand_latents(rng, [0, 1, 2]),
                        "opts": {}})
    # score(model), priors, structure_score wrapper; every 5th frame has 9..17 columns
    for f in range(40 if quick else 400):
        ncols = rng.choice([2, 3, 4, 5, 6])
        big = f % 5 == 4
        if big:
            ncols = rng.choice([9, 10, 12, 17])
        data = present(rng, gen_data(rng, ncols, rng.choice([2, 4, 8, 16, 30]), maxcard=3 if big else 4))
        nodes, edges = common.rand_dag(rng, ncols, p=(rng.choice([0.1, 0.2, 0.3]) if big else None))
        if rng.random() < 0.25 and ncols > 2:
            drop = rng.choice(nodes)
            nodes = [v for v in nodes if v != drop]
            edges = [e for e in edges if drop not in e]
        if rng.random() < 0.1:
            edges = []
        out.append({"kind": "total", "data": data, "nodes": nodes, "edges": [list(e) for e in edges],
                    "ess": rng.choice(ESS), "cls": rng.choice(["bn", "dag"]), "latents": rand_latents(rng, nodes),
                    "opts": {"ess_default": rng.random() < 0.5, "method_default": rng.random() < 0.5,
                             "reject": rng.random() < 0.3}})
    # ScoreCache
    for f in range(40 if quick else 400):
        ncols = rng.choice([3, 4, 5])
        data = present(rng, gen_data(rng, ncols, rng.choice([3, 6, 12, 25])))
        keys = []
        for _ in range(rng.randint(2, 5)):
            x = rng.randrange(ncols)
            others = [v for v in range(ncols) if v != x]
            keys.append([x, rng.sample(others, rng.randint(0, min(3, len(others))))])
        calls = []
        for _ in range(rng.randint(4, 14)):
            k = rng.choice(keys)
            ps = list(k[1])
            if rng.random() < 0.3:
                rng.shuffle(ps)  # same parent set in another order: a different key
            calls.append([k[0], ps])
        cnodes, cedges = common.rand_dag(rng, ncols, p=rng.choice([0.3, 0.6]))
        out.append({"kind": "cache", "data": data, "score": rng.choice([0, 1, 2, 2, 3, 4]), "ess": rng.choice(ESS),
                    "nodes": cnodes, "edges": [list(e) for e in cedges], "latents": rand_latents(rng, cnodes),
                    "max_size": rng.choice([0, 1, 1, 2, 2, 3, 10000, None]) if f % 8 == 0 else rng.choice([1, 2, 2, 3]),
                    "calls": calls})
    # sessions on one scorer / one cache / one graph object with edits through every mutator
    for f in range(30 if quick else 300):
        ncols = rng.choice([3, 4, 5, 6])
        data = present(rng, gen_data(rng, ncols, rng.choice([3, 6, 12, 25])))
        nodes, edges, ops = gen_session(rng, ncols)
        out.append({"kind": "session", "data": data, "score": rng.choice([0, 1, 2, 2, 3, 4]), "ess": rng.choice(ESS),
                    "cls": rng.choice(["bn", "dag"]), "max_size": rng.choice([1, 2, 3, 50]),
                    "nodes": nodes, "edges": edges, "ops": ops, "latents": rand_latents(rng, nodes)})
    # Markov-equivalent pairs by covered-arc reversals
    for f in range(40 if quick else 400):
        ncols = rng.choice([2, 3, 4, 5])
        data = present(rng, gen_data(rng, ncols, rng.choice([3, 6, 12, 25]), allow_unobs_states=(f % 2 == 0)))
        nodes, edges = common.rand_dag(rng, ncols, p=rng.choice([0.5, 0.7, 0.9]))
        out.append({"kind": "equiv", "data": data, "nodes": nodes, "edges": [list(e) for e in edges],
                    "ess": rng.choice(ESS), "rseed": rng.randint(0, 10**6), "latents": rand_latents(rng, nodes)})
    return out


def shrink(case):
    data = case["data"]
    rows = data["rows"]
    if len(rows) > 1:
        for i in range(len(rows)):
            d = dict(data)
            d["rows"] = rows[:i] + rows[i + 1:]
            # dropping a row must not change an undeclared column's observed state set
            okc = True
            for c in range(len(data["cards"])):
                if not data["declared"][c] and {r[c] for r in d["rows"]} != {r[c] for r in rows}:
                    okc = False
            if okc:
                c2 = dict(case)
                c2["data"] = d
                yield c2
    if case["kind"] == "local" and case["ps"]:
        for i in range(len(case["ps"])):
            c2 = dict(case)
            c2["ps"] = case["ps"][:i] + case["ps"][i + 1:]
            yield c2
    if case["kind"] == "cache" and len(case["calls"]) > 1:
        for i in range(len(case["calls"])):
            c2 = dict(case)
            c2["calls"] = case["calls"][:i] + case["calls"][i + 1:]
            yield c2
    if case["kind"] == "session" and len(case["ops"]) > 1:
        for i in range(len(case["ops"]) - 1, -1, -1):
            if case["ops"][i][0] in ("local", "add_node", "add_nodes_from") or i == len(case["ops"]) - 1:
                c2 = dict(case)
                c2["ops"] = case["ops"][:i] + case["ops"][i + 1:]
                yield c2
    if case["kind"] in ("total", "equiv"):
        for i in range(len(case["edges"])):
            c2 = dict(case)
            c2["edges"] = case["edges"][:i] + case["edges"][i + 1:]
            yield c2


# ------------------------------------------------------------------ local scores
def cat_tags(data, df, cn, cols):
    """labels for categorical columns whose dtype carries categories that never occur"""
    out = set()
    for i in cols:
        c = df[cn[i]]
        if data["style"][i] in CATLIKE and len(c.cat.categories) > c.nunique():
            out.add("unused-categories:%s:%s" % (data.get("catmode", ["tight"] * len(data["cards"]))[i],
                                                  "state_names" if data["declared"][i] else "no-state_names"))
    return sorted(out)


def pres_tags(data, cols):
    out = {"index=" + data.get("index", "range"), "names=" + data.get("namepool", "letters"),
           "state_names-form=" + data.get("snform", "asis")}
    for i in cols:
        out.add("dtype=" + data["style"][i])
    if data.get("colorder") and data["colorder"] != sorted(data["colorder"]):
        out.add("columns-permuted")
    return sorted(out)


def data_stats(data, x, ps):
    rows = data["rows"]
    cards = data["cards"]
    q = 1
    for p in ps:
        q *= cards[p]
    qobs = len({tuple(r[p] for p in ps) for r in rows})
    robs = len({r[x] for r in rows})
    return q, qobs, cards[x], robs


def model_local(drv, data, rows, x, ps, ess):
    coded, spec = drv.call("c10_local", [data["cards"], rows, x, ps, Fraction(ess)])
    return coded, spec


def must_raise(fn, excs):
    try:
        fn()
    except excs:
        return True
    return False


def run_local(case, drv):
    data, x, ps, ess = case["data"], case["x"], case["ps"], case["ess"]
    opts = case.get("opts", {})
    df, sn, cn = build_df(data)
    sig0 = frame_sig(df, sn)
    sc = scorers(df, sn, ess, opts.get("ess_default", False))
    names = [cn[p] for p in ps]
    pform = "tuple" if opts.get("tuple_parents") else opts.get("parents_as", "list")
    arg = tuple(names) if pform == "tuple" else list(names)

    def parents_arg():
        """the parents in every documented 'list-like' form; one-shot iterators are rebuilt for every call"""
        import numpy as np
        import pandas as pd
        fn = [fresh_name(nm) for nm in names]
        if pform == "iter":
            return iter(fn)
        if pform == "gen":
            return (nm for nm in fn)
        if pform == "set":
            return set(fn)
        if pform == "keys":
            return dict.fromkeys(fn).keys()
        if pform == "ndarray":
            return np.array(fn, dtype=object)
        if pform == "index":
            return pd.Index(fn)
        return arg
    impl = {}
    for k in SCORES:
        impl[k] = float(sc[k].local_score(fresh_name(cn[x]), parents_arg()))   # list/tuple: the SAME object for all five
    coded, spec = model_local(drv, data, data["rows"], x, ps, ess)
    q, qobs, r, robs = data_stats(data, x, ps)
    tags = ["local", "parents=%d" % len(ps), "ess=%s" % ess, "r=%d" % r,
            "unobserved-configs" if qobs < q else "all-configs-observed",
            "unobserved-child-states" if robs < r else "all-child-states-observed",
            "rows=%d" % len(data["rows"])]
    if r >= 3 and qobs < q:
        tags.append("r>=3&unobserved-config")
    tags += cat_tags(data, df, cn, [x] + ps) + pres_tags(data, [x] + ps)
    if opts.get("ess_default") and ess == 10:
        tags.append("ess-default-argument")
    tags.append("parents-as-" + pform)
    key = common.canon_key(["local", data["cards"], sorted(map(tuple, data["rows"])), x, sorted(ps), ess,
                            data["declared"], data.get("names"), data.get("labels"), data.get("index")])
    if list(arg) != names or frame_sig(df, sn) != sig0:
        return bad("impl:argument-mutated", {"parents_after": list(arg), "parents_before": names,
                                             "frame_or_state_names_changed": frame_sig(df, sn) != sig0},
                   key=key, tags=tags)
    for i, k in enumerate(SCORES):
        m = ev(coded[i])
        if not close(impl[k], m):
            return bad("impl!=model:local_score:" + k,
                       {"x": x, "ps": ps, "ess": ess, "impl": impl[k], "model": m, "q": q, "q_obs": qobs,
                        "r": r, "r_obs": robs}, key=key, tags=tags)
    # parent order: pgmpy value unchanged; the model's normalised sum is identical
    rng = random.Random(case["pseed"])
    if len(ps) >= 2:
        perm = list(ps)
        while perm == ps:
            rng.shuffle(perm)
        pimpl = {k: float(sc[k].local_score(cn[x], [cn[p] for p in perm])) for k in SCORES}
        pcoded, _ = model_local(drv, data, data["rows"], x, perm, ess)
        for i, k in enumerate(SCORES):
            if not close(pimpl[k], impl[k]):
                return bad("impl:parent-order:" + k, {"x": x, "ps": ps, "perm": perm, "a": impl[k], "b": pimpl[k]},
                           key=key, tags=tags)
            if pcoded[i] != coded[i]:
                return bad("model:parent-order:" + k, {"x": x, "ps": ps, "perm": perm}, key=key, tags=tags)
        tags.append("parent-permutation")
    # row order
    if len(data["rows"]) >= 2 and not opts.get("big"):
        rows2 = list(data["rows"])
        rng.shuffle(rows2)
        df2, sn2, _ = build_df(data, rows2)
        sc2 = scorers(df2, sn2, ess)
        rcoded, _ = model_local(drv, data, rows2, x, ps, ess)
        for i, k in enumerate(SCORES):
            v = float(sc2[k].local_score(cn[x], list(names)))
            if not close(v, impl[k]):
                return bad("impl:row-order:" + k, {"x": x, "ps": ps, "a": impl[k], "b": v}, key=key, tags=tags)
            if rcoded[i] != coded[i]:
                return bad("model:row-order:" + k, {"x": x, "ps": ps}, key=key, tags=tags)
        tags.append("row-permutation")
    # a second call on the same scorer objects after other calls gives the same number (no state between calls)
    if opts.get("recall"):
        others = [v for v in range(len(cn)) if v != x]
        for k in SCORES:
            sc[k].local_score(cn[x], [cn[v] for v in others[:1]])
            sc[k].local_score(cn[others[0]] if others else cn[x], [])
            v = float(sc[k].local_score(cn[x], list(names)))
            if not close(v, impl[k], 1e-12):
                return bad("impl:local_score-depends-on-earlier-calls:" + k, {"first": impl[k], "again": v},
                           key=key, tags=tags)
        tags.append("re-call-after-other-calls")
    # calls that must be rejected
    if opts.get("reject"):
        from pgmpy.estimators import K2Score, BDeuScore
        if not must_raise(lambda: sc["k2"].local_score("__no_such_column__", []), (KeyError, ValueError)):
            return bad("impl:unknown-variable-accepted", {}, key=key, tags=tags)
        if not must_raise(lambda: sc["bic"].local_score(cn[x], ["__no_such_column__"]), (KeyError, ValueError)):
            return bad("impl:unknown-parent-accepted", {}, key=key, tags=tags)
        lab = col_labels(data, x)
        seen = sorted({rw[x] for rw in data["rows"]})
        short = [lab[k] for k in range(data["cards"][x]) if k != seen[0]]
        for cls in (K2Score, BDeuScore):
            if not must_raise(lambda: cls(df, state_names={cn[x]: short}), ValueError):
                return bad("impl:state_names-missing-an-observed-state-accepted", {"state_names": short},
                           key=key, tags=tags)
        tags.append("rejections")
    # closed forms (property statement): coded sum vs published definition
    finding = None
    for i, k in enumerate(SCORES):
        c, s = ev(coded[i]), ev(spec[i])
        if close(impl[k], s) and close(c, s):
            continue
        detail = {"score": k, "x": x, "ps": ps, "ess": ess, "impl": impl[k], "closed_form": s, "q": q,
                  "q_obs": qobs, "r": r, "r_obs": robs, "cards": data["cards"], "rows": data["rows"][:60]}
        # the only diagnosed class: BDsScore, some parent configuration unobserved, pgmpy == as-coded model
        # (checked above) but != Scutari's definition.  Everything else is an unlisted violation.
        if k == "bds" and qobs < q and close(impl[k], c) and not close(c, s):
            finding = ("bds-unobserved-configs", detail)
        else:
            return bad("impl!=spec:closed-form:" + k, detail, key=key, tags=tags)
    if finding:
        return bad("impl!=spec:" + finding[0], finding[1], finding=finding[0], key=key,
                   tags=tags + ["finding:" + finding[0]])
    return ok(nontrivial=(r >= 2 or len(ps) >= 1), key=key, tags=tags)


# ------------------------------------------------------------------ score(model), priors, structure_score
def fresh_name(nm):
    """an equal but not identical object (names handed to pgmpy are rebuilt at run time)"""
    return (nm + "_")[:-1] if isinstance(nm, str) else nm


def build_graph(case, cls, cn):
    """nodes / edges / latents of the case as a DAG or BayesianNetwork.  A non-empty latents set marks MEASURED
    variables as latent (constructor argument, add_node(latent=True) or add_nodes_from(latent=True)): scoring
    is about the columns of the data, the marking must not change any score."""
    from pgmpy.base import DAG
    from pgmpy.models import BayesianNetwork
    klass = BayesianNetwork if cls == "bn" else DAG
    lat = [v for v in case.get("latents", []) if v in case["nodes"]]
    route = (len(case["edges"]) + len(lat)) % 3
    if lat and route == 0 and case["edges"]:
        # latent nodes must be known when declared through the constructor: use the arcs as ebunch
        incident = {v for e in case["edges"] for v in e}
        g = klass([(fresh_name(cn[u]), fresh_name(cn[v])) for u, v in case["edges"]],
                  latents={fresh_name(cn[v]) for v in lat if v in incident})
        for v in case["nodes"]:
            if v not in incident:
                g.add_node(fresh_name(cn[v]), latent=(v in lat))
        return g
    g = klass()
    if lat and route == 1:
        g.add_nodes_from([fresh_name(cn[v]) for v in case["nodes"] if v not in lat])
        g.add_nodes_from([fresh_name(cn[v]) for v in lat], latent=True)
    else:
        for v in case["nodes"]:
            g.add_node(fresh_name(cn[v]), latent=(v in lat))
    g.add_edges_from([(fresh_name(cn[u]), fresh_name(cn[v])) for u, v in case["edges"]])
    return g


def lat_tags(case):
    lat = [v for v in case.get("latents", []) if v in case["nodes"]]
    if not lat:
        return ["latents=none"]
    return ["latents=all" if len(lat) == len(case["nodes"]) else "latents=some"]


def rand_latents(rng, nodes):
    r = rng.random()
    if r < 0.45 or not nodes:
        return []
    if r < 0.55:
        return list(nodes)
    return rng.sample(list(nodes), rng.randint(1, len(nodes)))


def graph_sig(g):
    return (list(g.nodes()), list(g.edges()))


def run_total(case, drv):
    from pgmpy.metrics import structure_score
    data, ess = case["data"], case["ess"]
    opts = case.get("opts", {})
    df, sn, cn = build_df(data)
    sig0 = frame_sig(df, sn)
    sc = scorers(df, sn, ess, opts.get("ess_default", False))
    g = build_graph(case, case["cls"], cn)
    gs0 = graph_sig(g)
    same, totals = drv.call("c10_total", [data["cards"], data["rows"], case["nodes"], case["edges"], Fraction(ess)])
    tags = ["total", "nodes=%d" % len(case["nodes"]), "edges=%d" % len(case["edges"]), "graph=" + case["cls"],
            "node-set=columns" if same else "node-subset"] + pres_tags(data, case["nodes"]) + lat_tags(case)
    key = common.canon_key(["total", data["cards"], sorted(map(tuple, data["rows"])), sorted(case["nodes"]),
                            sorted(map(tuple, case["edges"])), ess, data["declared"], data.get("names"),
                            data.get("labels"), data.get("index")])
    for i, k in enumerate(SCORES):
        v = float(sc[k].score(g))
        m = ev(totals[i])
        if not close(v, m):
            return bad("impl!=model:score:" + k, {"impl": v, "model": m, "nodes": case["nodes"], "edges": case["edges"]},
                       key=key, tags=tags)
        # decomposition: score = sum of local scores + prior
        parts = sum(float(sc[k].local_score(n, list(g.predecessors(n)))) for n in g.nodes())
        if not close(v, parts + float(sc[k].structure_prior(g))):
            return bad("impl:not-decomposable:" + k, {"score": v, "sum_local_plus_prior": parts}, key=key, tags=tags)
        for op, code in (("+", 0), ("-", 1), ("flip", 2)):
            mr = ev(drv.call("c10_ratio", [i, code]))
            if not close(float(sc[k].structure_prior_ratio(op)), mr):
                return bad("impl!=model:prior-ratio:" + k, {"op": op}, key=key, tags=tags)
    # metrics.structure_score
    for i, k in enumerate(["k2", "bdeu", "bds", "bic"]):
        kw = {}
        if sn:
            kw["state_names"] = sn
        if k in ("bdeu", "bds") and not (opts.get("ess_default") and ess == 10):
            kw["equivalent_sample_size"] = ess
        if not (k == "bic" and opts.get("method_default")):
            kw["scoring_method"] = k
        try:
            v = float(structure_score(g, df, **kw))
            err = None
        except ValueError:
            v, err = None, "value"
        if same:
            if err or not close(v, ev(totals[i])):
                return bad("impl!=model:structure_score:" + k, {"impl": v, "err": err, "model": ev(totals[i])},
                           key=key, tags=tags)
        elif err != "value":
            return bad("impl!=model:structure_score-accepts-missing-columns", {"impl": v}, key=key, tags=tags)
    if opts.get("reject"):
        for what, fn in (("unsupported-method", lambda: structure_score(g, df, scoring_method="aic")),
                         ("unsupported-method", lambda: structure_score(g, df, scoring_method="BIC")),
                         ("data-not-a-frame", lambda: structure_score(g, df.values, scoring_method="bic")),
                         ("model-not-a-dag", lambda: structure_score(list(g.edges()), df, scoring_method="bic"))):
            if not must_raise(fn, ValueError):
                return bad("impl:structure_score-accepts-" + what, {}, key=key, tags=tags)
        tags.append("rejections")
    if frame_sig(df, sn) != sig0 or graph_sig(g) != gs0:
        return bad("impl:argument-mutated", {"frame_or_state_names": frame_sig(df, sn) != sig0,
                                             "graph": graph_sig(g) != gs0}, key=key, tags=tags)
    return ok(nontrivial=len(case["edges"]) >= 1, key=key, tags=tags)


# ------------------------------------------------------------------ ScoreCache
def run_cache(case, drv):
    from pgmpy.estimators import ScoreCache
    data, ess, code, ms = case["data"], case["ess"], case["score"], case["max_size"]
    df, sn, cn = build_df(data)
    name = SCORES[code]
    base = scorers(df, sn, ess)[name]
    fresh = scorers(df, sn, ess)[name]
    counter = [0]
    orig = base.local_score

    def counting(variable, parents):
        counter[0] += 1
        return orig(variable, parents)

    base.local_score = counting
    ckw = {"state_names": sn} if sn else {}
    if ms is not None:
        ckw["max_size"] = ms
    cache = ScoreCache(base, df, **ckw)
    msn = 10000 if ms is None else ms
    tags = ["cache", "max_size=%s" % ("default" if ms is None else ms), "score=" + name,
            "calls=%d" % len(case["calls"])] + pres_tags(data, [])
    key = common.canon_key(["cache", data["cards"], sorted(map(tuple, data["rows"])), code, ess, ms, case["calls"],
                            data["declared"], data.get("names")])
    st, rep = drv.call_e("c10_cache", [data["cards"], data["rows"], code, Fraction(ess), msn, case["calls"]])
    if ms == 0:
        try:
            cache.local_score(cn[case["calls"][0][0]], [cn[p] for p in case["calls"][0][1]])
            return bad("impl!=model:cache-max_size-0-accepted", {}, key=key, tags=tags)
        except TypeError:
            pass
        if (st, rep) != ("err", 3):
            return bad("impl!=model:cache-max_size-0", {"model": [st, rep]}, key=key, tags=tags)
        return ok(nontrivial=False, key=key, tags=tags + ["max_size-0-raises"])
    if st != "ok":
        return bad("impl!=model:cache-model-error", {"code": rep}, key=key, tags=tags)
    outs, final = rep
    hits = 0
    for n, (x, ps) in enumerate(case["calls"]):
        before = counter[0]
        arg = [cn[p] for p in ps]
        v = float(cache.local_score(cn[x], arg))
        if arg != [cn[p] for p in ps]:
            return bad("impl:argument-mutated", {"parents_after": arg}, key=key, tags=tags)
        hit = counter[0] == before
        hits += hit
        u = float(fresh.local_score(cn[x], [cn[p] for p in ps]))
        if not close(v, u, 1e-12):
            return bad("impl:cache-not-transparent", {"call": n, "cached": v, "uncached": u, "calls": case["calls"]},
                       key=key, tags=tags)
        if not close(v, ev(outs[n][0])):
            return bad("impl!=model:cache-value", {"call": n, "impl": v, "model": ev(outs[n][0])}, key=key, tags=tags)
        if bool(outs[n][1]) != hit:
            return bad("impl!=model:cache-hit-pattern", {"call": n, "impl_hit": hit, "model_hit": bool(outs[n][1]),
                                                         "calls": case["calls"], "max_size": ms}, key=key, tags=tags)
    # LRU order, oldest first
    lru = cache.cache
    order = []
    link = lru.head[1]
    while link is not lru.tail:
        order.append([cn.index(link[2][0]), [cn.index(p) for p in link[2][1]]])
        link = link[1]
    if order != final or len(lru.mapping) != len(final) or len(final) > msn:
        return bad("impl!=model:cache-lru-order", {"impl": order, "model": final, "max_size": ms}, key=key, tags=tags)
    # network score through the (now populated) cache, incl. the structure prior and the prior ratios of the wrapped score
    nodes, edges = case.get("nodes"), case.get("edges")
    if nodes is not None:
        g = build_graph(case, "dag" if len(edges) % 2 else "bn", cn)
        _, totals = drv.call("c10_total", [data["cards"], data["rows"], nodes, edges, Fraction(ess)])
        m = ev(totals[code])
        cv, fv = float(cache.score(g)), float(fresh.score(g))
        if not close(cv, m) or not close(cv, fv, 1e-9):
            return bad("impl!=model:cache-score", {"cached": cv, "uncached": fv, "model": m, "nodes": nodes, "edges": edges,
                                                   "score": name}, key=key, tags=tags)
        if not close(float(cache.structure_prior(g)), float(fresh.structure_prior(g)), 1e-12):
            return bad("impl:cache-structure-prior", {"cached": float(cache.structure_prior(g)),
                                                      "uncached": float(fresh.structure_prior(g))}, key=key, tags=tags)
        for op in ("+", "-", "flip"):
            if not close(float(cache.structure_prior_ratio(op)), float(fresh.structure_prior_ratio(op)), 1e-12):
                return bad("impl:cache-structure-prior-ratio", {"op": op}, key=key, tags=tags)
        tags += ["cache-score(model)"] + lat_tags(case)
    evicted = (len(case["calls"]) - hits) > len(final)
    return ok(nontrivial=hits > 0, key=key, tags=tags + (["eviction"] if evicted else []) + (["hit"] if hits else []))


# ------------------------------------------------------------------ sessions: one scorer, one cache, one graph object
def run_session(case, drv):
    """one plain scorer, one ScoreCache (small max_size) and ONE graph object live through a sequence of
    local_score / score calls and graph edits through every mutator; after each step all three agree with the
    model on the CURRENT graph and with a freshly built scorer on a freshly built graph"""
    from pgmpy.estimators import ScoreCache
    data, ess, code = case["data"], case["ess"], case["score"]
    df, sn, cn = build_df(data)
    name = SCORES[code]
    plain = scorers(df, sn, ess)[name]
    cached = ScoreCache(scorers(df, sn, ess)[name], df, max_size=case["max_size"], **({"state_names": sn} if sn else {}))
    g = build_graph(case, case["cls"], cn)
    tags = ["session", "score=" + name, "graph=" + case["cls"], "ops=%d" % len(case["ops"])] + pres_tags(data, []) + lat_tags(case)
    key = common.canon_key(["session", data["cards"], sorted(map(tuple, data["rows"])), code, ess, case["ops"],
                            case["nodes"], case["edges"], data.get("names")])
    idx = {nm: i for i, nm in enumerate(cn)}

    def compare_score(step):
        nodes = [idx[v] for v in g.nodes()]
        edges = [[idx[u], idx[v]] for u, v in g.edges()]
        _, totals = drv.call("c10_total", [data["cards"], data["rows"], nodes, edges, Fraction(ess)])
        m = ev(totals[code])
        f = float(scorers(df, sn, ess)[name].score(build_graph({"nodes": nodes, "edges": edges}, case["cls"], cn)))
        # ScoreCache(score).score(model) == score.score(model) == sum of the cached local scores + the prior
        vals = (("plain", float(plain.score(g))), ("cached", float(cached.score(g))),
                ("cached-locals+prior", float(sum(cached.local_score(n, list(g.predecessors(n))) for n in g.nodes())
                                              + cached.structure_prior(g))))
        for who, v in vals:
            if not close(v, m) or not close(v, f, 1e-9):
                return bad("impl!=model:session-score:" + who, {"step": step, "op": case["ops"][step] if step >= 0 else "init",
                                                                 "impl": v, "model": m, "fresh": f, "nodes": nodes,
                                                                 "edges": edges}, key=key, tags=tags)
        return None

    b = compare_score(-1)
    if b:
        return b
    for step, op in enumerate(case["ops"]):
        kind = op[0]
        tags.append("op=" + kind)
        if kind == "local":
            x, ps = op[1], op[2]
            coded, _ = model_local(drv, data, data["rows"], x, ps, ess)
            m = ev(coded[code])
            for who, obj in (("plain", plain), ("cached", cached)):
                v = float(obj.local_score(cn[x], [cn[p] for p in ps]))
                if not close(v, m):
                    return bad("impl!=model:session-local:" + who, {"step": step, "op": op, "impl": v, "model": m},
                               key=key, tags=tags)
            continue
        if kind == "add_edge":
            g.add_edge(cn[op[1]], cn[op[2]])
        elif kind == "add_edges_from":
            g.add_edges_from([(cn[u], cn[v]) for u, v in op[1]])
        elif kind == "remove_edge":
            g.remove_edge(cn[op[1]], cn[op[2]])
        elif kind == "remove_edges_from":
            g.remove_edges_from([(cn[u], cn[v]) for u, v in op[1]])
        elif kind == "remove_node":
            g.remove_node(cn[op[1]])
        elif kind == "remove_nodes_from":
            g.remove_nodes_from([cn[v] for v in op[1]])
        elif kind == "add_node":
            g.add_node(cn[op[1]], latent=bool(op[2]) if len(op) > 2 else False)
        elif kind == "add_nodes_from":
            g.add_nodes_from([cn[v] for v in op[1]])
        elif kind == "clear":
            g.clear()
        b = compare_score(step)
        if b:
            return b
    return ok(nontrivial=len(case["ops"]) >= 2, key=key, tags=sorted(set(tags)))


def gen_session(rng, ncols):
    """a valid op sequence: edges always go forward in a hidden order, so the graph stays acyclic"""
    order = list(range(ncols))
    rng.shuffle(order)
    pos = {v: i for i, v in enumerate(order)}
    nodes0, edges0 = common.rand_dag(rng, ncols, p=0.4)
    edges0 = [(u, v) if pos[u] < pos[v] else (v, u) for (u, v) in edges0]
    nodes, edges = set(nodes0), set(edges0)
    ops = []

    def fwd():
        u, v = rng.sample(range(ncols), 2)
        return (u, v) if pos[u] < pos[v] else (v, u)

    for _ in range(rng.randint(4, 12)):
        k = rng.choice(["local", "local", "add_edge", "add_edge", "add_edges_from", "remove_edge", "remove_edges_from",
                        "remove_node", "remove_nodes_from", "add_node", "add_nodes_from", "clear"])
        if k == "local":
            x = rng.randrange(ncols)
            others = [v for v in range(ncols) if v != x]
            ops.append(["local", x, rng.sample(others, rng.randint(0, min(3, len(others))))])
        elif k == "add_edge":
            u, v = fwd()
            ops.append(["add_edge", u, v])
            nodes |= {u, v}
            edges.add((u, v))
        elif k == "add_edges_from":
            es = list({fwd() for _ in range(rng.randint(1, 3))})
            ops.append(["add_edges_from", [list(e) for e in es]])
            for u, v in es:
                nodes |= {u, v}
                edges.add((u, v))
        elif k == "remove_edge" and edges:
            e = rng.choice(sorted(edges))
            ops.append(["remove_edge", e[0], e[1]])
            edges.discard(e)
        elif k == "remove_edges_from" and edges:
            es = rng.sample(sorted(edges), rng.randint(1, min(3, len(edges))))
            ops.append(["remove_edges_from", [list(e) for e in es]])
            edges -= set(es)
        elif k == "remove_node" and nodes:
            v = rng.choice(sorted(nodes))
            ops.append(["remove_node", v])
            nodes.discard(v)
            edges = {e for e in edges if v not in e}
        elif k == "remove_nodes_from" and nodes:
            vs = rng.sample(sorted(nodes), rng.randint(1, min(2, len(nodes))))
            ops.append(["remove_nodes_from", vs])
            nodes -= set(vs)
            edges = {e for e in edges if not (set(e) & set(vs))}
        elif k == "add_node":
            v = rng.randrange(ncols)
            ops.append(["add_node", v, rng.random() < 0.4])
            nodes.add(v)
        elif k == "add_nodes_from":
            vs = rng.sample(range(ncols), rng.randint(1, min(3, ncols)))
            ops.append(["add_nodes_from", vs])
            nodes |= set(vs)
        elif k == "clear" and rng.random() < 0.4:
            ops.append(["clear"])
            nodes, edges = set(), set()
    return nodes0, [list(e) for e in edges0], ops


# ------------------------------------------------------------------ score equivalence
def covered_edges(edges, nodes):
    pa = {v: {u for (u, w) in edges if w == v} for v in nodes}
    return [(u, v) for (u, v) in edges if pa[v] == pa[u] | {u}]


def run_equiv(case, drv):
    data, ess = case["data"], case["ess"]
    rng = random.Random(case["rseed"])
    edges = [tuple(e) for e in case["edges"]]
    nodes = case["nodes"]
    edges2 = list(edges)
    nrev = 0
    for _ in range(rng.randint(1, 6)):
        cov = covered_edges(edges2, nodes)
        if not cov:
            break
        e = rng.choice(cov)
        edges2 = [((e[1], e[0]) if f == e else f) for f in edges2]
        nrev += 1
    rng.shuffle(edges2)
    df, sn, cn = build_df(data)
    sc = scorers(df, sn, ess)
    g1 = build_graph(case, "bn", cn)
    c2 = dict(case)
    c2["edges"] = [list(e) for e in edges2]
    g2 = build_graph(c2, "dag", cn)
    _, t1 = drv.call("c10_total", [data["cards"], data["rows"], nodes, case["edges"], Fraction(ess)])
    _, t2 = drv.call("c10_total", [data["cards"], data["rows"], nodes, c2["edges"], Fraction(ess)])
    tags = ["equiv", "reversals=%d" % nrev, "edges=%d" % len(edges)] + pres_tags(data, nodes) + lat_tags(case)
    key = common.canon_key(["equiv", data["cards"], sorted(map(tuple, data["rows"])), sorted(edges), sorted(edges2),
                            ess, data["declared"], data.get("names"), data.get("labels")])
    for i, k in enumerate(SCORES):
        a, b = float(sc[k].score(g1)), float(sc[k].score(g2))
        if not close(a, ev(t1[i])) or not close(b, ev(t2[i])):
            return bad("impl!=model:score:" + k, {"impl": [a, b], "model": [ev(t1[i]), ev(t2[i])]}, key=key, tags=tags)
        if k in ("k2", "bds"):
            continue
        if t1[i] != t2[i]:
            return bad("model:not-score-equivalent:" + k, {"g": case["edges"], "h": c2["edges"]}, key=key, tags=tags)
        if not close(a, b):
            return bad("impl!=spec:not-score-equivalent:" + k,
                       {"score": k, "g": case["edges"], "h": c2["edges"], "score_g": a, "score_h": b,
                        "cards": data["cards"], "rows": data["rows"], "ess": ess}, key=key, tags=tags)
    return ok(nontrivial=nrev >= 1, key=key, tags=tags)


def run_case(case, drv):
    k = case["kind"]
    if k == "local":
        return run_local(case, drv)
    if k == "total":
        return run_total(case, drv)
    if k == "cache":
        return run_cache(case, drv)
    if k == "session":
        return run_session(case, drv)
    return run_equiv(case, drv)
