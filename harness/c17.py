"""C17 correspondence: pgmpy DynamicBayesianNetwork / DBNInference vs (a) pgmpy's own VariableElimination on
an explicitly unrolled BayesianNetwork built here, (b) the extracted Coq model (coq/C17/Model.v: the code's
logic at factor-algebra level) and the extracted brute-force specification (coq/C17/Spec.v)."""
import random
from fractions import Fraction

from harness import common
from harness.common import ok, bad

PROP = "C17"
LEVEL = "proof"
HASHSEEDS = {"quick": [0, 1, 2, 3], "thorough": [0, 1, 2, 3, 4, 5, 6, 7]}
BUDGET_S = {"quick": 150, "thorough": 1500}
EXHAUSTIVE = {"quick": False, "thorough": False}
RULE = ("random 2-TBN templates: 1-3 variables per slice (some with 4-5 binary variables = up to 10 variables in the "
        "1.5-slice tree, some with cardinality-1 variables), cardinalities 2-3, random intra-slice DAG, random "
        "inter-slice edges (persistence and cross edges, one or several interface nodes), intra and inter edges added "
        "interleaved in random order, strictly positive dyadic CPDs (a few with zeros); 1-3 query variables in slices "
        "0..T (T<=4), 0-4 evidence items on interface and non-interface nodes in several slices; forward_inference "
        "(also args=None and args='potential': the interface potentials are compared with the model's), "
        "backward_inference and query (also args='exact'); evidence None or {} when empty; node names str/int (incl. 0)/"
        "substring-and-underscore names (x1, x10, x_0, x1_1)/tuples/mixed unsortable types (incl. '' and 0); optional "
        "string state names; CPDs built from nested lists or from a C-contiguous float64 buffer that is overwritten "
        "afterwards; DBN built nodes-first / edges-only / via the constructor / nodes-last; numpy and (12%) torch "
        "backend; three template classes (every name has an intra edge and inter-edge heads=tails / heads!=tails / a "
        "name without intra edge).  After every query the caller's variables list, evidence dict and the network's CPDs "
        "and edges must be unchanged.  Streams: zero-heavy smoothing (20-60% exact zeros; impossible evidence skipped); "
        "tiny probabilities 2^-20..2^-40 (evidence totals down to ~1e-40) compared RELATIVELY (1e-7) to the exact model "
        "value (below ~1e-300 floats underflow by construction: not generated); rejected calls (query variable observed, "
        "no query variable, add_cpds with a later invalid argument must add nothing, negative time slices, add_edges_from "
        "keeps exactly the edges before the first rejected one); sessions on ONE DBNInference object (3-8 questions, "
        "restated evidence states, repeated questions, returned factors overwritten by the caller in between); "
        "get_constant_bn sessions (independent results, five mutations of the returned network, simulate afterwards); "
        "edit sessions on ONE DynamicBayesianNetwork (use, then remove_cpds by object/by node + add_cpds, add_edge, "
        "networkx remove_edge, then getters / get_constant_bn / a new engine must match a freshly built object); "
        "initialize_initial_state with omitted CPDs, permuted CPD evidence order, cardinality 2-4, state names that are "
        "strings / 1-based / descending integers (equal across variables), completed CPDs must not share memory with "
        "their sources; names and states handed to every call are equal-but-not-identical rebuilt objects (long strings, ints above 256, rebuilt tuples); add_nodes_from / add_edges_from / the constructor receive lists, tuples, generators, iterators, sets and dict views; two-decimal CPDs (column sums 0.99..1.01, valid for check_model, not normalised; oracle = the unpruned product, i.e. the model, because pgmpy's own VE prunes barren nodes and so presumes normalised tables); mid-sized templates (9- and 12-variable chains per slice, a 257-state variable) against pgmpy's VE on the unrolled network only; optional features combine independently at random (buffer construction x build route x container type x backend x empty-dict evidence x potential route x explicit arguments); get_constant_bn with t_slice 0..3 (keyword, positional, default); add_edge normalisation/"
        "mirroring incl. rejected edges, getters with default/explicit/slice-1/slice-3 arguments.  Not applicable to "
        "this property: one-shot iterators / sets for `variables` (documented as a list; a tuple is exercised) and evidence other than a dict; more than 2^24 integer codes; pandas frames (fit/simulate are outside the statement; simulate is only used as an observer of "
        "get_constant_bn), the order of state names across two CPDs (no DBN code looks at it), magnitudes >= 1e16 "
        "(probabilities), optional numeric bounds.  A case is non-trivial when the template has >=1 inter edge "
        "(inference) / >=1 CPD to complete (init); distinct = distinct canonical (kind, template, question)")
TRUSTED_BASE = ["pgmpy BeliefPropagation/junction tree (replaced by its specification in the model: normalised marginal "
                "of the product of the tree's factors; that equality is property C02)",
                "pgmpy VariableElimination on the harness-built unrolled BayesianNetwork is an independent tie, "
                "itself cross-checked against the extracted brute-force sum when the joint has <= 6000 states",
                "networkx DiGraph insertion order of predecessors (modelled as edge-list order)"]
ASSUMPTIONS = ["names and state names are interned to nat by the harness",
               "floats are exact dyadic rationals on input; outputs compared at 1e-9 relative",
               "add_edge's has_path loop check is not modelled (only acyclic templates are generated)"]

# repaired in /repo (b467fa1, 4acab62): recurrences are unlisted violations
F_NAMES = "dbn-state-names-dropped"
F_NOINTRA = "dbn-inference-node-without-intra-edge"
F_IFACE = "dbn-interface-heads-vs-tails"
F_BWD = "dbn-backward-interface-evidence"
F_ISOL = "dbn-isolated-variable"
F_RESET = "dbn-query-resets-belief"

SPEC_LIMIT = 6000


# ------------------------------------------------------------------ generation
def _col(rng, card, zeros):
    if zeros == "heavy":
        # deterministic / sparse column: a random proper support, exact zeros elsewhere
        k = 1 if rng.random() < 0.55 else rng.randint(1, card)
        supp = rng.sample(range(card), k)
        den = 8
        while True:
            cuts = sorted(rng.randint(0, den) for _ in range(k - 1))
            parts = [b - a for a, b in zip([0] + cuts, cuts + [den])]
            if all(x > 0 for x in parts):
                break
        col = [[0, den] for _ in range(card)]
        for i, x in zip(supp, parts):
            col[i] = [x, den]
        return col
    if zeros == "dec2":
        # typed with two decimals: column sums 0.99 / 1.00 / 1.01 (inside check_model's tolerance, not normalised)
        while True:
            cuts = sorted(rng.randint(1, 99) for _ in range(card - 1))
            parts = [b - a for a, b in zip([0] + cuts, cuts + [100])]
            if all(x > 1 for x in parts):
                break
        parts[rng.randrange(card)] += rng.choice([-1, 0, 1, 1, -1])
        return [[x, 100] for x in parts]
    if zeros == "tiny" and card >= 2:
        # one or two states of probability 2^-k (exact in binary floating point together with the complement)
        k = rng.choice([20, 30, 40])
        den = 2 ** k
        col = [[1, den] for _ in range(card)]
        big = rng.randrange(card)
        col[big] = [den - (card - 1), den]
        return col
    den = rng.choice([8, 16, 64])
    while True:
        cuts = sorted(rng.randint(0, den) for _ in range(card - 1))
        parts = [b - a for a, b in zip([0] + cuts, cuts + [den])]
        if zeros or all(x > 0 for x in parts):
            return [[x, den] for x in parts]


def _table(rng, card, pcards, zeros):
    ncol = 1
    for c in pcards:
        ncol *= c
    cols = [_col(rng, card, zeros) for _ in range(ncol)]
    return [cols[c][r] for r in range(card) for c in range(ncol)]  # flat row-major over [var] + parents


def gen_template(rng, cls, nmax=3, cards=(2, 3), pe=None, zeros=None, need_non_interface=False):
    """cls: 'valid' (every name has an intra edge, heads = tails), 'iface' (heads != tails), 'nointra'"""
    for _ in range(10000):
        n = rng.randint(1, nmax)
        order = list(range(n))
        rng.shuffle(order)
        pi = rng.choice([0.5, 0.8, 1.0])
        intra = [[order[i], order[j]] for i in range(n) for j in range(i + 1, n) if rng.random() < pi]
        pe_ = pe if pe is not None else rng.choice([0.25, 0.4, 0.6])
        inter = [[u, v] for u in range(n) for v in range(n) if rng.random() < (pe_ if (u != v or pe is not None) else max(pe_, 0.3))]
        if not inter:
            continue
        touched = set(x for e in intra for x in e)
        heads = set(v for _, v in inter)
        tails = set(u for u, _ in inter)
        if cls == "any":
            pass
        elif cls == "nointra":
            if touched == set(range(n)):
                continue
        else:
            if touched != set(range(n)):
                continue
            if (cls == "valid") != (heads == tails):
                continue
        rng.shuffle(intra)
        rng.shuffle(inter)
        card = [rng.choice(cards) for _ in range(n)]
        if need_non_interface and tails == set(range(n)):
            continue
        zeros_ = zeros if zeros is not None else (rng.random() < 0.08)
        cpds = []
        for v in range(n):
            p0 = [[u, 0] for u, w in intra if w == v]
            p1 = [[u, 1] for u, w in intra if w == v] + [[u, 0] for u, w in inter if w == v]
            rng.shuffle(p0)
            rng.shuffle(p1)
            cpds.append({"var": [v, 0], "pars": p0, "vals": _table(rng, card[v], [card[u] for u, _ in p0], zeros_)})
            cpds.append({"var": [v, 1], "pars": p1, "vals": _table(rng, card[v], [card[u] for u, _ in p1], zeros_)})
        rng.shuffle(cpds)
        eorder = list(range(len(intra) + len(inter)))
        rng.shuffle(eorder)  # intra and inter edges are added interleaved (predecessor order of the mirror nodes)
        return {"n": n, "card": card, "intra": intra, "inter": inter, "cpds": cpds, "eorder": eorder}
    raise RuntimeError("no template")


def gen_question(rng, t, tmax):
    n = t["n"]
    T = rng.randint(0, tmax)
    allv = [[v, s] for v in range(n) for s in range(T + 1)]
    nq = min(len(allv), rng.choice([1, 1, 1, 2, 3]))
    qs = rng.sample(allv, nq)
    rest = [x for x in allv if x not in qs]
    ne = min(len(rest), rng.choice([0, 1, 1, 2, 2, 3, 4]))
    ev = [[x, rng.randrange(t["card"][x[0]])] for x in rng.sample(rest, ne)]
    return qs, ev


def gen_session(rng, t, tmax):
    """3-8 questions for ONE DBNInference object.  Questions stay inside the classes where single queries are right
    (queries in one slice; smoothing evidence on non-interface names only); consecutive questions often keep the
    evidence VARIABLES and change their STATES, or repeat an earlier question."""
    n, card = t["n"], t["card"]
    tails = set(u for u, _ in t["inter"])

    def fresh():
        T = rng.randint(1, tmax)
        slot = rng.randint(0, T)
        qs = [[v, slot] for v in rng.sample(range(n), min(n, rng.choice([1, 1, 2])))]
        mode = rng.choice(["fwd", "fwd", "bwd", "query"])
        allv = [[v, s] for v in range(n) for s in range(T + 1) if [v, s] not in qs]
        if mode != "fwd":
            allv = [x for x in allv if x[0] not in tails]
        evv = []
        s0 = [x for x in allv if x[1] == 0]
        if s0 and rng.random() < 0.85:
            evv += rng.sample(s0, min(len(s0), rng.choice([1, 1, 2])))
        rest = [x for x in allv if x not in evv]
        evv += rng.sample(rest, min(len(rest), rng.choice([0, 1, 1, 2])))
        if [v for v in qs if v[1] == T] == [] and not any(x[1] == T for x in evv):
            pass  # T only bounds the slots drawn; the engine derives its own range
        return {"qs": qs, "ev": [[x, rng.randrange(card[x[0]])] for x in evv], "mode": mode}

    steps = []
    for k in range(rng.randint(3, 8)):
        r = rng.random()
        if steps and r < 0.55 and steps[-1]["ev"]:
            prev = steps[-1]
            ev = [[x, st] for x, st in prev["ev"]]
            idx = [i for i in range(len(ev)) if rng.random() < 0.7] or [rng.randrange(len(ev))]
            for i in idx:
                c = card[ev[i][0][0]]
                ev[i][1] = (ev[i][1] + rng.randint(1, c - 1)) % c
            st = {"qs": prev["qs"], "ev": ev, "mode": prev["mode"]}
            if rng.random() < 0.3:  # same evidence variables, other states, another query variable of the slice
                slot = prev["qs"][0][1]
                cand = [[v, slot] for v in range(n) if [v, slot] not in [x for x, _ in ev]]
                if cand:
                    st["qs"] = [rng.choice(cand)]
            steps.append(st)
        elif steps and r < 0.7:
            steps.append(dict(rng.choice(steps)))
        else:
            steps.append(fresh())
    return steps


def cases(tier, seed):
    rng = random.Random(seed)
    out = []
    n_inf = 220 if tier == "quick" else 2400
    for i in range(n_inf):
        r = rng.random()
        cls = "valid" if r < 0.66 else ("iface" if r < 0.88 else "nointra")
        r2 = rng.random()
        if r2 < 0.07:
            t = gen_template(rng, cls, nmax=5, cards=(2,), pe=0.2)       # up to 10 variables in the 1.5-slice tree
            while t["n"] < 4:
                t = gen_template(rng, cls, nmax=5, cards=(2,), pe=0.2)
        elif r2 < 0.13:
            t = gen_template(rng, cls, cards=(1, 2, 3))                  # cardinality-1 variables
        else:
            t = gen_template(rng, cls)
        states = 1
        for c_ in t["card"]:
            states *= c_
        # exact rationals of the backward pass grow quickly: T = 4 only for <= 12 states per slice
        qs, ev = gen_question(rng, t, 2 if t["n"] >= 4 else (4 if (rng.random() < 0.4 and states <= 12) else 3))
        use_init = rng.random() < 0.3
        if use_init:
            # variables without inter parents: slice-1 CPD = slice-0 CPD (same evidence order, same table), so it
            # can be left to initialize_initial_state
            heads_ = set(v for _, v in t["inter"])
            by_ = {tuple(c["var"]): c for c in t["cpds"]}
            for c in t["cpds"]:
                v, s_ = c["var"]
                if s_ == 1 and v not in heads_:
                    c["pars"] = [[u, 1] for u, _ in by_[(v, 0)]["pars"]]
                    c["vals"] = list(by_[(v, 0)]["vals"])
        out.append({"kind": "infer", "cls": cls, "t": t, "qs": qs, "ev": ev,
                    "mode": rng.choice(["fwd", "bwd", "query"]),
                    "style": rng.choice(STYLES),
                    "named": rng.random() < 0.12, "use_init": use_init})
    # the documented example of the class, all questions
    n_init = 100 if tier == "quick" else 1100
    for i in range(n_init):
        t = gen_template(rng, "any", nmax=4, cards=(2, 2, 3, 4), pe=rng.choice([0.05, 0.15, 0.3]))
        # per name: both CPDs given / only slice 0 / only slice 1 / none
        pat = {v: rng.choice(["both", "s0", "s0", "s1", "s1", "none"]) for v in range(t["n"])}
        present = [pat[c["var"][0]] == "both" or (pat[c["var"][0]] == "s0" and c["var"][1] == 0)
                   or (pat[c["var"][0]] == "s1" and c["var"][1] == 1) for c in t["cpds"]]
        out.append({"kind": "init", "t": t, "present": present, "style": rng.choice(STYLES),
                    "named": rng.choice([False, False, True, "onebased", "desc"])})
    n_cb = 60 if tier == "quick" else 500
    for i in range(n_cb):
        t = gen_template(rng, rng.choice(["valid", "iface", "nointra"]))
        out.append({"kind": "constbn", "t": t, "k": rng.choice([0, 0, 1, 3]), "style": rng.choice(STYLES),
                    "named": rng.choice([False, False, False, True, "onebased", "desc"]), "isolated": rng.random() < 0.15,
                    "default_arg": rng.random() < 0.5})
    # zero-heavy smoothing: deterministic/sparse CPDs, backward_inference/query over >= 2 slices, evidence on
    # non-interface variables (it rules out interface states: the forward potential gets exact zeros)
    n_z = 70 if tier == "quick" else 700
    for i in range(n_z):
        t = gen_template(rng, "valid", cards=(2, 2, 3), zeros="heavy", need_non_interface=True)
        tails_ = set(u for u, _ in t["inter"])
        T = rng.randint(1, 3)
        slot = rng.randint(0, T)
        qs = [[rng.randrange(t["n"]), slot]]
        pool = [[v, s_] for v in range(t["n"]) for s_ in range(T + 1) if v not in tails_ and [v, s_] not in qs]
        evv = rng.sample(pool, min(len(pool), rng.choice([1, 2, 2, 3])))
        if not any(x[1] == T for x in evv) and qs[0][1] != T:
            last = [x for x in pool if x[1] == T]
            if last:
                evv.append(rng.choice(last))
        # states drawn by forward sampling would be best; a random state is possible often enough, and the
        # impossible ones are reported as skipped (zero-probability-evidence)
        out.append({"kind": "infer", "cls": "valid", "t": t, "qs": qs,
                    "ev": [[x, rng.randrange(t["card"][x[0]])] for x in evv],
                    "mode": rng.choice(["bwd", "query"]), "style": rng.choice(STYLES),
                    "named": False, "use_init": False, "zeros": True})
    # get_constant_bn sessions: the returned network is the caller's; mutating it must not leak into later calls
    n_cs = 60 if tier == "quick" else 500
    for i in range(n_cs):
        t = gen_template(rng, rng.choice(["valid", "valid", "iface"]))
        out.append({"kind": "constbn_session", "t": t, "k": rng.choice([0, 0, 1, 2]),
                    "mutation": rng.choice(["replace_cpd", "remove_node", "add_node", "remove_cpds", "write_values"]),
                    "target": rng.randrange(2 * t["n"]), "simulate": rng.random() < 0.5,
                    "style": rng.choice(STYLES), "named": False})
    # sessions: one engine object, several questions (cross-query state would show here)
    n_s = 55 if tier == "quick" else 550
    for i in range(n_s):
        r = rng.random()
        cls = "valid" if r < 0.85 else ("iface" if r < 0.95 else "nointra")
        t = gen_template(rng, cls)
        states = 1
        for c_ in t["card"]:
            states *= c_
        out.append({"kind": "session", "t": t, "steps": gen_session(rng, t, 3 if states <= 12 else 2),
                    "style": rng.choice(STYLES), "use_init": False})
    n_g = 80 if tier == "quick" else 600
    for i in range(n_g):
        n = rng.randint(1, 4)
        order = list(range(n))
        rng.shuffle(order)
        pos = {v: i for i, v in enumerate(order)}
        edges = []
        for _ in range(rng.randint(1, 6)):
            u, v = rng.randrange(n), rng.randrange(n)
            kind = rng.random()
            if kind < 0.45:  # intra edge at some slice, respecting the hidden order (or a self loop)
                if u != v and pos[u] > pos[v]:
                    u, v = v, u
                s = rng.choice([0, 0, 1, 2])
                edges.append([[u, s], [v, s]])
            elif kind < 0.85:
                s = rng.choice([0, 0, 1, 2])
                edges.append([[u, s], [v, s + 1]])
            elif kind < 0.93:
                edges.append([[u, 1], [v, 0]])
            else:
                edges.append([[u, 0], [v, 2]])
        out.append({"kind": "graph", "n": n, "edges": edges, "extra": [v for v in range(n) if rng.random() < 0.3],
                    "style": rng.choice(STYLES)})
    # tiny probabilities (2^-20 .. 2^-40): evidence of total probability down to ~1e-40; relative comparison
    n_t = 40 if tier == "quick" else 400
    for i in range(n_t):
        t = gen_template(rng, "valid", nmax=2, cards=(2, 2, 3), zeros="tiny")
        if t["n"] < 2:
            t = gen_template(rng, "valid", nmax=3, cards=(2,), zeros="tiny")
        qs, ev = gen_question(rng, t, 3)
        qs = qs[:1]
        out.append({"kind": "infer", "cls": "valid", "t": t, "qs": qs, "ev": ev, "mode": rng.choice(["fwd", "bwd", "query"]),
                    "style": rng.choice(STYLES), "named": False, "use_init": False, "tiny": True})
    # rejected calls: a query variable that is observed; no query variable
    n_r = 24 if tier == "quick" else 200
    for i in range(n_r):
        t = gen_template(rng, "valid")
        qs, ev = gen_question(rng, t, 3)
        if rng.random() < 0.75:
            q = rng.choice(qs)
            ev = [e for e in ev if e[0] != q] + [[q, rng.randrange(t["card"][q[0]])]]
            rng.shuffle(ev)
            rej = "query-in-evidence"
        else:
            qs = []
            rej = "no-query"
        out.append({"kind": "infer", "cls": "valid", "t": t, "qs": qs, "ev": ev, "mode": rng.choice(["fwd", "bwd", "query"]),
                    "style": rng.choice(STYLES), "named": False, "use_init": False, "reject": rej})
    # edits of the DBN object between uses: replaced CPD, added / removed inter edge (networkx remove_edge)
    n_e = 36 if tier == "quick" else 400
    for i in range(n_e):
        t = gen_template(rng, rng.choice(["valid", "valid", "valid", "iface"]))
        q1, e1 = gen_question(rng, t, 2)
        q2, e2 = gen_question(rng, t, 2)
        out.append({"kind": "edit_session", "t": t, "op": rng.choice(["replace_cpd", "replace_cpd", "add_inter", "remove_inter"]),
                    "pick": rng.randrange(1000), "by_node": rng.random() < 0.5, "tseed": rng.randrange(10 ** 9),
                    "q1": {"qs": q1[:1], "ev": e1, "mode": rng.choice(["fwd", "query"])},
                    "q2": {"qs": q2[:1], "ev": e2, "mode": rng.choice(["fwd", "query"])},
                    "style": rng.choice(STYLES)})
    # add_cpds(*cpds) with a LATER invalid CPD; getters with invalid / default / explicit arguments
    n_k = 30 if tier == "quick" else 250
    for i in range(n_k):
        t = gen_template(rng, "any")
        out.append({"kind": "reject_misc", "t": t, "k": rng.randrange(len(t["cpds"]) + 1), "pos": rng.randrange(3),
                    "style": rng.choice(STYLES)})
    # two-decimal tables: valid for check_model (tolerance 0.01) but not normalised
    n_q = 24 if tier == "quick" else 250
    for i in range(n_q):
        t = gen_template(rng, "valid", zeros="dec2")
        qs, ev = gen_question(rng, t, 3)
        tails_ = set(u for u, _ in t["inter"])
        mode = rng.choice(["fwd", "fwd", "bwd", "query"])
        if mode != "fwd":
            ev = [e for e in ev if e[0][0] not in tails_]
        out.append({"kind": "infer", "cls": "valid", "t": t, "qs": qs[:1], "ev": ev, "mode": mode,
                    "style": rng.choice(STYLES), "named": False, "use_init": False, "dec2": True})
    # mid-sized chains (9 / 12 variables per slice: 18-24 node 1.5-slice trees) and a variable with 257 states:
    # pgmpy against pgmpy's VE on the unrolled network only
    n_p = 3 if tier == "quick" else 30
    for i in range(n_p):
        kind = ["chain9", "chain12", "card257"][i % 3]
        if kind == "card257":
            n_, card_ = 2, [2, 257]
            intra, inter = [[0, 1]], [[0, 0]]
        else:
            n_ = 9 if kind == "chain9" else 12
            card_ = [2] * n_
            intra = [[j, j + 1] for j in range(n_ - 1)]
            keep = sorted(rng.sample(range(n_), rng.choice([1, 2, 3])))
            inter = [[j, j] for j in keep]
        cpds = []
        for v in range(n_):
            p0 = [[u, 0] for u, w in intra if w == v]
            p1 = [[u, 1] for u, w in intra if w == v] + [[u, 0] for u, w in inter if w == v]
            cpds.append({"var": [v, 0], "pars": p0, "vals": _table(rng, card_[v], [card_[u] for u, _ in p0], False)
                         if card_[v] < 200 else [[1 + (7 * r_ + 3 * c_) % 11, sum(1 + (7 * x_ + 3 * c_) % 11 for x_ in range(card_[v]))]
                                                  for r_ in range(card_[v]) for c_ in range(2)]})
            cpds.append({"var": [v, 1], "pars": p1, "vals": _table(rng, card_[v], [card_[u] for u, _ in p1], False)
                         if card_[v] < 200 else [[1 + (5 * r_ + 2 * c_) % 13, sum(1 + (5 * x_ + 2 * c_) % 13 for x_ in range(card_[v]))]
                                                  for r_ in range(card_[v]) for c_ in range(2)]})
        t = {"n": n_, "card": card_, "intra": intra, "inter": inter, "cpds": cpds}
        tails_ = set(u for u, _ in inter)
        T_ = rng.randint(1, 2)
        qv = [rng.randrange(n_), rng.randint(0, T_)]
        pool_ = [[v, s_] for v in range(n_) for s_ in range(T_ + 1) if v not in tails_ and [v, s_] != qv]
        ev = [[x, rng.randrange(min(card_[x[0]], 300))] for x in rng.sample(pool_, min(len(pool_), 2))]
        out.append({"kind": "infer", "cls": "valid", "t": t, "qs": [qv], "ev": ev, "mode": rng.choice(["fwd", "query"]),
                    "style": "str" if n_ <= 6 else "bignames", "named": False, "use_init": False, "ref_only": kind})
    # construction routes / argument forms / backend, independent of the stream
    for c in out:
        if c["kind"] in ("infer", "init", "constbn", "session", "edit_session", "constbn_session"):
            c["nd"] = rng.random() < 0.4
            c["build"] = rng.choice(["nodes_first", "nodes_first", "edges_only", "ctor", "nodes_last"])
        if c["kind"] in ("infer", "init", "constbn", "session", "edit_session", "constbn_session"):
            c["containers"] = [rng.choice(["list", "tuple", "gen", "iter", "set", "dictkeys"]),
                               rng.choice(["list", "tuple", "gen", "iter"])]
        if c["kind"] == "infer":
            c["qcontainer"] = rng.choice(["list", "list", "tuple"])
            c["empty_ev_dict"] = rng.random() < 0.5
            c["potential"] = rng.random() < 0.35
            c["explicit_args"] = rng.random() < 0.5
        if (c["kind"] in ("infer", "init", "constbn") and not c.get("named") and not c.get("dec2") and not c.get("tiny")
                and rng.random() < 0.12):
            c["backend"] = "torch"
    return out


def shrink(case):
    if case["kind"] == "session":
        for i in range(len(case["steps"])):
            if len(case["steps"]) > 1:
                c = dict(case)
                c["steps"] = case["steps"][:i] + case["steps"][i + 1:]
                yield c
        for i, st in enumerate(case["steps"]):
            for j in range(len(st["ev"])):
                c = dict(case)
                c["steps"] = [dict(x) for x in case["steps"]]
                c["steps"][i]["ev"] = st["ev"][:j] + st["ev"][j + 1:]
                yield c
    if case["kind"] == "infer":
        for i in range(len(case["ev"])):
            c = dict(case)
            c["ev"] = case["ev"][:i] + case["ev"][i + 1:]
            yield c
        if len(case["qs"]) > 1:
            for i in range(len(case["qs"])):
                c = dict(case)
                c["qs"] = [case["qs"][i]]
                yield c
        if case.get("named") or case.get("use_init"):
            c = dict(case)
            c["named"] = False
            c["use_init"] = False
            yield c


# ------------------------------------------------------------------ helpers
NAME_POOLS = {
    "str": ["A", "B", "C", "D", "E", "F"],
    "int": [7, 0, 3, 12, 5, 1],
    # one name a substring of another, names that look like "<name>_<slice>" (get_constant_bn's string scheme)
    "sub": ["x1", "x10", "x", "x_0", "x1_1", "x_"],
    "tuple": [("v", 1), ("v", 10), ("w", 0), ("v", 0), ("w", 1), ("v", 2)],
    # mixed types that do not sort against each other, falsy names
    "mixed": ["a", 5, ("t", 1), "", 0, ("t", 2)],
}
NAME_POOLS["long"] = ["node_alpha", "node_beta", "node_gamma", "nd", "n_0", "node_alpha2"]
NAME_POOLS["bigint"] = [1000, 257, 70000, 300, 4096, 99999]   # ints above 256 are not shared objects
STYLES = ["str", "int", "sub", "tuple", "mixed", "long", "bigint"]


def rebuild(x):
    """an equal but NOT identical object (names / states handed to a call are never the objects stored in the model)"""
    if isinstance(x, bool):
        return x
    if isinstance(x, str):
        return "".join(list(x)) if len(x) >= 2 else x
    if isinstance(x, int):
        return int(str(x))
    if isinstance(x, tuple):
        return tuple(rebuild(y) for y in x)
    return x


def as_container(kind, items):
    """the same items in another documented iterable form"""
    items = list(items)
    if kind == "tuple":
        return tuple(items)
    if kind == "gen":
        return (x for x in items)
    if kind == "iter":
        return iter(items)
    if kind == "set":
        return set(items)
    if kind == "dictkeys":
        return dict.fromkeys(items).keys()
    return items

STATE_POOL = [["lo", "hi", "mid", "top"], ["x", "y", "z", "w"], ["off", "on", "err", "idle"], ["p", "q", "r", "s"],
              ["k0", "k1", "k2", "k3"], ["u", "v", "w", "t"]]


NAME_POOLS["bignames"] = ["V%02d" % i for i in range(16)]


def name_pool(case):
    return NAME_POOLS[case.get("style", "str")]


def str_pool(case):
    return [str(x) for x in name_pool(case)]


def nm(case, i):
    return name_pool(case)[i]


def frs(vals):
    return [Fraction(a, b) for a, b in vals]


def state_label(case, v, i):
    """state names: False = default integers; True = strings; 'onebased' = 1..k; 'desc' = 9, 8, 7, ... (integers that
    are not their positions, equal across variables)"""
    kind = case.get("named")
    if kind == "onebased":
        return i + 1
    if kind == "desc":
        return 9 - i
    return STATE_POOL[v][i] if kind else i


def state_code(case, v, lab):
    """interned state name: default integer names are themselves, strings are 100 + index"""
    if isinstance(lab, str):
        return 100 + STATE_POOL[v].index(lab)
    return int(lab)


def mk_tabular(case, c, card):
    from pgmpy.factors.discrete import TabularCPD
    v, s = c["var"]
    pars = [(nm(case, u), k) for u, k in c["pars"]]
    pc = [card[u] for u, _ in c["pars"]]
    ncol = 1
    for x in pc:
        ncol *= x
    flat = [float(Fraction(a, b)) for a, b in c["vals"]]
    vals = [flat[r * ncol:(r + 1) * ncol] for r in range(card[v])]
    sn = None
    if case.get("named"):
        sn = {(nm(case, v), s): [state_label(case, v, i) for i in range(card[v])]}
        for u, k in c["pars"]:
            sn[(nm(case, u), k)] = [state_label(case, u, i) for i in range(card[u])]
    kw = {"state_names": sn} if sn else {}
    if case.get("nd"):
        # C-contiguous float64 buffer handed to the constructor and overwritten afterwards (a view would be poisoned)
        import numpy as np
        buf = np.ascontiguousarray(np.array(vals, dtype=np.float64))
        out = TabularCPD((nm(case, v), s), card[v], buf, evidence=pars or None, evidence_card=pc or None, **kw)
        buf[...] = -7.0
        return out
    return TabularCPD((nm(case, v), s), card[v], vals, evidence=pars or None, evidence_card=pc or None, **kw)


def edges_of(t):
    """edges in the order they are added (explicit t['edges'] after an edit; else intra + inter permuted by t['eorder'])"""
    if "edges" in t:
        return t["edges"]
    base = [[[u, 0], [v, 0]] for u, v in t["intra"]] + [[[u, 0], [v, 1]] for u, v in t["inter"]]
    if "eorder" in t and len(t["eorder"]) == len(base):
        return [base[i] for i in t["eorder"]]
    return base


class CpdNodeMissing(Exception):
    pass


def build_dbn(case, t, cpds, extra_nodes=True):
    from pgmpy.models import DynamicBayesianNetwork as DBN
    ebunch = [((nm(case, a[0]), a[1]), (nm(case, b[0]), b[1])) for a, b in edges_of(t)]
    route = case.get("build", "nodes_first")
    touched_all = set(x[0] for e in edges_of(t) for x in e) == set(range(t["n"]))
    ck = case.get("containers", ["list", "list"])
    names_c = as_container(ck[0], [nm(case, i) for i in range(t["n"])])
    ebunch_c = as_container(ck[1] if ck[1] in ("list", "tuple", "gen", "iter") else "list", ebunch)
    if route == "ctor" and touched_all and ebunch:
        d = DBN(ebunch_c)
    elif route == "edges_only" and touched_all:
        d = DBN()
        d.add_edges_from(ebunch_c)
    elif route == "nodes_last":
        d = DBN()
        d.add_edges_from(ebunch_c)
        d.add_nodes_from(names_c)
    else:
        d = DBN()
        if extra_nodes:
            d.add_nodes_from(names_c)
        d.add_edges_from(ebunch_c)
    try:
        d.add_cpds(*[mk_tabular(case, c, t["card"]) for c in cpds])
    except ValueError as e:
        # a variable that is only the tail of inter edges has no slice-1 node: its slice-1 CPD is rejected
        if "CPD defined on variable not in the model" in str(e):
            raise CpdNodeMissing()
        raise
    return d


def wire_cpd(case, c, card):
    v, s = c["var"]
    names = [[state_code(case, v, state_label(case, v, i)) for i in range(card[v])]]
    for u, _ in c["pars"]:
        names.append([state_code(case, u, state_label(case, u, i)) for i in range(card[u])])
    return [c["var"], card[v], c["pars"], [card[u] for u, _ in c["pars"]], frs(c["vals"]), names]


def unname(case, n, x):
    """pgmpy node (DynamicNode or tuple) -> [index, slice]"""
    pool = name_pool(case)
    idx = [i for i, y in enumerate(pool) if type(y) is type(x[0]) and y == x[0]]
    return [idx[0], int(x[1])]


def cpd_from_pgmpy(case, c, n):
    var = unname(case, n, c.variable)
    pars = [unname(case, n, p) for p in c.variables[1:]]
    allv = [var] + pars
    names = []
    for node, (v, _) in zip(c.variables, allv):
        names.append([state_code(case, v, lab) for lab in c.state_names[node]])
    return {"var": var, "card": int(c.cardinality[0]), "pars": pars, "pcards": [int(x) for x in c.cardinality[1:]],
            "vals": [float(x) for x in c.values.ravel()], "names": names}


def cpd_from_model(w):
    return {"var": w[0], "card": w[1], "pars": w[2], "pcards": w[3], "vals": [common.frac(x) for x in w[4]],
            "names": w[5]}


def cpd_from_wire(w):
    return {"var": w[0], "card": w[1], "pars": w[2], "pcards": w[3], "vals": list(w[4]), "names": w[5]}


def same_cpd(a, b, names=True):
    if (a["var"], a["card"], a["pars"], a["pcards"]) != (b["var"], b["card"], b["pars"], b["pcards"]):
        return False
    if names and a["names"] != b["names"]:
        return False
    return len(a["vals"]) == len(b["vals"]) and all(common.approx(x, y) for x, y in zip(a["vals"], b["vals"]))


def named_table(c):
    """CPD as {frozenset((node, state-name-code)) : value}: the observable meaning"""
    import itertools
    allv = [tuple(c["var"])] + [tuple(p) for p in c["pars"]]
    cards = [c["card"]] + list(c["pcards"])
    out = {}
    idx = 0
    for combo in itertools.product(*[range(k) for k in cards]):
        key = frozenset((v, c["names"][i][combo[i]] if c["names"] else combo[i]) for i, v in enumerate(allv))
        out[key] = c["vals"][idx]
        idx += 1
    return out


def same_meaning(a, b):
    ta, tb = named_table(a), named_table(b)
    return set(ta) == set(tb) and all(common.approx(ta[k], tb[k]) for k in ta)


def template_key(case):
    return common.canon_key({k: v for k, v in case.items() if k not in ("hashseed",)})


# ------------------------------------------------------------------ inference cases
def unrolled_reference(t, T, q, ev, filt):
    from pgmpy.models import BayesianNetwork
    from pgmpy.factors.discrete import TabularCPD
    from pgmpy.inference import VariableElimination
    name = lambda v, s: "%d_%d" % (v, s)
    bn = BayesianNetwork()
    cp = []
    by = {tuple(c["var"]): c for c in t["cpds"]}
    for s in range(T + 1):
        for v in range(t["n"]):
            bn.add_node(name(v, s))
    for s in range(T + 1):
        for v in range(t["n"]):
            c = by[(v, 0)] if s == 0 else by[(v, 1)]
            par = [name(u, k if s == 0 else s - 1 + k) for u, k in c["pars"]]
            for p in par:
                bn.add_edge(p, name(v, s))
            pc = [t["card"][u] for u, _ in c["pars"]]
            ncol = 1
            for x in pc:
                ncol *= x
            flat = [float(Fraction(a, b)) for a, b in c["vals"]]
            vals = [flat[r * ncol:(r + 1) * ncol] for r in range(t["card"][v])]
            cp.append(TabularCPD(name(v, s), t["card"][v], vals, evidence=par or None, evidence_card=pc or None))
    bn.add_cpds(*cp)
    e = {name(x[0], x[1]): st for x, st in ev if not filt or x[1] <= q[1]}
    r = VariableElimination(bn).query([name(q[0], q[1])], evidence=e or None, show_progress=False)
    return [float(x) for x in r.values]


def vec_eq(a, b):
    return len(a) == len(b) and all(common.approx(x, y) for x, y in zip(a, b))


def has_nan(v):
    return any(x != x for x in v)


def _build_engine(case, t, cls, heads, tags):
    """DBN + DBNInference as a user builds them; returns (engine, None) or (None, ('err', 3))"""
    from pgmpy.inference import DBNInference
    cpds = t["cpds"]
    used_init = False
    if case.get("use_init") and not case.get("named") and cls != "nointra":
        # omit slice-1 CPDs that initialize_initial_state copies: no inter parents, equal to slice 0's table
        # (any cardinality, any evidence order)
        by = {tuple(c["var"]): c for c in cpds}
        keep = []
        for c in cpds:
            v, s = c["var"]
            if s == 1 and v not in heads:
                c0 = by[(v, 0)]
                if [[u, 1] for u, _ in c0["pars"]] == c["pars"] and c0["vals"] == c["vals"]:
                    used_init = True
                    continue
            keep.append(c)
        if used_init:
            dbn = build_dbn(case, t, keep)
            dbn.initialize_initial_state()
            tags.append("via-initialize_initial_state")
        else:
            dbn = build_dbn(case, t, cpds)
    else:
        dbn = build_dbn(case, t, cpds)
    try:
        return DBNInference(dbn), None
    except ValueError as e:
        if "CPD defined on variable not in the model" in str(e):
            return None, ("err", 3)
        raise


def run_infer(case, drv, shared=None):
    """shared: dict holding the DBNInference object of a session (one engine, several questions)"""
    import numpy as np
    from pgmpy.inference import DBNInference
    t, qs, ev, mode = case["t"], case["qs"], case["ev"], case["mode"]
    n, card = t["n"], t["card"]
    filt = mode == "fwd"
    heads = set(v for _, v in t["inter"])
    tails = set(u for u, _ in t["inter"])
    touched = set(x for e in t["intra"] for x in e)
    cls = "nointra" if touched != set(range(n)) else ("valid" if heads == tails else "iface")
    iev = any(x[0] in tails for x, _ in ev)
    T = max([q[1] for q in qs] + [x[1] for x, _ in ev], default=0)
    tags = ["infer", "cls=" + cls, "mode=" + mode, "n=%d" % n, "T=%d" % T, "nev=%d" % len(ev), "nq=%d" % len(qs),
            "iface-evidence=%s" % iev, "ninter=%d" % len(t["inter"]), "maxcard=%d" % max(card)]
    if case.get("named"):
        tags.append("named-states")
    for flag in ("tiny", "nd", "backend", "reject", "dec2", "qcontainer"):
        if case.get(flag):
            tags.append("%s=%s" % (flag, case[flag]))
    if 1 in card:
        tags.append("cardinality-1-variable")
    tags.append("style=" + case.get("style", "str"))
    tags.append("build=" + case.get("build", "nodes_first"))
    tags.append("containers=%s" % "/".join(case.get("containers", ["list", "list"])))
    if case.get("zeros"):
        nz = sum(1 for c in t["cpds"] for a, _ in c["vals"] if a == 0)
        tot = sum(len(c["vals"]) for c in t["cpds"])
        tags += ["zero-heavy", "zeros=%d%%" % (10 * int(10 * nz / tot))]
    key = template_key(case)

    # --- pgmpy
    cpds = t["cpds"]
    if shared is not None and "engine" in shared:
        inf, impl = shared["engine"]
        if shared.get("used_init"):
            tags.append("via-initialize_initial_state")
    else:
        inf, impl = _build_engine(case, t, cls, heads, tags)
        if shared is not None:
            shared["engine"] = (inf, impl)
            shared["used_init"] = "via-initialize_initial_state" in tags
    named_crash = None
    pot_impl = None
    if impl is None:
        import copy
        pq = [(rebuild(nm(case, v)), s) for v, s in qs]
        if case.get("qcontainer") == "tuple":
            pq = tuple(pq)
        pev = {(rebuild(nm(case, x[0])), x[1]): rebuild(state_label(case, x[0], st)) for x, st in ev}
        if not pev:
            pev = {} if case.get("empty_ev_dict") else None
        # argument purity: the caller's list / dict and the network's CPDs are not touched
        pq_snap, pev_snap = (tuple(pq) if isinstance(pq, tuple) else list(pq)), (dict(pev) if pev is not None else None)
        dbn_obj = inf.model
        cpd_snap = [(list(c.variables), [float(x) for x in c.values.ravel()]) for c in dbn_obj.cpds]
        edge_snap = sorted(map(str, dbn_obj.edges()))
        try:
            if mode == "fwd":
                r = inf.forward_inference(pq, pev, None) if case.get("explicit_args") else inf.forward_inference(pq, pev)
            elif mode == "bwd":
                r = inf.backward_inference(pq, pev)
            else:
                r = inf.query(pq, pev, "exact") if case.get("explicit_args") else inf.query(pq, pev)
            impl = ("ok", {tuple(unname(case, n, k)): r[k] for k in r})
            if shared is not None:
                shared["last"] = r
            if mode == "fwd" and case.get("potential"):
                pot_impl = inf.forward_inference(pq, pev, "potential")
        except ValueError as e:
            if "Factors defined on clusters of variable not" in str(e):
                impl = ("err", 4)
            elif "Can't have the same variables in both" in str(e):
                impl = ("err", 8)
            elif "max()" in str(e) and not qs:
                impl = ("err", 9)
            else:
                raise
        except (IndexError, KeyError) as e:
            # exact class: string state names, evidence given by name, more than one slice
            if case.get("named") and ev and T >= 1:
                named_crash = repr(e)
            else:
                raise
        if pq != pq_snap or pev != pev_snap:
            return bad("mutated-argument", {"variables": [str(pq), str(pq_snap)], "evidence": [str(pev), str(pev_snap)]},
                       key=key, tags=tags)
        now = [(list(c.variables), [float(x) for x in c.values.ravel()]) for c in dbn_obj.cpds]
        if now != cpd_snap or sorted(map(str, dbn_obj.edges())) != edge_snap:
            return bad("mutated-argument", {"what": "the DynamicBayesianNetwork given to DBNInference changed during a query"},
                       key=key, tags=tags)

    if case.get("ref_only"):
        # mid-sized / many-state templates: too large for the exact model; pgmpy's DBNInference against pgmpy's
        # VariableElimination on the unrolled network only (class where single queries are right)
        if impl[0] != "ok":
            return bad("impl!=unrolled", {"impl": str(impl)[:300]}, key=key, tags=tags + ["ref-only"])
        for qq in qs:
            want = unrolled_reference(t, T, qq, ev, filt)
            got = [float(x) for x in impl[1][tuple(qq)].values.ravel()]
            if has_nan(want):
                return ok(nontrivial=False, key=key, tags=tags + ["ref-only", "zero-probability-evidence"])
            if not vec_eq(got, want):
                return bad("impl!=unrolled", {"q": qq, "ev": ev, "mode": mode, "impl": got[:8], "unrolled": want[:8]}, key=key,
                           tags=tags + ["ref-only"])
        return ok(key=key, tags=tags + ["ref-only", "agree", "size=" + case["ref_only"]])

    # --- model
    wire = [wire_cpd(dict(case, named=False), c, card) for c in cpds]
    model = drv.call_e("c17_infer", [n, card, edges_of(t), wire, qs, ev, 0 if filt else 1])
    if model[0] == "ok":
        model = ("ok", {tuple(k): [common.frac(x) for x in v] for k, v in model[1]})

    # --- class: a name without intra edge
    if cls == "nointra":
        if impl == ("err", 3) and model == ("err", 3):
            return bad("crash", {"what": "DBNInference.__init__ raises ValueError: a variable without intra-slice edge "
                                         "is missing from the start/1.5-slice BayesianNetwork", "intra": t["intra"],
                                 "inter": t["inter"], "n": n}, finding=F_NOINTRA, key=key, tags=tags + ["err=3"])
        return bad("impl!=model", {"impl": str(impl)[:300], "model": str(model)[:300]}, key=key, tags=tags)

    if case.get("reject") or impl in (("err", 8), ("err", 9)) or model in (("err", 8), ("err", 9)):
        if impl == model and impl[0] == "err":
            return ok(key=key, tags=tags + ["rejected-call", "err=%d" % impl[1]])
        return bad("impl!=model", {"what": "call that must be rejected", "impl": str(impl)[:300], "model": str(model)[:300]},
                   key=key, tags=tags)

    if named_crash is not None:
        return bad("crash", {"what": "evidence given by state name fails after the state names were dropped "
                                     "by _shift_factor", "exception": named_crash}, finding=F_NAMES, key=key,
                   tags=tags + ["named-crash"])

    # --- references
    refs, specs = {}, {}
    joint = 1
    for s in range(T + 1):
        for v in range(n):
            joint *= card[v]
    zero_evidence = False
    for q in qs:
        if case.get("dec2"):
            # tables that are not exactly normalised: pgmpy's VariableElimination prunes barren nodes, which presumes
            # normalised CPDs; the reference is the unpruned product of the unrolled network (brute-force spec, or
            # the model's answer: with unnormalised tables even "unrolled to T" and "unrolled to the query's slice"
            # differ for filtering, so the brute-force spec over T slices is not used either)
            refs[tuple(q)] = [float(x) for x in model[1][tuple(q)]] if model[0] == "ok" and tuple(q) in model[1] else None
        else:
            try:
                refs[tuple(q)] = unrolled_reference(t, T, q, ev, filt)
            except Exception as e:  # impossible evidence in the reference (zero rows)
                refs[tuple(q)] = None
        if joint <= SPEC_LIMIT and not case.get("dec2"):
            sp = drv.call_e("c17_spec", [n, card, wire, T, q, ev, 0 if filt else 1])
            if sp[0] == "ok":
                specs[tuple(q)] = [common.frac(x) for x in sp[1]]
            else:
                zero_evidence = True
    if specs:
        tags.append("spec-checked")
    for q in specs:
        if refs.get(q) is not None and not has_nan(refs[q]) and not vec_eq(refs[q], specs[q]):
            return bad("ref!=spec", {"q": q, "ref": refs[q], "spec": [float(x) for x in specs[q]]}, key=key, tags=tags)
    if zero_evidence or any(v is None or has_nan(v) for v in refs.values()):
        return ok(nontrivial=False, key=key, tags=tags + ["zero-probability-evidence"])
    if model == ("err", 5):
        # the model's normalising constant is exactly zero: impossible evidence (reported as skipped)
        return ok(nontrivial=False, key=key, tags=tags + ["zero-probability-evidence"])
    truth = {q: (specs[q] if q in specs else refs[q]) for q in refs}

    def impl_vals():
        return {k: [float(x) for x in f.values.ravel()] for k, f in impl[1].items()}

    def veq(a, b):
        if case.get("tiny"):
            # relative to the exact value, entry by entry (absolute 1e-9 would hide everything below 1e-9)
            return len(a) == len(b) and all(abs(float(x) - float(y)) <= 1e-7 * abs(float(y)) + 1e-290 for x, y in zip(a, b))
        return vec_eq(a, b)

    def agrees(a, b):
        return set(a) == set(b) and all(veq(a[k], b[k]) for k in a)

    # --- forward_inference(..., "potential"): the interface potentials, by named assignment
    if pot_impl is not None and impl[0] == "ok" and model[0] == "ok":
        mp = drv.call_e("c17_potentials", [n, card, edges_of(t), wire, qs, ev])
        if mp[0] != "ok" or len(mp[1]) != len(pot_impl) or sorted(pot_impl) != list(range(len(mp[1]))):
            return bad("impl!=model", {"what": "potential_dict", "impl_keys": sorted(map(str, pot_impl)), "model": str(mp)[:200]},
                       key=key, tags=tags)
        import itertools
        for ts, (mscope, mvals) in enumerate(mp[1]):
            f = pot_impl[ts]
            iscope = [tuple(unname(case, n, x)) for x in f.scope()]
            itab = {}
            flat = [float(x) for x in f.values.ravel()]
            for idx, combo in enumerate(itertools.product(*[range(card[v]) for v, _ in iscope])):
                itab[frozenset(zip(iscope, combo))] = flat[idx]
            mtab = {}
            msc = [tuple(x) for x in mscope]
            for idx, combo in enumerate(itertools.product(*[range(card[v]) for v, _ in msc])):
                mtab[frozenset(zip(msc, combo))] = common.frac(mvals[idx])
            if set(itab) != set(mtab) or not all(veq([itab[k]], [mtab[k]]) for k in itab):
                return bad("impl!=model", {"what": "interface potential of slice %d" % ts, "impl": str(sorted(itab.items(), key=str))[:400],
                                           "model": str(sorted(((k, float(v)) for k, v in mtab.items()), key=str))[:400]},
                           key=key, tags=tags)
        tags.append("potentials-checked")

    # --- class: inter-edge heads != tails
    if cls == "iface":
        detail = {"intra": t["intra"], "inter": t["inter"], "qs": qs, "ev": ev, "mode": mode}
        if filt:
            if impl[0] == "err" or model[0] == "err":
                if impl == model and impl == ("err", 4):
                    return bad("crash", dict(detail, what="potential over the slice-1 HEADS of the inter edges is "
                               "not inside the in-clique (built on the slice-0 TAILS)"), finding=F_IFACE, key=key,
                               tags=tags + ["err=4"])
                return bad("impl!=model", {"impl": str(impl)[:300], "model": str(model)[:300]}, key=key, tags=tags)
            iv = impl_vals()
            if has_nan([x for v in iv.values() for x in v]):
                return ok(nontrivial=False, key=key, tags=tags + ["nan"])
            if not agrees(iv, model[1]):
                return bad("impl!=model", dict(detail, impl=str(iv), model={str(k): [float(x) for x in v] for k, v in model[1].items()}),
                           key=key, tags=tags)
            if not agrees(iv, truth):
                return bad("impl!=unrolled", dict(detail, impl=str(iv), unrolled=str(truth)), finding=F_IFACE, key=key,
                           tags=tags + ["wrong-marginal"])
            return ok(key=key, tags=tags + ["agree"])
        # backward pass: the forward potentials fail as above (model error 4), or the backward message over the
        # TAILS (at slice 1) does not fit the out-clique built around the HEADS (possible only if tails !<= heads;
        # which clique is chosen is junction-tree internal, so that sub-case is not predicted by the model)
        if impl[0] == "err":
            if model == ("err", 4) or not tails <= heads:
                return bad("crash", dict(detail, what="ValueError from _update_belief", model=str(model)[:80]),
                           finding=F_IFACE, key=key, tags=tags + ["err=4"])
            return bad("impl!=model", {"impl": str(impl)[:300], "model": str(model)[:300]}, key=key, tags=tags)
        if model[0] != "ok" and model != ("err", 6):
            return bad("impl!=model", {"impl": str(impl)[:300], "model": str(model)[:300]}, key=key, tags=tags)
        iv = impl_vals()
        if model == ("err", 6):
            # non-zero / zero in the as-coded backward pass (numpy inf/nan): no model value; judged by the unrolled network
            if has_nan([x for v in iv.values() for x in v]) or not agrees(iv, truth):
                return bad("impl!=unrolled", dict(detail, impl=str(iv), unrolled=str(truth)), finding=F_IFACE, key=key,
                           tags=tags + ["wrong-marginal", "model-nonfinite-division"])
            return ok(key=key, tags=tags + ["agree", "model-nonfinite-division"])
        if has_nan([x for v in iv.values() for x in v]):
            return ok(nontrivial=False, key=key, tags=tags + ["nan"])
        if not agrees(iv, model[1]):
            return bad("impl!=model", dict(detail, impl=str(iv), model={str(k): [float(x) for x in v] for k, v in model[1].items()}),
                       key=key, tags=tags)
        if not agrees(iv, truth):
            return bad("impl!=unrolled", dict(detail, impl=str(iv), unrolled=str(truth)), finding=F_IFACE, key=key,
                       tags=tags + ["wrong-marginal"])
        return ok(key=key, tags=tags + ["agree"])

    # --- class: valid
    # model error 6: the backward pass divides a non-zero message entry by a zero potential entry (numpy: inf/nan);
    # the model gives no value there, pgmpy's answer is then judged against the unrolled network only
    model_nonfinite = model == ("err", 6)
    if impl[0] != "ok" or (model[0] != "ok" and not model_nonfinite):
        if model == ("err", 5):
            return ok(nontrivial=False, key=key, tags=tags + ["zero-probability-evidence"])
        return bad("impl!=model", {"impl": str(impl)[:300], "model": str(model)[:300]}, key=key, tags=tags)
    iv = impl_vals()
    import math
    nonfinite = any(not math.isfinite(x) for v in iv.values() for x in v)
    if model_nonfinite:
        tags.append("model-nonfinite-division")
    else:
        if nonfinite:
            # the evidence has positive probability (checked above) and the model answers: NaN/inf is a wrong answer
            return bad("impl-nan", {"qs": qs, "ev": ev, "mode": mode, "impl": str(iv),
                                    "model": str({k: [float(x) for x in v] for k, v in model[1].items()})},
                       key=key, tags=tags + ["nan"])
        if not agrees(iv, model[1]):
            return bad("impl!=model", {"qs": qs, "ev": ev, "mode": mode, "impl": str(iv),
                                       "model": str({k: [float(x) for x in v] for k, v in model[1].items()})},
                       key=key, tags=tags)
    if nonfinite or not agrees(iv, truth):
        detail = {"intra": t["intra"], "inter": t["inter"], "qs": qs, "ev": ev, "mode": mode, "impl": str(iv),
                  "unrolled": str({k: [float(x) for x in v] for k, v in truth.items()})}
        qt = sorted(set(q[1] for q in qs))
        multi = len(qt) >= 2 and ((filt and len([x for x in qt if x >= 1]) >= 2) or (not filt and qt[-1] >= 1))
        if multi:
            return bad("impl!=unrolled", dict(detail, what="BeliefPropagation.query re-initialises the engine, dropping "
                       "the interface potential; later slices (forward) / earlier slices (backward) use the prior-less tree"),
                       finding=F_RESET, key=key, tags=tags + ["wrong-marginal", "multi-slice-query"])
        if not filt and iev:
            return bad("impl!=unrolled", detail, finding=F_BWD, key=key, tags=tags + ["wrong-marginal", "bwd-iface-evidence"])
        return bad("impl!=unrolled", detail, key=key, tags=tags)
    if case.get("named"):
        # labels of the returned marginals
        for k, f in impl[1].items():
            want = STATE_POOL[k[0]][:card[k[0]]]
            got = list(list(f.state_names.values())[0])
            if got != want:
                return bad("labels", {"q": k, "expected_state_names": want, "got": [str(x) for x in got]},
                           finding=F_NAMES, key=key, tags=tags + ["labels-dropped"])
    return ok(key=key, tags=tags + ["agree"])


# ------------------------------------------------------------------ initialize_initial_state
def run_init(case, drv):
    t = case["t"]
    n, card = t["n"], t["card"]
    given = [c for c, p in zip(t["cpds"], case["present"]) if p]
    key = template_key(case)
    tags = ["init", "n=%d" % n, "given=%d" % len(given), "maxcard=%d" % max(card)]
    if case.get("named"):
        tags.append("named-states")
    dbn = build_dbn(case, t, given)
    try:
        dbn.initialize_initial_state()
        impl = ("ok", [cpd_from_pgmpy(case, c, n) for c in dbn.cpds])
    except (ValueError, TypeError) as e:
        impl = ("err", 1, repr(e)[:200])
    except Exception as e:
        if type(e).__name__ != "NetworkXError":
            raise
        impl = ("err", 2, repr(e)[:200])
    wire = [wire_cpd(case, c, card) for c in given]
    model = drv.call_e("c17_init", [list(range(n)), edges_of(t), wire])
    if model[0] == "ok":
        model = ("ok", [cpd_from_model(w) for w in model[1]])
    if impl[0] != model[0] or (impl[0] == "err" and impl[1] != model[1]):
        return bad("impl!=model", {"impl": str(impl)[:400], "model": str(model)[:400]}, key=key, tags=tags)
    # the property: every added CPD is the other slice's CPD, unaltered (named assignment, state names)
    src = {tuple(c["var"]): cpd_from_wire(wire_cpd(case, c, card)) for c in given}
    # graph predecessor order of each node, as networkx stores it
    gpar = {}
    for a, b in edges_of(t):
        gpar.setdefault(tuple(b), []).append(a)
        if a[1] == b[1]:
            gpar.setdefault((b[0], 1), []).append([a[0], 1])
    nodeset = set((i, 0) for i in range(n))
    for a, b in edges_of(t):
        nodeset.update([tuple(a), tuple(b), (b[0], 0)])
        if a[1] == b[1]:
            nodeset.update([(a[0], 1), (b[0], 1)])
    if impl[0] == "err" and impl[1] == 2:
        # exact class: the mirror node of a given CPD does not exist (variable without intra edge that is no
        # head of an inter edge: only its slice-0 node was created)
        if any((c["var"][0], 1 - c["var"][1]) not in nodeset for c in given):
            return bad("crash", {"what": "initialize_initial_state raises NetworkXError: a variable without any edge has no "
                                 "slice-1 node", "exception": impl[2]}, finding=F_ISOL, key=key, tags=tags + ["err=2"])
        return bad("unexplained-error", {"impl": impl}, key=key, tags=tags)
    if impl[0] == "err":
        # the only legitimate error: a CPD is missing whose parent count differs from its mirror's graph parents
        for c in given:
            v, s = c["var"]
            tv = (v, 1 - s)
            if tv in src:
                continue
            ps = gpar.get(tv, [])
            if ps and all(p[1] == ps[0][1] for p in ps) and len(ps) != len(c["pars"]):
                return ok(key=key, tags=tags + ["err=1", "user-error:parent-count"])
        return bad("unexplained-error", {"impl": impl}, key=key, tags=tags)
    if len(impl[1]) != len(model[1]) or not all(same_cpd(a, b) for a, b in zip(impl[1], model[1])):
        return bad("impl!=model", {"impl": str(impl)[:600], "model": str(model)[:600]}, key=key, tags=tags)
    added = impl[1][len(given):]
    tags.append("added=%d" % len(added))
    if added:
        snap = [[float(x) for x in c.values.ravel()] for c in dbn.cpds[:len(given)]]
        for c in dbn.cpds[len(given):]:
            c.values[...] = 0.5
        if [[float(x) for x in c.values.ravel()] for c in dbn.cpds[:len(given)]] != snap:
            detail = {"what": "writing into a completed CPD changed the CPD it was copied from",
                      "backend": case.get("backend", "numpy")}
            return bad("shared-buffer", detail, key=key, tags=tags)
    worst = None
    for c in added:
        v, s = c["var"]
        s0 = src[(v, 1 - s)]
        if s0["pars"] and not c["pars"]:
            tags.append("marginalised-branch")
            continue  # not a copy: an initial distribution invented from a transition CPD
        expect = dict(s0, var=[v, s], pars=[[u, 1 - k] for u, k in s0["pars"]])
        if len(expect["pars"]) >= 2 and expect["pars"] != gpar.get((v, s), []):
            tags.append("evidence-order!=graph-order")
        if c["card"] != 2 and not c["pars"]:
            tags.append("parentless-card>2")
        if not same_meaning(dict(c, names=None), dict(expect, names=None)):
            return bad("altered-copy", {"what": "the completed CPD is not the other slice's CPD by named assignment",
                                        "source_parents": s0["pars"], "copy_parents": c["pars"], "var": [v, s]},
                       key=key, tags=tags + ["altered-copy"])
        if c["pars"] != expect["pars"]:
            tags.append("parent-order-changed")
        if c["names"] != expect["names"] and not worst:
            # exact class: string state names were given and the copy carries the default integer names
            if case.get("named") and c["names"] == [list(range(k)) for k in [c["card"]] + list(c["pcards"])]:
                worst = bad("labels", {"what": "copied CPD has integer state names", "var": [v, s]}, finding=F_NAMES,
                            key=key, tags=tags + ["labels-dropped"])
            else:
                return bad("labels", {"what": "unexpected state names", "got": c["names"], "expected": expect["names"]},
                           key=key, tags=tags)
    if worst:
        return worst
    return ok(nontrivial=bool(added), key=key, tags=tags + ["agree"])


# ------------------------------------------------------------------ get_constant_bn
def _constbn_parse(case, sname):
    a, b = sname.rsplit("_", 1)
    return [str_pool(case).index(a), int(b)]


def _constbn_check(case, bn, model, cpds, card, k, key, tags):
    """bn (pgmpy's constant network) against the model's and against the template; None = fine"""
    parse = lambda sname: _constbn_parse(case, sname)
    try:
        [parse(x) for x in bn.nodes()]
    except (ValueError, AttributeError):
        return bad("impl!=model", {"what": "constant network has nodes that are not template nodes",
                                   "nodes": sorted(str(x) for x in bn.nodes())}, key=key, tags=tags)
    iedges = sorted([parse(u), parse(v)] for u, v in bn.edges())
    medges = sorted(model[1][0])
    if iedges != medges:
        return bad("impl!=model", {"edges_impl": iedges, "edges_model": medges}, key=key, tags=tags)
    icp = []
    for c in bn.cpds:
        var = parse(c.variable)
        pars = [parse(p) for p in c.variables[1:]]
        nmz = [[state_code(case, v, lab) for lab in c.state_names[node]] for node, (v, _) in zip(c.variables, [var] + pars)]
        icp.append({"var": var, "card": int(c.cardinality[0]), "pars": pars, "pcards": [int(x) for x in c.cardinality[1:]],
                    "vals": [float(x) for x in c.values.ravel()], "names": nmz})
    mcp = [cpd_from_model(w) for w in model[1][1]]
    if len(icp) != len(mcp) or not all(same_cpd(a, b) for a, b in zip(icp, mcp)):
        return bad("impl!=model", {"impl": str(icp)[:600], "model": str(mcp)[:600]}, key=key, tags=tags)
    # property: the template's CPDs, unchanged (up to the slice offset)
    src = [cpd_from_wire(wire_cpd(case, c, card)) for c in cpds]
    for a, s0 in zip(icp, src):
        expect = dict(s0, var=[s0["var"][0], s0["var"][1] + k], pars=[[u, x + k] for u, x in s0["pars"]])
        if not same_meaning(dict(a, names=None), dict(expect, names=None)):
            return bad("altered-cpd", {"impl": str(a)[:300], "expected": str(expect)[:300]}, key=key, tags=tags)
        if a["names"] != expect["names"]:
            return bad("labels", {"what": "get_constant_bn drops the state names", "var": a["var"]}, finding=F_NAMES,
                       key=key, tags=tags + ["labels-dropped"])
    return None


def run_constbn(case, drv):
    t = case["t"]
    n, card, k = t["n"], t["card"], case["k"]
    key = template_key(case)
    tags = ["constbn", "n=%d" % n, "k=%d" % k]
    cpds = list(t["cpds"])
    names = list(range(n))
    if case.get("isolated"):
        # an extra variable with CPDs but no edge at all
        n2 = n + 1
        card = card + [2]
        cpds = cpds + [{"var": [n, 0], "pars": [], "vals": [[1, 4], [3, 4]]}]
        names = list(range(n2))
        tags.append("isolated-node")
    t2 = dict(t, n=len(names), card=card)
    dbn = build_dbn(case, t2, cpds)
    try:
        if k == 0 and case.get("default_arg"):
            bn = dbn.get_constant_bn()
        elif case.get("default_arg"):
            bn = dbn.get_constant_bn(k)
        else:
            bn = dbn.get_constant_bn(t_slice=k)
        impl = ("ok", bn)
    except ValueError as e:
        if "CPD defined on variable not in the model" not in str(e):
            raise
        impl = ("err", 2)
    wire = [wire_cpd(case, c, card) for c in cpds]
    model = drv.call_e("c17_constbn", [names, edges_of(t), wire, k])
    if impl[0] == "err" or model[0] == "err":
        ends = set()
        for a, b in edges_of(t):
            ends.update([tuple(a), tuple(b)])
            if a[1] == b[1]:
                ends.update([(a[0], 1), (b[0], 1)])
        if impl[0] == "err" and model == ("err", 2) and any(tuple(c["var"]) not in ends for c in cpds):
            return bad("crash", {"what": "get_constant_bn raises ValueError: a CPD's node is no endpoint of any edge (isolated variable, or a "
                                 "variable whose only edges enter it from the previous slice)"}, finding=F_ISOL,
                       key=key, tags=tags + ["err=2"])
        return bad("impl!=model", {"impl": str(impl)[:300], "model": str(model)[:300]}, key=key, tags=tags)

    o = _constbn_check(case, bn, model, cpds, card, k, key, tags)
    if o is not None:
        return o
    return ok(key=key, tags=tags + ["agree"])


# ------------------------------------------------------------------ add_edge & getters
def run_graph(case, drv):
    from pgmpy.models import DynamicBayesianNetwork as DBN
    n = case["n"]
    key = template_key(case)
    tags = ["graph", "n=%d" % n, "edges=%d" % len(case["edges"])]
    d = DBN()
    d.add_nodes_from([nm(case, v) for v in case["extra"]])
    try:
        d.add_edges_from([((nm(case, a[0]), a[1]), (nm(case, b[0]), b[1])) for a, b in case["edges"]])
        un = lambda x: unname(case, n, x)
        impl = ("ok", [sorted(un(x) for x in d.nodes()), sorted([un(u), un(v)] for u, v in d.edges()),
                       sorted([un(u), un(v)] for u, v in d.get_intra_edges(0)),
                       sorted([un(u), un(v)] for u, v in d.get_inter_edges()),
                       sorted(un(x) for x in d.get_interface_nodes(0)), sorted(un(x) for x in d.get_interface_nodes(1))])
    except (ValueError, NotImplementedError) as e:
        impl = ("err", 7)
    model = drv.call_e("c17_graph", [case["extra"], case["edges"]])
    if model[0] == "ok":
        model = ("ok", [sorted(x) for x in model[1]])
    if impl != model:
        return bad("impl!=model", {"impl": str(impl)[:500], "model": str(model)[:500]}, key=key, tags=tags)
    # state after add_edges_from: all edges, or exactly those before the first rejected one
    un = lambda x: unname(case, n, x)
    part = drv.call("c17_graph_partial", [case["extra"], case["edges"]])
    got = [sorted(un(x) for x in d.nodes()), sorted([un(u), un(v)] for u, v in d.edges())]
    want = [sorted(part[1]), sorted(part[2])]
    if got != want or bool(part[0]) != (impl[0] == "ok"):
        return bad("impl!=model", {"what": "graph after add_edges_from", "impl": str(got)[:400], "model": str(want)[:400]},
                   key=key, tags=tags)
    # default / explicit arguments of the getters, and the slice-1 views
    def canon(x):
        return [un(x[0]), un(x[1])] if isinstance(x, tuple) and len(x) == 2 and not isinstance(x[1], int) else un(x)

    same = lambda a, b: sorted(map(canon, a)) == sorted(map(canon, b))
    if not (same(d.get_intra_edges(), d.get_intra_edges(0)) and same(d.get_intra_edges(time_slice=0), d.get_intra_edges(0))
            and same(d.get_interface_nodes(), d.get_interface_nodes(0)) and same(d.get_slice_nodes(), d.get_slice_nodes(0))):
        return bad("default-argument", {"what": "getter() differs from getter(0)"}, key=key, tags=tags)
    i1 = sorted([un(u), un(v)] for u, v in d.get_intra_edges(1))
    i0 = sorted([[u[0], 1], [v[0], 1]] for u, v in ([un(a), un(b)] for a, b in d.get_intra_edges(0)))
    names_now = sorted(set(un(x)[0] for x in d.nodes()))
    s3 = sorted(un(x) for x in d.get_slice_nodes(3))
    if i1 != i0 or s3 != [[v, 3] for v in names_now]:
        return bad("impl!=model", {"what": "get_intra_edges(1) / get_slice_nodes(3)", "intra1": i1, "expected": i0, "slice3": s3},
                   key=key, tags=tags)
    for call in (lambda: d.get_intra_edges(-1), lambda: d.get_interface_nodes(-1), lambda: d.get_slice_nodes(-1),
                 lambda: d.get_cpds(time_slice=-1)):
        try:
            call()
            return bad("accepted-invalid", {"what": "negative time slice accepted by a getter"}, key=key, tags=tags)
        except ValueError:
            pass
    return ok(nontrivial=impl[0] == "ok" and len(impl[1][1]) > 0, key=key,
              tags=tags + (["rejected-edge"] if impl[0] == "err" else ["agree"]))


def run_case(case, drv):
    common.quiet()
    k = case["kind"]
    from pgmpy import config
    try:
        if case.get("backend") == "torch":
            config.set_backend("torch")
        return _run_case(case, drv)
    except CpdNodeMissing:
        return ok(nontrivial=False, key=template_key(case), tags=[k, "cpd-on-missing-slice1-node"])
    finally:
        if case.get("backend") == "torch":
            config.set_backend("numpy")


def run_session(case, drv):
    """One DBNInference object answers all the steps; every answer must be the fresh-engine answer (model,
    unrolled reference): the current code keeps no cross-query state."""
    steps = case["steps"]
    key = template_key(case)
    tags = set(["session", "steps=%d" % len(steps)])
    for a, b in zip(steps, steps[1:]):
        va, vb = sorted(x for x, _ in a["ev"]), sorted(x for x, _ in b["ev"])
        if va and va == vb and sorted(map(str, a["ev"])) != sorted(map(str, b["ev"])):
            tags.add("restated-evidence")
            sa = sorted(str(e) for e in a["ev"] if e[0][1] == 0)
            sb = sorted(str(e) for e in b["ev"] if e[0][1] == 0)
            if sa and sa != sb:
                tags.add("restated-slice0-evidence")
    if any(steps[i] == steps[j] for i in range(len(steps)) for j in range(i)):
        tags.add("repeated-question")
    shared = {}
    finding = None
    for i, st in enumerate(steps):
        sub = {"kind": "infer", "t": case["t"], "qs": st["qs"], "ev": st["ev"], "mode": st["mode"],
               "style": case.get("style", "str"), "named": False, "use_init": case.get("use_init", False),
               "nd": case.get("nd"), "build": case.get("build", "nodes_first"), "potential": i % 3 == 1,
               "empty_ev_dict": i % 2 == 0}
        o = run_infer(sub, drv, shared)
        # the caller owns the returned factors: overwrite them, later answers must not change
        for f in (shared.pop("last", None) or {}).values():
            try:
                f.values[...] = 0.125
            except Exception:
                pass
        tags.update(x for x in o.get("tags", []) if x.startswith(("cls=", "mode=", "T=", "n=")) or x in (
            "agree", "spec-checked", "zero-probability-evidence"))
        if not o["ok"]:
            det = {"step": i, "question": st, "earlier_questions": steps[:i], "detail": o.get("detail")}
            if o.get("finding") is None:
                return bad("session:" + str(o.get("kind")), det, key=key, tags=sorted(tags))
            if finding is None:
                finding = bad("session:" + str(o.get("kind")), det, finding=o["finding"], key=key, tags=sorted(tags))
    if finding is not None:
        return finding
    return ok(key=key, tags=sorted(tags))


def run_constbn_session(case, drv):
    """get_constant_bn returns a network that belongs to the caller (DBN.fit fits it, users edit it): two calls give
    independent objects, and after the caller mutated one, a later call still returns the template's network; its
    VariableElimination marginals are those of the 2-slice unrolled network; simulate() still covers all nodes."""
    import numpy as np
    from pgmpy.factors.discrete import TabularCPD
    t = case["t"]
    n, card, k = t["n"], t["card"], case["k"]
    key = template_key(case)
    tags = ["constbn-session", "n=%d" % n, "k=%d" % k, "mutation=" + case["mutation"]]
    cpds = list(t["cpds"])
    dbn = build_dbn(case, t, cpds)
    wire = [wire_cpd(case, c, card) for c in cpds]
    model = drv.call_e("c17_constbn", [list(range(n)), edges_of(t), wire, k])
    try:
        bn1 = dbn.get_constant_bn(t_slice=k)
    except ValueError as e:
        if "CPD defined on variable not in the model" in str(e) and model == ("err", 2):
            return ok(nontrivial=False, key=key, tags=tags + ["err=2"])  # class covered by the constbn stream
        raise
    if model[0] != "ok":
        return bad("impl!=model", {"impl": "ok", "model": str(model)}, key=key, tags=tags)
    o = _constbn_check(case, bn1, model, cpds, card, k, key, tags)
    if o is not None:
        return o
    bn1b = dbn.get_constant_bn(t_slice=k)
    if bn1b is bn1 or any(a is b for a in bn1.cpds for b in bn1b.cpds):
        return bad("shared-object", {"what": "two get_constant_bn calls return the same network / CPD objects"},
                   key=key, tags=tags)
    # --- the caller edits ITS network
    target = bn1.cpds[case["target"] % len(bn1.cpds)]
    mut = case["mutation"]
    if mut == "replace_cpd":
        vals = np.array(target.get_values())
        vals = vals[::-1].copy()  # reverse the rows: another distribution unless symmetric
        ev_ = list(target.variables[1:])
        bn1.add_cpds(TabularCPD(target.variable, int(target.cardinality[0]), vals, evidence=ev_ or None,
                                evidence_card=[int(x) for x in target.cardinality[1:]] or None))
    elif mut == "remove_node":
        leaves = [x for x in bn1.nodes() if not list(bn1.successors(x))]
        bn1.remove_node(sorted(leaves)[case["target"] % len(leaves)])
    elif mut == "add_node":
        bn1.add_node("extra_9")
        bn1.add_edge(sorted(bn1.nodes())[0], "extra_9") if sorted(bn1.nodes())[0] != "extra_9" else None
    elif mut == "remove_cpds":
        bn1.remove_cpds(target)
    else:
        target.values[...] = np.roll(np.asarray(target.values), 1, axis=0)
    # --- later calls still give the template's network
    for kk in ([k] if k == 0 else [k, 0]):
        mdl = model if kk == k else drv.call_e("c17_constbn", [list(range(n)), edges_of(t), wire, kk])
        bn2 = dbn.get_constant_bn(t_slice=kk)
        o = _constbn_check(case, bn2, mdl, cpds, card, kk, key, tags + ["after-mutation"])
        if o is not None:
            o["kind"] = "after-mutation:" + str(o["kind"])
            return o
        if kk == 0:
            # the k = 0 constant network IS the network unrolled to T = 1
            from pgmpy.inference import VariableElimination
            pool = str_pool(case)
            v = case["target"] % n
            got = [float(x) for x in VariableElimination(bn2).query(["%s_1" % pool[v]], show_progress=False).values]
            want = unrolled_reference(t, 1, [v, 1], [], False)
            if not vec_eq(got, want):
                return bad("after-mutation:marginal", {"var": [v, 1], "constant_bn": got, "unrolled": want}, key=key, tags=tags)
    if case.get("simulate"):
        df = dbn.simulate(n_samples=3, n_time_slices=2, seed=0, show_progress=False)
        spool = str_pool(case)
        cols = sorted([spool.index(str(c[0])), int(c[1])] for c in df.columns)
        want = sorted([v, s] for v in range(n) for s in (0, 1))
        if cols != want:
            return bad("after-mutation:simulate", {"columns": cols, "expected": want}, key=key, tags=tags)
        for c in df.columns:
            v = spool.index(str(c[0]))
            if not all(0 <= int(x) < card[v] for x in df[c]):
                return bad("after-mutation:simulate", {"column": str(c), "values": [str(x) for x in df[c]]}, key=key, tags=tags)
        tags.append("simulate")
    return ok(key=key, tags=tags + ["agree"])


def _tables_for(rng, t, v, s, pars):
    card = t["card"]
    return {"var": [v, s], "pars": pars, "vals": _table(rng, card[v], [card[u] for u, _ in pars], False)}


def run_edit_session(case, drv):
    """The DBN object is used (getters, get_constant_bn, an engine and a query), then edited through the public
    mutators (remove_cpds by object or by node + add_cpds; add_edge; networkx remove_edge), then used again: every
    answer is the one of a freshly built object for the CURRENT template (model)."""
    from pgmpy.inference import DBNInference
    t1 = case["t"]
    n, card = t1["n"], t1["card"]
    key = template_key(case)
    tags = ["edit-session", "op=" + case["op"], "n=%d" % n]
    rng = random.Random(case["tseed"])
    dbn = build_dbn(case, t1, t1["cpds"])

    def use(t, qd, phase):
        """getters, constant network and a fresh engine on the current object against template t"""
        un = lambda x: unname(case, n, x)
        g = drv.call_e("c17_graph", [list(range(n)), edges_of(t)])
        got = [sorted([un(u), un(v)] for u, v in dbn.get_intra_edges(0)), sorted([un(u), un(v)] for u, v in dbn.get_inter_edges()),
               sorted(un(x) for x in dbn.get_interface_nodes(0)), sorted(un(x) for x in dbn.get_interface_nodes(1))]
        if g[0] != "ok" or got != [sorted(x) for x in g[1][2:6]]:
            return bad(phase + ":impl!=model", {"what": "getters", "impl": str(got)[:300], "model": str(g)[:300]}, key=key, tags=tags)
        wire = [wire_cpd(case, c, card) for c in t["cpds"]]
        m = drv.call_e("c17_constbn", [list(range(n)), edges_of(t), wire, 0])
        try:
            bn = dbn.get_constant_bn()
            if m[0] != "ok":
                return bad(phase + ":impl!=model", {"what": "get_constant_bn", "model": str(m)}, key=key, tags=tags)
            o = _constbn_check(case, bn, m, t["cpds"], card, 0, key, tags)
            if o is not None:
                o["kind"] = phase + ":" + str(o["kind"])
                return o
        except ValueError as e:
            if "CPD defined on variable not in the model" not in str(e) or m != ("err", 2):
                raise
        sub = {"kind": "infer", "t": t, "qs": qd["qs"], "ev": qd["ev"], "mode": qd["mode"], "style": case.get("style", "str"),
               "named": False, "use_init": False}
        shared = {}
        try:
            shared["engine"] = (DBNInference(dbn), None)
        except ValueError as e:
            if "CPD defined on variable not in the model" not in str(e):
                raise
            shared["engine"] = (None, ("err", 3))
        o = run_infer(sub, drv, shared)
        if not o["ok"]:
            o = dict(o, kind=phase + ":" + str(o["kind"]))
        return o

    o1 = use(t1, case["q1"], "before")
    if not o1["ok"] and o1.get("finding") is None:
        return dict(o1, key=key)
    # ---- edit
    t2 = dict(t1, cpds=list(t1["cpds"]), inter=list(t1["inter"]), edges=[e for e in edges_of(t1)])
    t2.pop("eorder", None)
    op = case["op"]
    heads = sorted(set(v for _, v in t1["inter"]))
    if op == "remove_inter" and len(t1["inter"]) < 2:
        op = "replace_cpd"
    if op == "add_inter":
        cand = [[u, v] for u in range(n) for v in range(n) if [u, v] not in t1["inter"]]
        if not cand:
            op = "replace_cpd"
    tags.append("applied=" + op)

    def replace(old, new):
        obj = [c for c in dbn.cpds if tuple(unname(case, n, c.variable)) == tuple(old["var"])][0]
        if case.get("by_node"):
            dbn.remove_cpds((rebuild(nm(case, old["var"][0])), old["var"][1]))
        else:
            dbn.remove_cpds(obj)
        dbn.add_cpds(mk_tabular(case, new, card))
        t2["cpds"] = [c for c in t2["cpds"] if c["var"] != old["var"]] + [new]

    if op == "replace_cpd":
        old = t1["cpds"][case["pick"] % len(t1["cpds"])]
        replace(old, _tables_for(rng, t1, old["var"][0], old["var"][1], old["pars"]))
    elif op == "add_inter":
        u, v = cand[case["pick"] % len(cand)]
        dbn.add_edge((nm(case, u), 0), (nm(case, v), 1))
        t2["inter"].append([u, v])
        t2["edges"].append([[u, 0], [v, 1]])
        old = [c for c in t1["cpds"] if c["var"] == [v, 1]][0]
        replace(old, _tables_for(rng, t1, v, 1, old["pars"] + [[u, 0]]))
    else:
        u, v = t1["inter"][case["pick"] % len(t1["inter"])]
        dbn.remove_edge((nm(case, u), 0), (nm(case, v), 1))
        t2["inter"].remove([u, v])
        t2["edges"].remove([[u, 0], [v, 1]])
        old = [c for c in t1["cpds"] if c["var"] == [v, 1]][0]
        replace(old, _tables_for(rng, t1, v, 1, [p for p in old["pars"] if p != [u, 0]]))
    o2 = use(t2, case["q2"], "after-edit")
    if not o2["ok"]:
        return dict(o2, key=key, tags=sorted(set(tags + o2.get("tags", []))))
    if not o1["ok"]:
        return dict(o1, key=key)
    return ok(key=key, tags=sorted(set(tags + ["agree"])))


def run_reject_misc(case, drv):
    """add_cpds(*cpds) with an invalid CPD in a LATER position adds nothing; non-CPD arguments are rejected"""
    from pgmpy.factors.discrete import TabularCPD
    t = case["t"]
    n, card = t["n"], t["card"]
    key = template_key(case)
    tags = ["reject-misc", "pos=%d" % case["pos"]]
    k = case["k"]
    dbn = build_dbn(case, t, t["cpds"][:k])
    before = [id(c) for c in dbn.cpds]
    rest = [mk_tabular(case, c, card) for c in t["cpds"][k:k + 2]]
    bad_cpd = TabularCPD(("not-a-node", 0), 2, [[0.5], [0.5]]) if case["pos"] != 2 else "not a cpd"
    args = rest[:1] + [bad_cpd] + rest[1:] if case["pos"] else [bad_cpd] + rest
    try:
        dbn.add_cpds(*args)
        return bad("accepted-invalid", {"what": "add_cpds accepted an invalid argument", "arg": str(bad_cpd)}, key=key, tags=tags)
    except CpdNodeMissing:
        raise
    except ValueError:
        pass
    if [id(c) for c in dbn.cpds] != before:
        return bad("partial-effect", {"what": "add_cpds raised but kept some of the CPDs", "before": len(before),
                                      "after": len(dbn.cpds)}, key=key, tags=tags)
    return ok(key=key, tags=tags + ["rejected-call"])


def _run_case(case, drv):
    k = case["kind"]
    if k == "session":
        return run_session(case, drv)
    if k == "constbn_session":
        return run_constbn_session(case, drv)
    if k == "edit_session":
        return run_edit_session(case, drv)
    if k == "reject_misc":
        return run_reject_misc(case, drv)
    if k == "infer":
        return run_infer(case, drv)
    if k == "init":
        return run_init(case, drv)
    if k == "constbn":
        return run_constbn(case, drv)
    return run_graph(case, drv)
